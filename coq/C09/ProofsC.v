(* C09 — lemmas for the completeness half: the callbacks of every model
   trace satisfy the delivery monitor [complete_ok]. *)
From Coq Require Import ZArith NArith List Bool Lia ZifyBool.
From Verif Require Import C09.Model C09.Spec C09.Proofs.
Import ListNotations.
Open Scope Z_scope.

(* ------------------------------------------------ scan / extract, pure *)
Lemma listN_eqb_refl : forall l, listN_eqb l l = true.
Proof. induction l as [|x l IH]; cbn; [reflexivity | rewrite N.eqb_refl, IH; reflexivity]. Qed.

Lemma paid_nil_same : forall x t, fst (scan_tx x t) = false -> snd (scan_tx x t) = x.
Proof.
  intros [a o] t. unfold scan_tx. cbn [fst snd]. intros H.
  apply orb_false_elim in H. destruct H as [_ H]. apply negb_false_iff in H.
  destruct (paid a (txid t) 0%N (touts t)); [|discriminate]. rewrite app_nil_r. reflexivity.
Qed.

(* a block without relevant transactions leaves the watch state alone *)
Lemma scan_nil_same : forall txs x x', scan x txs = ([], x') -> x' = x.
Proof.
  induction txs as [|t r IH]; intros x x' H; cbn [scan] in H.
  - inversion H; reflexivity.
  - pose proof (paid_nil_same x t) as P.
    destruct (scan_tx x t) as [rel x1]. cbn [fst snd] in P.
    destruct (scan x1 r) as [l x2] eqn:E. inversion H as [[H1 H2]]. subst x2.
    destruct rel; [discriminate|]. cbn in H1. subst l.
    rewrite (IH _ _ E). apply P. reflexivity.
Qed.

Lemma pays_outs_in : forall A tid outs i o sc,
  In (o, sc) (pays_outs A tid i outs) ->
  exists k, nth_error outs k = Some sc /\ o = (tid, (i + N.of_nat k)%N) /\ In sc A.
Proof.
  induction outs as [|s0 r IH]; intros i o sc H; cbn [pays_outs] in H; [contradiction|].
  apply in_app_or in H. destruct H as [H|H].
  - destruct (memN s0 A) eqn:E; [|contradiction]. destruct H as [H|[]]. inversion H; subst.
    exists 0%nat. cbn. split; [reflexivity|]. split; [f_equal; lia | apply memN_In; exact E].
  - destruct (IH _ _ _ H) as (k & Hk & Ho & Ha). exists (S k). cbn. split; [exact Hk|].
    split; [subst o; f_equal; lia | exact Ha].
Qed.

Lemma tx_step_closed : forall x t, watch_closed x -> watch_closed (snd (tx_step x t)).
Proof.
  intros x t [Ha Hi]. unfold tx_step, watch_closed. cbn [snd waddrs winputs wlist]. split.
  - intros a H. apply in_or_app; left; auto.
  - intros i H. apply in_app_or in H. apply in_or_app. destruct H as [H|H]; [left; auto | right].
    apply in_map. exact H.
Qed.

Lemma extract_closed : forall txs x, watch_closed x -> watch_closed (snd (extract x txs)).
Proof.
  induction txs as [|t r IH]; intros x H; cbn [extract]; [exact H|].
  pose proof (tx_step_closed x t H) as H1. destruct (tx_step x t) as [rel x1]. cbn [snd] in H1.
  specialize (IH x1 H1). destruct (extract x1 r) as [l x2]. exact IH.
Qed.

Lemma tx_step_wscr : forall scr x t,
  (forall i, In i (winputs x) -> snd i = scr (fst i)) -> tx_scripts_ok scr t ->
  forall i, In i (winputs (snd (tx_step x t))) -> snd i = scr (fst i).
Proof.
  intros scr x t Hx [_ Ht] i H. unfold tx_step in H. cbn [snd winputs] in H.
  apply in_app_or in H. destruct H as [H|H]; [auto|].
  destruct i as [o sc]. apply pays_outs_in in H. destruct H as (k & Hk & Ho & _).
  cbn [fst snd]. subst o. rewrite N.add_0_l. symmetry. apply Ht. exact Hk.
Qed.

Lemma extract_wscr : forall scr txs x,
  (forall i, In i (winputs x) -> snd i = scr (fst i)) ->
  (forall t, In t txs -> tx_scripts_ok scr t) ->
  forall i, In i (winputs (snd (extract x txs))) -> snd i = scr (fst i).
Proof.
  induction txs as [|t r IH]; intros x Hx Ht; cbn [extract]; [exact Hx|].
  pose proof (tx_step_wscr scr x t Hx (Ht t (or_introl eq_refl))) as H1.
  destruct (tx_step x t) as [rel x1]. cbn [snd] in H1.
  specialize (IH x1 H1 (fun t' H => Ht t' (or_intror H))).
  destruct (extract x1 r) as [l x2]. exact IH.
Qed.

Lemma watch_nil : forall x, watch_closed x -> is_nil (wlist x) = true ->
  forall sc, ~ In sc (wlist x).
Proof. intros x _ H sc. destruct (wlist x); [intros [] | discriminate]. Qed.

(* extractBlockMatches only ever adds to the watched inputs *)
Lemma extract_waddrs : forall txs x, waddrs (snd (extract x txs)) = waddrs x.
Proof.
  induction txs as [|t r IH]; intros x; cbn [extract]; [reflexivity|].
  destruct (tx_step x t) as [rel x1] eqn:E.
  assert (Q : waddrs x1 = waddrs x) by (unfold tx_step in E; inversion E; reflexivity).
  specialize (IH x1). destruct (extract x1 r) as [l x2]. cbn [snd] in *. congruence.
Qed.
Lemma extract_winputs : forall txs x o,
  In o (map fst (winputs x)) -> In o (map fst (winputs (snd (extract x txs)))).
Proof.
  induction txs as [|t r IH]; intros x o H; cbn [extract]; [exact H|].
  destruct (tx_step x t) as [rel x1] eqn:E.
  assert (Q : In o (map fst (winputs x1))).
  { unfold tx_step in E; inversion E. cbn [winputs]. rewrite map_app. apply in_or_app. left. exact H. }
  specialize (IH x1 o Q). destruct (extract x1 r) as [l x2]. exact IH.
Qed.

(* ------------------------------------ watch states with the same members *)
(* waitForBlocks applies its queue of updates again and again, so the watch
   lists of the code hold entries more than once; relevance only asks for
   membership *)
Definition weq (x y : swatch) : Prop :=
  (forall a, In a (fst x) <-> In a (fst y)) /\ (forall o, In o (snd x) <-> In o (snd y)).

Lemma weq_refl : forall x, weq x x.
Proof. intros x; split; intros; tauto. Qed.
Lemma weq_sym : forall x y, weq x y -> weq y x.
Proof. intros x y [A B]; split; intros; [rewrite A | rewrite B]; tauto. Qed.
Lemma weq_trans : forall x y z, weq x y -> weq y z -> weq x z.
Proof. intros x y z [A B] [C D]; split; intros; [rewrite A, C | rewrite B, D]; tauto. Qed.

Lemma memN_weq : forall a l l', (forall x, In x l <-> In x l') -> memN a l = memN a l'.
Proof.
  intros a l l' H. destruct (memN a l) eqn:E1, (memN a l') eqn:E2; try reflexivity.
  - apply memN_In, H, memN_In in E1. congruence.
  - apply memN_In, H, memN_In in E2. congruence.
Qed.

Lemma op_eqb_refl : forall o, op_eqb o o = true.
Proof. intros [a b]. unfold op_eqb. cbn. rewrite !N.eqb_refl. reflexivity. Qed.

Lemma mem_op_In : forall o l, mem_op o l = true <-> In o l.
Proof.
  intros o l. unfold mem_op. rewrite existsb_exists. split.
  - intros (y & Hy & E). apply op_eqb_eq in E. subst. exact Hy.
  - intros H. exists o. split; [exact H | apply op_eqb_refl].
Qed.

Lemma mem_op_weq : forall o l l', (forall x, In x l <-> In x l') -> mem_op o l = mem_op o l'.
Proof.
  intros o l l' H. destruct (mem_op o l) eqn:E1, (mem_op o l') eqn:E2; try reflexivity.
  - apply mem_op_In, H, mem_op_In in E1. congruence.
  - apply mem_op_In, H, mem_op_In in E2. congruence.
Qed.

Lemma paid_weq : forall A A' tid outs i, (forall x, In x A <-> In x A') ->
  paid A tid i outs = paid A' tid i outs.
Proof.
  induction outs as [|sc r IH]; intros i H; cbn [paid]; [reflexivity|].
  rewrite (memN_weq sc A A' H), (IH _ H). reflexivity.
Qed.

Lemma scan_tx_weq : forall x y t, weq x y ->
  fst (scan_tx x t) = fst (scan_tx y t) /\ weq (snd (scan_tx x t)) (snd (scan_tx y t)).
Proof.
  intros x y t [A B]. unfold scan_tx. cbn [fst snd]. rewrite (paid_weq _ _ _ _ _ A). split.
  - f_equal. apply existsb_ext'. intros i. apply mem_op_weq. exact B.
  - split; cbn [fst snd]; [exact A|]. intros o. rewrite !in_app_iff, B. tauto.
Qed.

Lemma scan_weq : forall txs x y, weq x y ->
  fst (scan x txs) = fst (scan y txs) /\ weq (snd (scan x txs)) (snd (scan y txs)).
Proof.
  induction txs as [|t r IH]; intros x y H; cbn [scan]; [split; [reflexivity | exact H]|].
  destruct (scan_tx_weq x y t H) as [E1 E2].
  destruct (scan_tx x t) as [rel x1]. destruct (scan_tx y t) as [rel' y1]. cbn [fst snd] in *. subst rel'.
  destruct (IH x1 y1 E2) as [E3 E4].
  destruct (scan x1 r) as [l x2]. destruct (scan y1 r) as [l' y2]. cbn [fst snd] in *. subst l'.
  split; [reflexivity | exact E4].
Qed.

(* what is relevant is delivered: a transaction of the block that pays a
   watched script or spends a watched outpoint (watched when the block is
   looked at, or created by an earlier transaction of the same block) is in
   the result of [scan], whatever the watch list looks like - several
   addresses of one key are several scripts, repeated entries change nothing *)
Definition pays_or_spends (x : swatch) (t : tx) : Prop :=
  (exists sc, In sc (touts t) /\ In sc (fst x)) \/
  (exists i, In i (tins t) /\ In (fst i) (snd x)).

Lemma paid_nonempty : forall A tid outs i sc, In sc outs -> In sc A -> paid A tid i outs <> [].
Proof.
  induction outs as [|s0 r IH]; intros i sc Ho Ha; cbn [paid]; [destruct Ho|].
  destruct Ho as [->|Ho].
  - apply memN_In in Ha. rewrite Ha. discriminate.
  - intros E. apply app_eq_nil in E. destruct E as [_ E]. exact (IH _ _ Ho Ha E).
Qed.

Lemma scan_tx_relevant : forall x t, pays_or_spends x t -> fst (scan_tx x t) = true.
Proof.
  intros x t [(sc & Ho & Ha)|(i & Hi & Hw)]; unfold scan_tx; cbn [fst].
  - apply orb_true_iff. right. pose proof (paid_nonempty (fst x) (txid t) (touts t) 0%N sc Ho Ha) as P.
    destruct (paid (fst x) (txid t) 0%N (touts t)); [congruence | reflexivity].
  - apply orb_true_iff. left. apply existsb_exists. exists i. split; [exact Hi | apply mem_op_In; exact Hw].
Qed.

Lemma scan_tx_grows : forall x t u, pays_or_spends x u -> pays_or_spends (snd (scan_tx x t)) u.
Proof.
  intros x t u [H|(i & Hi & Hw)]; unfold scan_tx; cbn [snd]; [left; exact H|].
  right. exists i. split; [exact Hi|]. cbn [snd]. apply in_or_app. left. exact Hw.
Qed.

Lemma scan_delivers : forall txs x t, In t txs -> pays_or_spends x t -> In (txid t) (fst (scan x txs)).
Proof.
  induction txs as [|a r IH]; intros x t Hin Hp; [destruct Hin|]. cbn [scan].
  pose proof (scan_tx_relevant x a) as R. pose proof (scan_tx_grows x a t Hp) as Gr.
  destruct (scan_tx x a) as [rel x1]. cbn [fst snd] in *.
  specialize (IH x1 t). destruct (scan x1 r) as [l x2]. cbn [fst] in *.
  apply in_or_app. destruct Hin as [->|Hin].
  - left. rewrite (R Hp). left. reflexivity.
  - right. apply IH; assumption.
Qed.

(* the items of a list of updates, as a watch state *)
Definition qitems (q : list update) : swatch :=
  (flat_map uaddrs q, flat_map (fun u => map fst (uinputs u)) q).
Definition wapp (a b : swatch) : swatch := (fst a ++ fst b, snd a ++ snd b).

Lemma wapp_nil : forall x, wapp x (qitems []) = x.
Proof. intros [a o]. unfold wapp, qitems. cbn. rewrite !app_nil_r. reflexivity. Qed.

(* the items of update [u] are watched in [x] *)
Definition sub_w (u : update) (x : watch) : Prop :=
  (forall a, In a (uaddrs u) -> In a (waddrs x)) /\
  (forall o, In o (map fst (uinputs u)) -> In o (map fst (winputs x))).

Lemma sub_w_add : forall u u' x, sub_w u x -> sub_w u (add_update u' x).
Proof.
  intros u u' x [A B]. unfold sub_w, add_update. cbn [waddrs winputs]. split.
  - intros a H. apply in_or_app. left. auto.
  - intros o H. rewrite map_app. apply in_or_app. left. auto.
Qed.
Lemma sub_w_self : forall u x, sub_w u (add_update u x).
Proof.
  intros u x. unfold sub_w, add_update. cbn [waddrs winputs]. split.
  - intros a H. apply in_or_app. right. exact H.
  - intros o H. rewrite map_app. apply in_or_app. right. exact H.
Qed.

Lemma add_update_closed : forall u x, watch_closed x -> watch_closed (add_update u x).
Proof.
  intros u x [Ca Ci]. unfold watch_closed, add_update. cbn [waddrs winputs wlist]. split.
  - intros a Hx. apply in_app_or in Hx. apply in_or_app.
    destruct Hx as [Hx|Hx]; [left; auto | right; apply in_or_app; left; exact Hx].
  - intros a Hx. apply in_app_or in Hx. apply in_or_app.
    destruct Hx as [Hx|Hx]; [left; auto | right; apply in_or_app; right; apply in_map; exact Hx].
Qed.

Lemma qitems_app : forall q r, qitems (q ++ r) = wapp (qitems q) (qitems r).
Proof. intros q r. unfold qitems, wapp. cbn [fst snd]. rewrite !flat_map_app. reflexivity. Qed.

Lemma qitems_in_a : forall q a, In a (fst (qitems q)) <-> exists u, In u q /\ In a (uaddrs u).
Proof. intros q a. unfold qitems. cbn [fst]. apply in_flat_map. Qed.
Lemma qitems_in_o : forall q o, In o (snd (qitems q)) <-> exists u, In u q /\ In o (map fst (uinputs u)).
Proof. intros q o. unfold qitems. cbn [snd]. apply in_flat_map. Qed.

(* applying an update whose items are still counted on the queue side *)
Lemma weq_apply : forall mw x u r,
  weq mw (wapp (proj_watch x) (qitems (u :: r))) ->
  weq mw (wapp (proj_watch (add_update u x)) (qitems r)).
Proof.
  intros mw x u r [A B]. unfold weq, wapp, proj_watch, qitems, add_update in *.
  cbn [fst snd waddrs winputs flat_map] in *. split.
  - intros a. rewrite A, !in_app_iff. tauto.
  - intros o. rewrite B, map_app, !in_app_iff. tauto.
Qed.

(* an update joins the specification's watch state and the queue *)
Lemma weq_recv : forall mw x q u,
  weq mw (proj_watch x) -> (forall u', In u' q -> sub_w u' x) ->
  weq (fst mw ++ uaddrs u, snd mw ++ map fst (uinputs u)) (wapp (proj_watch x) (qitems (q ++ [u]))).
Proof.
  intros mw x q u [A B] Hq. rewrite qitems_app. unfold weq, wapp. cbn [fst snd]. split.
  - intros a. rewrite !in_app_iff, A. unfold proj_watch, qitems. cbn [fst flat_map].
    rewrite app_nil_r. split; [tauto|]. intros [H|[H|H]]; auto.
    apply (qitems_in_a q a) in H. destruct H as (u' & Hu & Ha). left. apply (Hq u' Hu). exact Ha.
  - intros o. rewrite !in_app_iff, B. unfold proj_watch, qitems. cbn [snd flat_map].
    rewrite app_nil_r. split; [tauto|]. intros [H|[H|H]]; auto.
    apply (qitems_in_o q o) in H. destruct H as (u' & Hu & Ho). left. apply (Hq u' Hu). exact Ho.
Qed.

(* a new pass over a queue all of whose updates have been applied *)
Lemma weq_restart : forall mw x q,
  weq mw (proj_watch x) -> (forall u', In u' q -> sub_w u' x) ->
  weq mw (wapp (proj_watch x) (qitems q)).
Proof.
  intros mw x q [A B] Hq. unfold weq, wapp. cbn [fst snd]. split.
  - intros a. rewrite in_app_iff, A. split; [tauto|]. intros [H|H]; auto.
    apply (qitems_in_a q a) in H. destruct H as (u' & Hu & Ha). apply (Hq u' Hu). exact Ha.
  - intros o. rewrite in_app_iff, B. split; [tauto|]. intros [H|H]; auto.
    apply (qitems_in_o q o) in H. destruct H as (u' & Hu & Ho). apply (Hq u' Hu). exact Ho.
Qed.

(* ------------------------------------------------------ monitor, pure *)
Lemma mon_cbs_snoc : forall l m c,
  mon_cbs m (l ++ [c]) =
  let '(m1, a, b) := mon_cbs m l in
  let '(m2, a', b') := mon_cb m1 c in (m2, a && a', b && b').
Proof.
  induction l as [|x l IH]; intros m c; cbn [app mon_cbs].
  - destruct (mon_cb m c) as [[m2 a'] b']. rewrite !andb_true_r. reflexivity.
  - destruct (mon_cb m x) as [[m1 a] b]. rewrite IH.
    destruct (mon_cbs m1 l) as [[m2 a2] b2]. destruct (mon_cb m2 c) as [[m3 a3] b3].
    rewrite !andb_assoc. reflexivity.
Qed.

Definition blk_entry (b : block) : N * (Z * list tx) := (hid (bh b), (htime (bh b), btxs b)).

Lemma lookup_map : forall id l,
  lookup id (map blk_entry l) = option_map (fun b => (htime (bh b), btxs b)) (find_block id l).
Proof.
  induction l as [|b l IH]; cbn; [reflexivity|].
  destruct (N.eqb (hid (bh b)) id); [reflexivity | exact IH].
Qed.

Lemma find_block_some : forall id l b, find_block id l = Some b -> In b l /\ hid (bh b) = id.
Proof.
  induction l as [|x l IH]; intros b H; cbn in H; [discriminate|].
  destruct (N.eqb_spec (hid (bh x)) id) as [E|E].
  - inversion H; subst. split; [left; reflexivity | reflexivity].
  - destruct (IH _ H). split; [right|]; assumption.
Qed.

Lemma find_block_known : forall s h, Env s -> known s h ->
  exists b, find_block (hid h) (seen s) = Some b /\ bh b = h.
Proof.
  intros s h He K.
  assert (X : exists b, find_block (hid h) (seen s) = Some b).
  { unfold known in K. revert K. generalize (seen s). induction l as [|x l IH]; cbn; [intros []|].
    intros [E|K]; [subst; rewrite N.eqb_refl; eauto|].
    destruct (N.eqb (hid (bh x)) (hid h)); eauto. }
  destruct X as (b & Hb). exists b. split; [exact Hb|].
  destruct (find_block_some _ _ _ Hb) as [Hin Hid].
  apply (functional s); auto. unfold known. apply in_map. exact Hin.
Qed.

(* -------------------------------------------------------- the relation *)
Section Complete.
(* the filter oracle may answer anything (false positives included) except a
   false negative: a watched script that occurs in the block is matched *)
Variable fmatch : list N -> block -> bool.
Hypothesis fmatch_complete : forall wl b sc,
  In sc wl -> In sc (block_scripts b) -> fmatch wl b = true.
(* every outpoint has one script *)
Variable scr : outpoint -> N.

Notation do_call := (Model.do_call fmatch).
Notation do_ev := (Model.do_ev fmatch).
Notation step := (Model.step fmatch).
Notation run := (Model.run fmatch).

(* [c_watch]: what the specification says is watched (the items given at
   Start, those of every Update call that has returned, the outputs found
   paying watched addresses) is, as a set, what the code watches, together
   with the updates the running pass over the queue of waitForBlocks has
   still to apply ([wrest], empty except during a rewind started by that
   pass); [c_q]: every update on that queue has been applied or is still to
   be applied by the running pass *)
Record Lrel (s : state) (m : mon) : Prop := {
  c_blocks : mblocks m = map blk_entry (seen s);
  c_watch : weq (mwatch m) (wapp (proj_watch (w s)) (qitems (wrest s)));
  c_rest : forall u, In u (wrest s) -> In u (wq s);
  c_q : forall u, In u (wq s) -> In u (wrest s) \/ sub_w u (w s);
  c_qscr : forall u i, In u (wq s) -> In i (uinputs u) -> snd i = scr (fst i);
  c_closed : watch_closed (w s);
  c_wscr : forall i, In i (winputs (w s)) -> snd i = scr (fst i);
  c_bscr : forall b t, In b (seen s) -> In t (btxs b) -> tx_scripts_ok scr t;
  c_latch : mlatch m = true -> scanning s = true;
  c_startT : mstartT m = startT (cfg s);
  c_pend : mpend m = pend s;
  c_pscr : forall u i, pend s = Some u -> In i (uinputs u) -> snd i = scr (fst i)
}.

(* the monitor, fed the callbacks of the running step, has accepted them all
   and agrees with the model once the receipt of an update is accounted for *)
Definition CSt (m0 : mon) (s : state) : Prop :=
  exists m1 a, mon_cbs m0 (outq s) = (m1, a, true) /\ mtold m1 <> None /\
               Lrel s (mon_recv m1 (recvd s)).

Definition cscan (s : state) : Prop :=
  match pc s with
  | PFilC | PBlkC | PFil _ _ | PBlk _ _ => scanning s = true
  | PWBest _ | PWSub _ _ | PWait _ | PRew _ (UWait _) => scanning s = false
  | _ => True
  end.

Definition CMid (m0 : mon) (s : state) : Prop := recvd s = false /\ CSt m0 s.
Definition CPost (m0 : mon) (s : state) : Prop := CSt m0 s /\ cscan s.

Definition same_c (s s' : state) : Prop :=
  seen s' = seen s /\ w s' = w s /\ (scanning s = true -> scanning s' = true) /\
  cfg s' = cfg s /\ pend s' = pend s /\ wq s' = wq s /\ wrest s' = wrest s.

Lemma Lrel_frame : forall s s' m, same_c s s' -> Lrel s m -> Lrel s' m.
Proof.
  intros s s' m (E1 & E2 & E3 & E4 & E5 & E6 & E7) [A B B1 B2 B3 C D E F G H I].
  split; rewrite ?E1, ?E2, ?E4, ?E5, ?E6, ?E7; auto.
Qed.

Lemma Lrel_mon_eq : forall s m m',
  mblocks m' = mblocks m -> mwatch m' = mwatch m -> mlatch m' = mlatch m ->
  mstartT m' = mstartT m -> mpend m' = mpend m -> Lrel s m -> Lrel s m'.
Proof.
  intros s m m' E1 E2 E3 E4 E5 [A B B1 B2 B3 C D E F G H I].
  split; rewrite ?E1, ?E2, ?E3, ?E4, ?E5; auto.
Qed.

(* outside a pass over the queue of waitForBlocks the code watches exactly
   (as a set) what the specification says *)
Lemma Lrel_watch : forall s m, Lrel s m -> wrest s = [] -> weq (mwatch m) (proj_watch (w s)).
Proof. intros s m L H. pose proof (c_watch _ _ L) as X. rewrite H, wapp_nil in X. exact X. Qed.

Lemma CSt_frame : forall m0 s s', same_c s s' -> outq s' = outq s -> recvd s' = recvd s ->
  CSt m0 s -> CSt m0 s'.
Proof.
  intros m0 s s' Hs Ho Hr (m1 & a & E & T & L). exists m1, a. rewrite Ho, Hr.
  split; [exact E|]. split; [exact T|]. eapply Lrel_frame; eauto.
Qed.

Ltac samec := unfold same_c; projs; repeat split; auto.

(* a disconnected callback: accepted, nothing but the caller's position moves *)
Lemma CSt_disc : forall m0 s s' a b c, same_c s s' ->
  outq s' = outq s ++ [CbDisc a b c] -> recvd s' = recvd s ->
  CSt m0 s -> CSt m0 s'.
Proof.
  intros m0 s s' a b c Hs Ho Hr (m1 & a1 & E & T & L).
  unfold CSt. rewrite Ho, Hr, mon_cbs_snoc, E.
  unfold mon_cb. destruct (mtold m1) as [t|] eqn:Et; [|contradiction].
  eexists. eexists. split; [reflexivity|]. cbn [mtold]. split; [discriminate|].
  eapply Lrel_frame; [exact Hs|].
  eapply Lrel_mon_eq; [..|exact L]; unfold mon_recv; destruct (recvd s); cbn;
    try (destruct (mpend m1) eqn:Q; cbn; rewrite ?Q); reflexivity.
Qed.

Lemma listN_eqb_nil : forall l, listN_eqb [] l = true -> l = [].
Proof. intros [|x l]; [reflexivity | discriminate]. Qed.

(* a connected callback for the known block [h] whose transactions are [b]:
   accepted if it carries what extractBlockMatches finds, or nothing while
   the rescan is not yet scanning *)
Lemma CSt_conn : forall m0 s s' h k txs b,
  Env s -> known s h -> recvd s = false -> CSt m0 s -> wrest s = [] ->
  wq s' = wq s -> wrest s' = wrest s ->
  find_block (hid h) (seen s) = Some b ->
  (startT (cfg s) <? htime h = true -> scanning s = true) ->
  (extract (w s) (btxs b) = (txs, w s') \/ (scanning s = false /\ txs = [] /\ w s' = w s)) ->
  seen s' = seen s -> (scanning s = true -> scanning s' = true) -> cfg s' = cfg s ->
  pend s' = pend s -> recvd s' = false ->
  outq s' = outq s ++ [CbConn (hid h) (hprev h) k txs] ->
  CMid m0 s'.
Proof.
  intros m0 s s' h k txs b He K Hr (m1 & a1 & E & T & L) Hwr Eq1 Eq2 Hb Hl J E1 E3 E4 E5 Hr' Ho.
  rewrite Hr in L. cbn [mon_recv] in L.
  pose proof (Lrel_watch _ _ L Hwr) as Wq.
  split; [exact Hr'|]. unfold CSt. rewrite Ho, Hr', mon_cbs_snoc, E.
  destruct (find_block_known s h He K) as (b' & Hb' & Hbh). rewrite Hb in Hb'. inversion Hb'; subst b'.
  destruct (find_block_some _ _ _ Hb) as [Hin _].
  unfold mon_cb. destruct (mtold m1) as [t|] eqn:Et; [|contradiction].
  rewrite (c_blocks _ _ L), lookup_map, Hb. cbn [option_map]. rewrite Hbh.
  destruct (extract_scan (btxs b) (w s)) as [X1 X2].
  destruct (scan_weq (btxs b) _ _ Wq) as [Y1 Y2].
  destruct (scan (mwatch m1) (btxs b)) as [rel x'] eqn:Es. cbn [fst snd] in Y1, Y2.
  rewrite <- X1 in Y1. rewrite <- X2 in Y2.
  destruct J as [J|(J1 & J2 & J3)].
  - (* full delivery *)
    rewrite J in Y1, Y2. cbn [fst snd] in Y1, Y2. subst rel.
    rewrite listN_eqb_refl. cbn [orb].
    eexists. eexists. split; [reflexivity|]. cbn [mtold]. split; [discriminate|].
    cbn [mon_recv]. destruct L as [A B B1 B2 B3 C D F G H I P].
    split; cbn [mblocks mwatch mlatch mstartT mpend]; rewrite ?E1, ?E4, ?E5, ?Eq1, ?Eq2; auto.
    + rewrite Hwr, wapp_nil. exact Y2.
    + intros u Hu. destruct (B2 u Hu) as [X|X]; [left; exact X | right].
      destruct X as [Xa Xi].
      assert (Mono : forall a, In a (waddrs (w s)) -> In a (waddrs (w s'))) .
      { intros a0 Ha0. pose proof (extract_waddrs (btxs b) (w s)) as Q. rewrite J in Q.
        cbn [snd] in Q. rewrite Q. exact Ha0. }
      assert (Mono2 : forall o, In o (map fst (winputs (w s))) -> In o (map fst (winputs (w s')))).
      { intros o0 Ho0. pose proof (extract_winputs (btxs b) (w s)) as Q. rewrite J in Q.
        cbn [snd] in Q. apply Q. exact Ho0. }
      split; auto.
    + pose proof (extract_closed (btxs b) (w s) C) as Q. rewrite J in Q. exact Q.
    + pose proof (extract_wscr scr (btxs b) (w s) D (fun t Ht => F b t Hin Ht)) as Q.
      rewrite J in Q. exact Q.
    + intros Q. apply E3. apply orb_prop in Q. destruct Q as [Q|Q]; [auto|].
      apply Hl. rewrite <- H. exact Q.
  - (* not scanning yet: nothing delivered *)
    subst txs.
    assert (Hm : mlatch m1 = false).
    { destruct (mlatch m1) eqn:Q; [|reflexivity]. rewrite (c_latch _ _ L Q) in J1. discriminate. }
    assert (Ht : mstartT m1 <? htime h = false).
    { rewrite (c_startT _ _ L). destruct (startT (cfg s) <? htime h) eqn:Q; [|reflexivity].
      rewrite (Hl eq_refl) in J1. discriminate. }
    rewrite Hm, Ht. cbn [orb negb andb is_nil]. rewrite orb_true_r.
    eexists. eexists. split; [reflexivity|]. cbn [mtold]. split; [discriminate|].
    cbn [mon_recv].
    assert (Hw : (if listN_eqb [] rel then x' else mwatch m1) = mwatch m1).
    { destruct (listN_eqb [] rel) eqn:Q; [|reflexivity].
      apply listN_eqb_nil in Q. rewrite Q in Es. apply (scan_nil_same _ _ _ Es). }
    destruct L as [A B B1 B2 B3 C D F G H I P].
    split; cbn [mblocks mwatch mlatch mstartT mpend]; rewrite ?E1, ?E4, ?E5, ?J3, ?Eq1, ?Eq2, ?Hw; auto.
    intros Q; discriminate.
Qed.

(* ------------------------------------------------- the helper functions *)
Lemma CMid_frame : forall m0 s s', same_c s s' -> outq s' = outq s -> recvd s' = recvd s ->
  CMid m0 s -> CMid m0 s'.
Proof.
  intros m0 s s' Hs Ho Hr [R C]. split; [congruence | eapply CSt_frame; eauto].
Qed.

Lemma settle_C : forall m0 s, CSt m0 s -> CPost m0 (settle s).
Proof.
  intros m0 s C. unfold settle. split.
  - eapply CSt_frame; [| | |exact C]; [samec | reflexivity | reflexivity].
  - unfold cscan; projs. destruct (current s); [destruct (quitf s)|]; exact I.
Qed.

(* the specification's watch state after an Update call has returned *)
Lemma weq_add : forall mw x r u,
  weq mw (wapp (proj_watch x) r) ->
  weq (fst mw ++ uaddrs u, snd mw ++ map fst (uinputs u)) (wapp (proj_watch (add_update u x)) r).
Proof.
  intros mw x r u [A B]. unfold weq, wapp, proj_watch, add_update in *.
  cbn [fst snd waddrs winputs] in *. split.
  - intros a. rewrite !in_app_iff, A, in_app_iff. tauto.
  - intros o. rewrite map_app, !in_app_iff, B, in_app_iff. tauto.
Qed.

Lemma recv_update_C : forall m0 u c s m1 a,
  c = USelect \/ c = UDrain ->
  recvd s = false -> mon_cbs m0 (outq s) = (m1, a, true) -> mtold m1 <> None ->
  Lrel (set_pend (Some u) s) m1 -> CPost m0 (recv_update u c s).
Proof.
  intros m0 u c s m1 a Hc Hr E T L. unfold recv_update.
  set (s1 := set_w (add_update u (w s)) (set_out (outq s) true (set_pend None s))).
  assert (C1 : CSt m0 s1).
  { exists m1, a. subst s1; projs. split; [exact E|]. split; [exact T|].
    destruct L as [A B B1 B2 B3 C D F G H I P]; projs. unfold mon_recv. rewrite I.
    split; cbn [mblocks mwatch mlatch mstartT mpend]; projs; auto.
    - apply weq_add. exact B.
    - intros u' Hu'. destruct (B2 u' Hu') as [X|X]; [left; exact X | right; apply sub_w_add; exact X].
    - apply add_update_closed. exact C.
    - intros i Hi. unfold add_update in Hi. cbn [winputs] in Hi. apply in_app_or in Hi.
      destruct Hi as [Hi|Hi]; [auto | eapply P; [reflexivity | exact Hi]].
    - intros u' i' X; discriminate. }
  change (w (set_w (add_update u (w s)) (set_out (outq s) true (set_pend None s)))) with (w s1).
  fold s1.
  destruct ((urewind u <=? 0) || (curh s1 <=? urewind u)).
  - apply settle_C. exact C1.
  - split; [|unfold cscan; projs; destruct Hc; subst c; exact I].
    eapply (CSt_disc m0 s1); [| | |exact C1]; [samec | reflexivity | reflexivity].
Qed.

Lemma goto_top_C : forall m0 s, CMid m0 s -> CPost m0 (goto_top s).
Proof.
  intros m0 s [Hr C]. unfold goto_top. destruct (at_end s).
  - split; [|unfold cscan; projs; exact I].
    eapply CSt_frame; [| | |exact C]; [samec | reflexivity | reflexivity].
  - destruct (pend s) as [u|] eqn:Ep; [|apply settle_C; exact C].
    destruct C as (m1 & a & E & T & L). rewrite Hr in L. cbn [mon_recv] in L.
    eapply recv_update_C; eauto.
    + destruct (current s); auto.
    + eapply Lrel_frame; [|exact L]. samec.
Qed.

Lemma after_drain_C : forall m0 s, CMid m0 s -> CPost m0 (after_drain s).
Proof.
  intros m0 s [Hr C]. unfold after_drain.
  destruct (pend s) as [u|] eqn:Ep.
  - destruct C as (m1 & a & E & T & L). rewrite Hr in L. cbn [mon_recv] in L.
    eapply recv_update_C; eauto.
    eapply Lrel_frame; [|exact L]. samec.
  - split; [|unfold cscan; projs; exact I].
    eapply CSt_frame; [| | |exact C]; [samec | reflexivity | reflexivity].
Qed.

(* ------------------------------------------------------ waitForBlocks *)
Lemma enter_wait_C : forall m0 ph s, CSt m0 s -> scanning s = false -> CPost m0 (enter_wait ph s).
Proof.
  intros m0 ph s C Hs. unfold enter_wait. split.
  - eapply CSt_frame; [| | |exact C]; [samec | reflexivity | reflexivity].
  - unfold cscan; projs. destruct (quitf s); auto.
Qed.

(* one pass over the queue: the update at the head moves from the queue side
   to the watch state of the code *)
Lemma Lrel_apply1 : forall s m u r, Lrel s m -> wrest s = u :: r ->
  Lrel (set_wrest r (set_w (add_update u (w s)) s)) m.
Proof.
  intros s m u r [A B B1 B2 B3 C D F G H I P] Hq.
  assert (Hu : In u (wq s)) by (apply B1; rewrite Hq; left; reflexivity).
  split; projs; auto.
  - apply weq_apply. rewrite <- Hq. exact B.
  - intros u' Hu'. apply B1. rewrite Hq. right. exact Hu'.
  - intros u' Hu'. destruct (B2 u' Hu') as [X|X].
    + rewrite Hq in X. destruct X as [<-|X]; [right; apply sub_w_self | left; exact X].
    + right. apply sub_w_add. exact X.
  - apply add_update_closed. exact C.
  - intros i Hi. unfold add_update in Hi. cbn [winputs] in Hi. apply in_app_or in Hi.
    destruct Hi as [Hi|Hi]; [auto | eapply B3; eauto].
Qed.

Lemma apply_q_C : forall m0 ph q s, CSt m0 s -> wrest s = q -> scanning s = false ->
  CPost m0 (apply_q ph q s).
Proof.
  induction q as [|u r IH]; intros s C Hq Hs; cbn [apply_q].
  - apply enter_wait_C; [|projs; exact Hs].
    eapply CSt_frame; [| | |exact C]; [|reflexivity|reflexivity].
    unfold same_c; projs; repeat split; auto.
  - set (s1 := set_wrest r (set_w (add_update u (w s)) s)).
    assert (C1 : CSt m0 s1).
    { destruct C as (m1 & a & E & T & L). exists m1, a. subst s1; projs.
      split; [exact E|]. split; [exact T|]. apply Lrel_apply1; assumption. }
    change (curh s1) with (curh s).
    destruct ((urewind u <=? 0) || (curh s <=? urewind u)).
    + apply IH; [exact C1 | reflexivity | exact Hs].
    + split; [|unfold cscan; projs; exact Hs].
      eapply (CSt_disc m0 s1); [| | |exact C1]; [samec | reflexivity | reflexivity].
Qed.

Lemma recv_wait_C : forall m0 ph u s m1 a,
  recvd s = false -> mon_cbs m0 (outq s) = (m1, a, true) -> mtold m1 <> None ->
  Lrel (set_pend (Some u) s) m1 -> wrest s = [] -> scanning s = false ->
  CPost m0 (recv_wait ph u s).
Proof.
  intros m0 ph u s m1 a Hr E T L Hw Hs. unfold recv_wait.
  apply apply_q_C; [|reflexivity|projs; exact Hs].
  exists m1, a. projs. split; [exact E|]. split; [exact T|].
  pose proof (Lrel_watch _ _ L Hw) as Wq.
  destruct L as [A B B1 B2 B3 C D F G H I P]; projs. unfold mon_recv. rewrite I.
  assert (Hsub : forall u', In u' (wq s) -> sub_w u' (w s)).
  { intros u' Hu'. destruct (B2 u' Hu') as [X|X]; [rewrite Hw in X; destruct X | exact X]. }
  split; cbn [mblocks mwatch mlatch mstartT mpend]; projs; auto.
  - apply weq_recv; assumption.
  - intros u' i Hu' Hi. apply in_app_or in Hu'. destruct Hu' as [Hu'|[<-|[]]].
    + eapply B3; eauto.
    + eapply P; [reflexivity | exact Hi].
  - intros u' i' X; discriminate.
Qed.

Lemma wait_top_C : forall m0 ph s, CMid m0 s -> wrest s = [] -> scanning s = false ->
  CPost m0 (wait_top ph s).
Proof.
  intros m0 ph s [Hr C] Hw Hs. unfold wait_top.
  destruct (pend s) as [u|] eqn:Ep; [|apply enter_wait_C; assumption].
  destruct C as (m1 & a & E & T & L). rewrite Hr in L. cbn [mon_recv] in L.
  eapply recv_wait_C; eauto.
  eapply Lrel_frame; [|exact L]. samec.
Qed.

(* waitForBlocks returns: the queue is dropped - every update on it has been applied *)
Lemma Lrel_dropq : forall s m, Lrel s m -> wrest s = [] -> Lrel (set_wq [] [] s) m.
Proof.
  intros s m [A B B1 B2 B3 C D F G H I P] Hw. split; projs; auto.
  all: try (intros ? []; fail); try (intros ? ? []; fail).
  rewrite Hw in B. exact B.
Qed.

Lemma wait_exit_C : forall m0 ph s, CMid m0 s -> wrest s = [] -> scanning s = false ->
  CPost m0 (wait_exit ph s).
Proof.
  intros m0 ph s [Hr C] Hw Hs. unfold wait_exit.
  assert (C1 : CSt m0 (set_wq [] [] (set_sub None s))).
  { destruct C as (m1 & a & E & T & L). exists m1, a. projs. split; [exact E|]. split; [exact T|].
    apply Lrel_dropq; [|projs; exact Hw]. eapply Lrel_frame; [|exact L]. samec. }
  destruct ph.
  - apply goto_top_C. split; [projs; exact Hr|].
    eapply CSt_frame; [| | |exact C1]; [|reflexivity|reflexivity].
    unfold same_c; projs; repeat split; auto. intros X; congruence.
  - split; [|unfold cscan; projs; exact Hs].
    eapply CSt_frame; [| | |exact C1]; [samec | reflexivity | reflexivity].
Qed.

Lemma fail_other_C : forall m0 s, CMid m0 s -> CPost m0 (fail_other s).
Proof.
  intros m0 s C. unfold fail_other. apply goto_top_C.
  eapply CMid_frame; [| | |exact C]; [samec | reflexivity | reflexivity].
Qed.

Lemma hbc_C : forall m0 h c s, CMid m0 s -> CPost m0 (hbc h c s).
Proof.
  intros m0 h c s C. unfold hbc. destruct (negb (N.eqb (hprev h) (hid (cur s)))).
  - apply fail_other_C; exact C.
  - split; [|unfold cscan; projs; exact I].
    eapply CSt_frame; [| | |exact (proj2 C)]; [samec | reflexivity | reflexivity].
Qed.

Lemma retry_loop_C : forall m0 s, CMid m0 s -> CPost m0 (retry_loop s).
Proof.
  intros m0 s C. unfold retry_loop. destruct (retryq s); [apply goto_top_C | apply hbc_C]; exact C.
Qed.

Lemma success_C : forall m0 c s, CMid m0 s -> CPost m0 (success c s).
Proof.
  intros m0 c s C. destruct c; cbn [success]; [apply goto_top_C; exact C|].
  apply retry_loop_C. eapply CMid_frame; [| | |exact C]; [samec | reflexivity | reflexivity].
Qed.

Lemma retry_later_C : forall m0 h c s, CMid m0 s -> CPost m0 (retry_later h c s).
Proof.
  intros m0 h c s C. destruct c; cbn [retry_later]; apply goto_top_C;
    (eapply CMid_frame; [| | |exact C]; [samec | reflexivity | reflexivity]).
Qed.

(* ------------------------------------------------ skipping a block fetch *)
Lemma CMid_L : forall m0 s, CMid m0 s -> exists m1, Lrel s m1.
Proof. intros m0 s [Hr (m1 & a & E & T & L)]. rewrite Hr in L. eauto. Qed.

Lemma nomatch_C : forall s m b, Lrel s m -> In b (seen s) ->
  fmatch (wlist (w s)) b = false -> extract (w s) (btxs b) = ([], w s).
Proof.
  intros s m b L Hin Hf. apply (nomatch_norelevant scr).
  - apply (c_closed _ _ L).
  - apply (c_wscr _ _ L).
  - intros t Ht. apply (c_bscr _ _ L b t Hin Ht).
  - intros sc Hsc t Ht.
    assert (X : ~ In sc (block_scripts b)).
    { intros X. rewrite (fmatch_complete _ _ _ Hsc X) in Hf. discriminate. }
    split; intros Y; apply X; unfold block_scripts; apply in_flat_map; exists t;
      (split; [exact Ht | apply in_or_app; auto]).
Qed.

Lemma nilwatch_C : forall s m b, Lrel s m -> In b (seen s) ->
  is_nil (wlist (w s)) = true -> extract (w s) (btxs b) = ([], w s).
Proof.
  intros s m b L Hin Hn. apply (nomatch_norelevant scr).
  - apply (c_closed _ _ L).
  - apply (c_wscr _ _ L).
  - intros t Ht. apply (c_bscr _ _ L b t Hin Ht).
  - intros sc Hsc. destruct (wlist (w s)); [destruct Hsc | discriminate].
Qed.

Ltac frameC C :=
  split; [eapply CSt_frame; [| | |exact (proj2 C)]; [samec | reflexivity | reflexivity]
         | unfold cscan; projs; try exact I].

Lemma apply_q_recvd : forall ph q s, recvd (apply_q ph q s) = recvd s.
Proof.
  induction q as [|u r IH]; intros s; cbn [apply_q].
  - unfold enter_wait; projs; reflexivity.
  - destruct (_ || _); [rewrite IH|]; projs; reflexivity.
Qed.

(* --------------------------------------------- the pending call returns *)
Lemma Env_same : forall s s', Env s -> chain s' = chain s -> seen s' = seen s ->
  g_coll (gf s') = g_coll (gf s) -> Env s'.
Proof. intros s s' He E1 E2 E3. eapply Env_env; [exact He | repeat split; auto]. Qed.

Lemma do_call_C : forall r s m0,
  Inv s -> wr_inv s -> CMid m0 s -> cscan s ->
  ~ (pc s = PFilC /\ r = RNotFound) ->
  CPost m0 (do_call r s).
Proof.
  intros r s m0 Iv Hw C Hsc Hnf. unfold wr_inv in Hw.
  pose proof (i_env _ Iv) as He. pose proof (i_pc _ Iv) as Hpc. unfold pc_inv in Hpc.
  destruct (CMid_L _ _ C) as (mL & L).
  pose proof (proj1 C) as Hr.
  unfold do_call. unfold cscan in Hsc.
  destruct (pc s) eqn:Epc.
  - (* PIdle *) split; [exact (proj2 C) | unfold cscan; rewrite Epc; exact I].
  - (* PSelect *) split; [exact (proj2 C) | unfold cscan; rewrite Epc; exact I].
  - (* PBest *) destruct (best s <? curh s + 1); frameC C.
  - (* PHdr *)
    destruct (by_height (curh s + 1) (chain s)) as [h|] eqn:Eh; [|frameC C].
    apply by_height_some in Eh. destruct Eh as [Hin Hhh].
    pose proof (e_chain _ He h Hin) as Kh.
    destruct (negb (N.eqb (hprev h) (hid (cur s)))); [frameC C|].
    destruct (find_block_known s h He Kh) as (b & Hb & Hbh).
    destruct (find_block_some _ _ _ Hb) as [Hbin _].
    destruct (negb (is_nil (wlist (w (scan_latch h (advance h s))))) &&
              scanning (scan_latch h (advance h s))) eqn:Ec.
    + split.
      * eapply CSt_frame; [| | |exact (proj2 C)]; [samec | reflexivity | reflexivity].
        intros ->; reflexivity.
      * unfold cscan; projs. apply andb_prop in Ec. apply Ec.
    + apply goto_top_C.
      eapply (CSt_conn m0 (scan_latch h (advance h s)) _ h _ [] b); projs; try reflexivity; auto.
      * eapply Env_same; [exact He|..]; reflexivity.
      * eapply CSt_frame; [| | |exact (proj2 C)]; [samec | reflexivity | reflexivity].
        intros ->; reflexivity.
      * intros ->. apply orb_true_r.
      * projs. apply andb_false_iff in Ec. destruct Ec as [Ec|Ec].
        -- left. apply negb_false_iff in Ec. eapply nilwatch_C; eauto.
        -- right. auto.
  - (* PBack *)
    destruct (by_id (hprev (cur s)) (chain s)) as [p|]; [|frameC C].
    apply goto_top_C. split; [projs; exact Hr|].
    eapply (CSt_disc m0 s); [| | |exact (proj2 C)]; [samec | reflexivity | reflexivity].
  - (* PSub *)
    destruct (backlog s (curh s)); [|frameC C].
    apply goto_top_C. eapply CMid_frame; [| | |exact C]; [samec | reflexivity | reflexivity].
  - (* PFilC *)
    pose proof (i_cur _ Iv) as Kc.
    destruct r; [| frameC C | exfalso; apply Hnf; auto].
    destruct (find_block (hid (cur s)) (seen s)) as [b|] eqn:Hb; [|frameC C].
    destruct (find_block_some _ _ _ Hb) as [Hbin _].
    destruct (fmatch (wlist (w s)) b) eqn:Ef; [frameC C; exact Hsc|].
    apply goto_top_C.
    eapply (CSt_conn m0 s _ (cur s) _ [] b); projs; try reflexivity; auto.
    + exact (proj2 C).
    + left. eapply nomatch_C; eauto.
  - (* PBlkC *)
    pose proof (i_cur _ Iv) as Kc.
    destruct r; try (frameC C).
    destruct (find_block (hid (cur s)) (seen s)) as [b|] eqn:Hb; [|frameC C].
    destruct (extract (w s) (btxs b)) as [l x] eqn:Ex.
    apply goto_top_C.
    eapply (CSt_conn m0 s _ (cur s) _ l b); projs; try reflexivity; auto.
    exact (proj2 C).
  - (* PFH *)
    destruct Hpc as (K & P & Hp & T).
    destruct (best s <? curh s + 1); [apply fail_other_C; exact C|].
    destruct (find_block_known s h He K) as (b & Hb & Hbh).
    destruct (find_block_some _ _ _ Hb) as [Hbin _].
    destruct (negb (scanning (scan_latch h s)) || is_nil (wlist (w (scan_latch h s)))) eqn:Ec.
    + apply success_C.
      eapply (CSt_conn m0 (scan_latch h s) _ h _ [] b); projs; try reflexivity; auto.
      * eapply Env_same; [exact He|..]; reflexivity.
      * eapply CSt_frame; [| | |exact (proj2 C)]; [samec | reflexivity | reflexivity].
        intros ->; reflexivity.
      * intros ->. apply orb_true_r.
      * projs. apply orb_prop in Ec. destruct Ec as [Ec|Ec].
        -- right. apply negb_true_iff in Ec. auto.
        -- left. eapply nilwatch_C; eauto.
    + split.
      * eapply CSt_frame; [| | |exact (proj2 C)]; [samec | reflexivity | reflexivity].
        intros ->; reflexivity.
      * unfold cscan; projs. apply orb_false_elim in Ec. destruct Ec as [Ec _].
        apply negb_false_iff in Ec. exact Ec.
  - (* PFil *)
    destruct Hpc as (K & P & Hp & T).
    destruct r; try (apply retry_later_C; exact C).
    destruct (find_block (hid h) (seen s)) as [b|] eqn:Hb; [|apply retry_later_C; exact C].
    destruct (find_block_some _ _ _ Hb) as [Hbin _].
    destruct (fmatch (wlist (w s)) b) eqn:Ef; [frameC C; exact Hsc|].
    apply success_C.
    eapply (CSt_conn m0 s _ h _ [] b); projs; try reflexivity; auto.
    + exact (proj2 C).
    + left. eapply nomatch_C; eauto.
  - (* PBlk *)
    destruct Hpc as (K & P & Hp & T).
    destruct r; try (apply fail_other_C; exact C).
    destruct (find_block (hid h) (seen s)) as [b|] eqn:Hb; [|apply fail_other_C; exact C].
    destruct (extract (w s) (btxs b)) as [l x] eqn:Ex.
    apply success_C.
    eapply (CSt_conn m0 s _ h _ l b); projs; try reflexivity; auto.
    exact (proj2 C).
  - (* PRew *)
    destruct (by_id (hprev (cur s)) (chain s)) as [p|]; [|frameC C].
    destruct (target <? hh p).
    + split; [|unfold cscan; projs; destruct c; auto].
      eapply (CSt_disc m0 s); [| | |exact (proj2 C)]; [samec | reflexivity | reflexivity].
    + destruct c.
      * apply goto_top_C. eapply CMid_frame; [| | |exact C]; [samec | reflexivity | reflexivity].
      * apply after_drain_C. eapply CMid_frame; [| | |exact C]; [samec | reflexivity | reflexivity].
      * (* the pass over the queue of waitForBlocks goes on *)
        assert (P1 : CPost m0 (apply_q ph (wrest (set_cur p (hh p) s)) (set_cur p (hh p) s))).
        { apply apply_q_C; [|reflexivity|projs; exact Hsc].
          eapply CSt_frame; [| | |exact (proj2 C)]; [samec | reflexivity | reflexivity]. }
        assert (R1 : recvd (apply_q ph (wrest (set_cur p (hh p) s)) (set_cur p (hh p) s)) = false).
        { rewrite apply_q_recvd. projs. exact Hr. }
        pose proof (apply_q_wr ph (wrest (set_cur p (hh p) s)) (set_cur p (hh p) s)) as W1.
        revert P1 R1 W1. generalize (apply_q ph (wrest (set_cur p (hh p) s)) (set_cur p (hh p) s)).
        intros s2 [C2 S2] R2 W2. unfold wait_settle.
        destruct (pc s2) eqn:E2; try (split; [exact C2 | exact S2]).
        unfold wr_inv in W2. unfold cscan in S2. rewrite E2 in W2, S2.
        apply wait_top_C; [split; assumption | exact W2 | exact S2].
  - (* PDone *) split; [exact (proj2 C) | unfold cscan; rewrite Epc; exact I].
  - (* PDead *) split; [exact (proj2 C) | unfold cscan; rewrite Epc; exact I].
  - (* PExit *) split; [exact (proj2 C) | unfold cscan; rewrite Epc; exact I].
  - (* PWBest *)
    destruct (chain s) as [|t r0]; [frameC C|].
    destruct (wpred ph (hid t) (hh t) s).
    + apply wait_exit_C; assumption.
    + frameC C. exact Hsc.
  - (* PWSub *)
    destruct (backlog s k); [|frameC C].
    apply wait_top_C; [|projs; exact Hw|projs; exact Hsc].
    eapply CMid_frame; [| | |exact C]; [samec | reflexivity | reflexivity].
  - (* PWait *) split; [exact (proj2 C) | unfold cscan; rewrite Epc; exact Hsc].
Qed.

(* ------------------------------------------- a notification is received *)
Lemma do_ntfn_C : forall s m0, wr_inv s -> CMid m0 s -> cscan s -> CPost m0 (do_ntfn s).
Proof.
  intros s m0 Hw C Hsc. unfold do_ntfn.
  destruct (pc s) eqn:Epc; try (split; [exact (proj2 C) | exact Hsc]).
  2:{ (* the select of waitForBlocks *)
    unfold wr_inv in Hw. unfold cscan in Hsc. rewrite Epc in Hw, Hsc.
    destruct (sub s) as [[|n q]|];
      try (split; [exact (proj2 C) | unfold cscan; rewrite Epc; exact Hsc]).
    assert (C1 : CMid m0 (set_sub (Some q) s)).
    { eapply CMid_frame; [| | |exact C]; [samec | reflexivity | reflexivity]. }
    destruct n as [h|h t].
    - destruct (wpred ph (hid h) (hh h) (set_sub (Some q) s)).
      + apply wait_exit_C; [exact C1 | projs; exact Hw | projs; exact Hsc].
      + apply apply_q_C; [|reflexivity|projs; exact Hsc].
        destruct C1 as [R1 (m1 & a & E & T & L)]. exists m1, a. projs.
        split; [exact E|]. split; [exact T|]. projs. rewrite R1 in *. cbn [mon_recv] in *.
        pose proof (Lrel_watch _ _ L Hw) as Wq.
        destruct L as [A B B1 B2 B3 C0 D F G H I P]; projs.
        split; projs; auto.
        * apply weq_restart; [exact Wq|]. intros u' Hu'.
          destruct (B2 u' Hu') as [X|X]; [rewrite Hw in X; destruct X | exact X].
    - split; [exact (proj2 C1) | unfold cscan; projs; rewrite Epc; exact Hsc]. }
  destruct (sub s) as [[|n q]|]; try (split; [exact (proj2 C) | exact Hsc]).
  destruct n as [h|h t]; projs.
  - destruct (negb (is_nil (retryq s))).
    + apply goto_top_C. eapply CMid_frame; [| | |exact C]; [samec | reflexivity | reflexivity].
    + apply hbc_C. eapply CMid_frame; [| | |exact C]; [samec | reflexivity | reflexivity].
  - destruct (N.eqb (hid h) (hid (cur s))).
    + apply goto_top_C. split; [projs; exact (proj1 C)|].
      eapply (CSt_disc m0 s); [| | |exact (proj2 C)]; [samec | reflexivity | reflexivity].
    + apply goto_top_C. eapply CMid_frame; [| | |exact C]; [samec | reflexivity | reflexivity].
Qed.

(* ------------------------------------------------------------ one step *)
Definition dead (s : state) : Prop := pc s = PDone \/ pc s = PDead \/ pc s = PExit.
Definition CB (s : state) (m : mon) : Prop := dead s \/ (Lrel s m /\ cscan s).

(* what the end of a step must provide *)
Definition CFin (m0 : mon) (s : state) : Prop :=
  exists m1 a, mon_cbs m0 (outq s) = (m1, a, true) /\
               Lrel s (mon_recv m1 (recvd s)) /\ cscan s.

Lemma CPost_fin : forall m0 s, CPost m0 s -> CFin m0 s.
Proof. intros m0 s [(m1 & a & E & T & L) Hc]. exists m1, a. auto. Qed.

Lemma quiet_fin : forall m0 s, outq s = [] -> recvd s = false -> Lrel s m0 -> cscan s -> CFin m0 s.
Proof.
  intros m0 s Ho Hr L Hc. exists m0, true. rewrite Ho, Hr. cbn. auto.
Qed.

Lemma CMid_begin : forall m0 s s', Lrel s m0 -> mtold m0 <> None ->
  same_c s s' -> outq s' = [] -> recvd s' = false -> CMid m0 s'.
Proof.
  intros m0 s s' L T Hs Ho Hr. split; [exact Hr|]. exists m0, true. rewrite Ho, Hr. cbn.
  split; [reflexivity|]. split; [exact T|]. eapply Lrel_frame; eauto.
Qed.

Lemma dead_stays : forall e s, dead s -> dead (do_ev e s) /\ outq (do_ev e s) = outq s.
Proof.
  intros e s D. unfold dead in *.
  destruct e; cbn [do_ev]; unfold push_ntfn, do_call, do_ntfn.
  - blast; auto.
  - blast; auto.
  - destruct D as [D|[D|D]]; rewrite D; auto.
  - destruct (pend s); [auto|]. destruct D as [D|[D|D]]; rewrite D; auto.
  - destruct D as [D|[D|D]]; rewrite D; auto.
  - destruct D as [D|[D|D]]; rewrite D; auto.
  - destruct D as [D|[D|D]]; rewrite D; auto.
  - auto.
  - destruct D as [D|[D|D]]; rewrite D; auto.
Qed.

Lemma start_at_C : forall c h k s m m0,
  Lrel s m -> mtold m0 <> None -> mblocks m0 = mblocks m -> mpend m0 = None ->
  outq s = [] -> recvd s = false -> pend s = None ->
  mwatch m0 = (caddrs c, map fst (cinputs c)) -> mlatch m0 = false -> mstartT m0 = cstartT c ->
  (forall i, In i (cinputs c) -> snd i = scr (fst i)) ->
  CPost m0 (start_at c h k s).
Proof.
  intros c h k s m m0 L T Hb Hq Ho Hr Hp Hw Hl Ht Hs. unfold start_at.
  split; [|unfold cscan; projs; reflexivity].
  exists m0, true. projs. rewrite Ho, Hr. cbn [mon_cbs mon_recv].
  split; [reflexivity|]. split; [exact T|].
  destruct L as [A B B1 B2 B3 C D F G H I P].
  split; projs; auto; try congruence.
  all: try (intros ? []; fail); try (intros ? ? []; fail).
  all: try (intros X; rewrite Hl in X; discriminate).
  - rewrite Hw. unfold proj_watch. cbn [waddrs winputs]. rewrite wapp_nil. apply weq_refl.
  - unfold watch_closed; cbn [waddrs winputs wlist]. split.
    + intros a Ha. apply in_or_app; left; exact Ha.
    + intros i Hi. apply in_or_app; right. apply in_map; exact Hi.
Qed.

Lemma g_nf_notfound : forall s, pc s = PFilC -> g_nf (gf (do_call RNotFound s)) = true.
Proof.
  intros s H. unfold do_call. rewrite H. rewrite goto_top_gf. reflexivity.
Qed.

Lemma cscan_same : forall s s', pc s' = pc s -> scanning s' = scanning s -> cscan s -> cscan s'.
Proof. intros s s' E1 E2. unfold cscan. rewrite E1, E2. auto. Qed.

Lemma step_C : forall s m e,
  Inv s -> wr_inv s -> chain_rel s m -> told_rel s m -> CB s m ->
  ev_scripts_ok scr e ->
  g_nf (gf (fst (step s e))) = false ->
  CB (fst (step s e)) (fst (fst (mon_step m (e, snd (step s e))))) /\
  snd (mon_step m (e, snd (step s e))) = true.
Proof.
  intros s m e Iv Hw Rc Rt B Hev Hnf. unfold step in *. cbn [fst snd] in *.
  set (s0 := set_out [] false s) in *.
  pose proof (Inv_out s Iv) as I0. fold s0 in I0.
  assert (Hw0 : wr_inv s0) by exact Hw.
  unfold mon_step. cbn [fst snd ocbs orecv].
  assert (Fin : forall s', CFin (mon_env m e) s' ->
    CB s' (fst (fst (let '(m1, a, b) := mon_cbs (mon_env m e) (outq s') in
                     (mon_recv m1 (recvd s'), a, b)))) /\
    snd (let '(m1, a, b) := mon_cbs (mon_env m e) (outq s') in
         (mon_recv m1 (recvd s'), a, b)) = true).
  { intros s' (m1 & a & E & L & Hc). rewrite E. cbn [fst snd]. split; [right; auto | reflexivity]. }
  assert (DD : dead s \/ ~ dead s).
  { unfold dead. destruct (pc s); auto; right; intros [X|[X|X]]; discriminate. }
  destruct DD as [D|ND].
  { (* the rescan has ended *)
    assert (D0 : dead s0) by exact D.
    destruct (dead_stays e s0 D0) as [D' Ho]. change (outq s0) with (@nil cb) in Ho.
    rewrite Ho. cbn [mon_cbs fst snd]. split; [left; exact D' | reflexivity]. }
  destruct B as [D|[L Hsc]]; [contradiction|].
  assert (L0 : Lrel s0 m) by (eapply Lrel_frame; [|exact L]; samec).
  assert (Hsc0 : cscan s0) by exact Hsc.
  pose proof (i_env _ Iv) as He.
  apply Fin.
  destruct e; cbn [do_ev mon_env].
  - (* extend *)
    destruct (chain s0) as [|t r] eqn:Ech; [exfalso; apply (e_ne _ He); exact Ech|].
    apply quiet_fin.
    + unfold push_ntfn. blast; reflexivity.
    + unfold push_ntfn. blast; reflexivity.
    + destruct L0 as [A B B1 B2 B3 C D F G H J P].
      assert (X : forall s', seen s' = seen s0 ++ [{| bh := {| hid := id; hprev := hid t; htime := time; hh := hh t + 1 |}; btxs := txs |}] ->
                w s' = w s0 -> scanning s' = scanning s0 -> cfg s' = cfg s0 -> pend s' = pend s0 ->
                wq s' = wq s0 -> wrest s' = wrest s0 ->
                Lrel s' {| mchain := match mchain m with (_, k) :: _ => (id, k + 1) :: mchain m | [] => [] end;
                           mblocks := mblocks m ++ [(id, (time, txs))]; mtold := mtold m; mwatch := mwatch m;
                           mlatch := mlatch m; mpend := mpend m; mstartT := mstartT m |}).
      { intros s' E1 E2 E3 E4 E5 E6 E7. split; cbn [mblocks mwatch mlatch mstartT mpend]; rewrite ?E1, ?E2, ?E3, ?E4, ?E5, ?E6, ?E7; auto.
        - rewrite map_app, A. reflexivity.
        - intros b t' Hb Ht. apply in_app_or in Hb. destruct Hb as [Hb|[<-|[]]]; [eapply F; eauto|].
          cbn in Ht. apply Hev. exact Ht. }
      unfold push_ntfn. blast; apply X; reflexivity.
    + eapply cscan_same; [| |exact Hsc0]; unfold push_ntfn; blast; reflexivity.
  - (* rollback *)
    apply quiet_fin.
    + unfold push_ntfn. blast; reflexivity.
    + unfold push_ntfn. blast; reflexivity.
    + eapply Lrel_mon_eq with (m := m); try reflexivity.
      eapply Lrel_frame; [|exact L0]. unfold push_ntfn. blast; samec.
    + eapply cscan_same; [| |exact Hsc0]; unfold push_ntfn; blast; reflexivity.
  - (* start *)
    unfold told_rel in Rt. destruct (mtold m) as [t|] eqn:Em.
    + destruct Rt as [Hn _]. change (pc s0) with (pc s).
      destruct (pc s) eqn:Epc; try congruence; apply quiet_fin; auto.
    + change (pc s0) with (pc s). rewrite Rt. unfold start.
      unfold chain_rel in Rc. rewrite Rc, !find_height_map. change (chain s0) with (chain s).
      pose proof (i_idle _ I0 Rt) as Hpend.
      destruct (by_height (cstart c) (chain s)) as [h|]; cbn [option_map].
      * apply CPost_fin.
        eapply (start_at_C c h _ s0 m); cbn [mtold mwatch mlatch mstartT mblocks mpend]; auto; discriminate.
      * destruct (by_height 0 (chain s)) as [g|]; cbn [option_map].
        -- apply CPost_fin.
           eapply (start_at_C c g _ s0 m); cbn [mtold mwatch mlatch mstartT mblocks mpend]; auto; discriminate.
        -- apply quiet_fin; auto.
  - (* update *)
    change (pend s0) with (pend s). change (pc s0) with (pc s).
    pose proof (c_pend _ _ L) as Hp.
    destruct (pend s) as [u0|] eqn:Ep.
    + rewrite Hp. destruct (mtold m); apply quiet_fin; auto.
    + rewrite Hp. unfold told_rel in Rt. destruct (mtold m) as [t|] eqn:Em.
      * destruct Rt as [Hn _].
        set (m0 := {| mchain := mchain m; mblocks := mblocks m; mtold := Some t; mwatch := mwatch m;
                      mlatch := mlatch m; mpend := Some u; mstartT := mstartT m |}).
        assert (Lu : Lrel (set_pend (Some u) s0) m0).
        { destruct L0 as [A B B1 B2 B3 C D F G H J P]. split; subst m0; projs; auto.
          intros u' i X Hi. inversion X; subst u'. apply Hev. exact Hi. }
        assert (G : CFin m0 (set_pend (Some u) s0)).
        { apply quiet_fin; auto. }
        destruct (pc s) eqn:Epc; try exact G; try congruence.
        -- (* select: received at once *)
           apply CPost_fin. eapply (recv_update_C m0 u USelect s0 m0 true); auto.
           subst m0; cbn; discriminate.
        -- exfalso; apply ND; left; exact Epc.
        -- exfalso; apply ND; right; left; exact Epc.
        -- exfalso; apply ND; right; right; exact Epc.
        -- (* the select of waitForBlocks: received at once *)
           unfold wr_inv in Hw. unfold cscan in Hsc. rewrite Epc in Hw, Hsc.
           apply CPost_fin. eapply (recv_wait_C m0 ph u s0 m0 true); auto.
           subst m0; cbn; discriminate.
      * rewrite Rt. apply quiet_fin; auto.
  - (* call returns *)
    unfold told_rel in Rt. destruct (mtold m) as [t|] eqn:Em.
    + apply CPost_fin. apply do_call_C; auto.
      * eapply CMid_begin; [exact L0 | rewrite Em; discriminate | samec | reflexivity | reflexivity].
      * intros [X1 X2]. subst r. cbn [Model.do_ev] in Hnf. rewrite (g_nf_notfound s0 X1) in Hnf. discriminate.
    + unfold Model.do_call. change (pc s0) with (pc s). rewrite Rt. apply quiet_fin; auto.
  - (* notification *)
    unfold told_rel in Rt. destruct (mtold m) as [t|] eqn:Em.
    + apply CPost_fin. apply do_ntfn_C; auto.
      eapply CMid_begin; [exact L0 | rewrite Em; discriminate | samec | reflexivity | reflexivity].
    + unfold do_ntfn. change (pc s0) with (pc s). rewrite Rt. apply quiet_fin; auto.
  - (* retry timer *)
    change (pc s0) with (pc s).
    destruct (pc s) eqn:Epc; try (apply quiet_fin; auto; fail).
    destruct (armed s0); [|apply quiet_fin; auto].
    unfold told_rel in Rt. destruct (mtold m) as [t|] eqn:Em; [|congruence].
    apply CPost_fin. apply retry_loop_C.
    eapply CMid_begin; [exact L0 | rewrite Em; discriminate | samec | reflexivity | reflexivity].
  - (* IsCurrent changes *)
    apply quiet_fin; auto. eapply Lrel_frame; [|exact L0]. samec.
  - (* quit *)
    change (pc s0) with (pc s).
    assert (G : forall s', outq s' = [] -> recvd s' = false -> same_c s0 s' ->
                (pc s' = pc s \/ pc s' = PExit) -> scanning s' = scanning s -> CFin m s').
    { intros s' Ho Hr Hsame Hpc' Hsc'. apply quiet_fin; auto.
      - eapply Lrel_frame; [exact Hsame | exact L0].
      - destruct Hpc' as [X|X]; [eapply cscan_same; eauto | unfold cscan; rewrite X; exact I]. }
    destruct (pc s) eqn:Epc; apply G; projs; auto; samec.
Qed.

(* ------------------------------------------------------ whole histories *)
(* the model state and the monitor state after a trace *)
Definition mon_final (m : mon) (tr : list (ev * obs)) : mon := fst (fst (mon_run m tr)).

Lemma run_complete : forall evs s m,
  Inv s -> wr_inv s -> chain_rel s m -> told_rel s m -> CB s m ->
  (forall e, In e evs -> ev_scripts_ok scr e) ->
  g_coll (gf (fst (run s evs))) = false -> g_nf (gf (fst (run s evs))) = false ->
  snd (mon_run m (combine evs (snd (run s evs)))) = true /\
  CB (fst (run s evs)) (mon_final m (combine evs (snd (run s evs)))) /\
  wr_inv (fst (run s evs)).
Proof.
  unfold mon_final.
  induction evs as [|e r IH]; intros s m Iv Hw Rc Rt B Hs Hc Hn;
    cbn [Model.run fst snd combine mon_run] in *; [auto|].
  destruct (step s e) as [s1 o] eqn:Es. destruct (run s1 r) as [s2 os] eqn:Er.
  cbn [fst snd combine mon_run] in *.
  pose proof (run_flags fmatch r s1) as Fl. rewrite Er in Fl. cbn [fst] in Fl.
  pose proof (proj1 Fl Hn) as N1. pose proof (proj2 Fl Hc) as C1.
  pose proof (step_rel fmatch s m e Iv Rc Rt) as SR. rewrite Es in SR. cbn [fst snd] in SR.
  destruct (SR C1) as (I1 & Rc1 & Rt1 & _).
  pose proof (step_C s m e Iv Hw Rc Rt B (Hs e (or_introl eq_refl))) as SC.
  rewrite Es in SC. cbn [fst snd] in SC. destruct (SC N1) as [B1 Hb].
  assert (Hw1 : wr_inv s1).
  { assert (X : s1 = Model.do_ev fmatch e (set_out [] false s)) by (unfold Model.step in Es; inversion Es; reflexivity).
    rewrite X. apply do_ev_wr. exact Hw. }
  destruct (mon_step m (e, o)) as [[m1 a] b]. cbn [fst snd] in *.
  specialize (IH s1 m1 I1 Hw1 Rc1 Rt1 B1 (fun e' H => Hs e' (or_intror H))).
  rewrite Er in IH. cbn [fst snd] in IH. specialize (IH Hc Hn).
  destruct (mon_run m1 (combine r os)) as [[m2 a'] b']. cbn [fst snd] in *.
  destruct IH as (X1 & X2 & X3). subst. auto.
Qed.

Lemma CB_init : forall gid gtime, CB (init gid gtime) (mon0 gid gtime).
Proof.
  intros gid gtime. right. split; [|exact I].
  unfold init, mon0. split; cbn; auto; try (intros; discriminate).
  all: try (intros ? []; fail); try (intros ? ? []; fail).
  - apply weq_refl.
  - split; intros x [].
  - intros b t [<-|[]] [].
Qed.

Lemma wr_init : forall gid gtime, wr_inv (init gid gtime).
Proof. intros. reflexivity. Qed.

Theorem complete_unless : forall gid gtime evs,
  let r := run (init gid gtime) evs in
  g_coll (gf (fst r)) = false -> g_nf (gf (fst r)) = false ->
  (forall e, In e evs -> ev_scripts_ok scr e) ->
  complete_ok gid gtime (combine evs (snd r)) = true.
Proof.
  intros gid gtime evs r Hc Hn Hs. unfold complete_ok. subst r.
  apply run_complete; auto.
  - apply Inv_init.
  - apply wr_init.
  - reflexivity.
  - reflexivity.
  - apply CB_init.
Qed.

(* what the code watches is what the specification says is watched, at every
   moment at which the rescan is alive and not in the middle of a pass over
   the queue of waitForBlocks *)
Theorem watch_is_spec : forall gid gtime evs,
  let r := run (init gid gtime) evs in
  let s := fst r in
  let m := mon_final (mon0 gid gtime) (combine evs (snd r)) in
  g_coll (gf s) = false -> g_nf (gf s) = false ->
  (forall e, In e evs -> ev_scripts_ok scr e) ->
  pc s <> PDone -> pc s <> PDead -> pc s <> PExit ->
  (forall t ph, pc s <> PRew t (UWait ph)) ->
  weq (mwatch m) (proj_watch (w s)) /\ mpend m = pend s.
Proof.
  intros gid gtime evs r s m Hc Hn Hs N1 N2 N3 N4. subst r s m.
  destruct (run_complete evs (init gid gtime) (mon0 gid gtime)) as (_ & B & W); auto.
  - apply Inv_init.
  - apply wr_init.
  - reflexivity.
  - reflexivity.
  - apply CB_init.
  - destruct B as [[D|[D|D]]|[L _]]; try contradiction.
    split; [|apply (c_pend _ _ L)]. apply (Lrel_watch _ _ L).
    unfold wr_inv in W. destruct (pc (fst (run (init gid gtime) evs))) eqn:E; auto; try congruence.
    destruct c; auto. exfalso. eapply N4. reflexivity.
Qed.

End Complete.

(* the honest filter has no false negatives *)
Lemma matches_complete : forall wl b sc,
  In sc wl -> In sc (block_scripts b) -> matches wl b = true.
Proof.
  intros wl b sc H1 H2. unfold matches. apply existsb_exists. exists sc.
  split; [exact H1 | apply memN_In; exact H2].
Qed.

Theorem complete_unless_scripts : forall fmatch,
  (forall wl b sc, In sc wl -> In sc (block_scripts b) -> fmatch wl b = true) ->
  forall gid gtime evs,
  let r := Model.run fmatch (init gid gtime) evs in
  g_coll (gf (fst r)) = false -> g_nf (gf (fst r)) = false ->
  scripts_ok evs ->
  complete_ok gid gtime (combine evs (snd r)) = true.
Proof.
  intros fmatch Hf gid gtime evs r Hc Hn (scr & Hs).
  apply (complete_unless fmatch Hf scr); auto.
Qed.

Theorem watch_is_spec_scripts : forall fmatch,
  (forall wl b sc, In sc wl -> In sc (block_scripts b) -> fmatch wl b = true) ->
  forall gid gtime evs,
  let r := Model.run fmatch (init gid gtime) evs in
  let s := fst r in
  let m := mon_final (mon0 gid gtime) (combine evs (snd r)) in
  g_coll (gf s) = false -> g_nf (gf s) = false ->
  scripts_ok evs ->
  pc s <> PDone -> pc s <> PDead -> pc s <> PExit ->
  (forall t ph, pc s <> PRew t (UWait ph)) ->
  weq (mwatch m) (proj_watch (w s)) /\ mpend m = pend s.
Proof.
  intros fmatch Hf gid gtime evs r s m Hc Hn (scr & Hs).
  apply (watch_is_spec fmatch Hf scr); auto.
Qed.

Theorem holds_unless : forall fmatch,
  (forall wl b sc, In sc wl -> In sc (block_scripts b) -> fmatch wl b = true) ->
  forall gid gtime evs,
  let r := Model.run fmatch (init gid gtime) evs in
  g_coll (gf (fst r)) = false -> g_nf (gf (fst r)) = false ->
  scripts_ok evs ->
  holds gid gtime (combine evs (snd r)) = true.
Proof.
  intros fmatch Hf gid gtime evs r Hc Hn Hs. unfold holds. apply andb_true_intro. split.
  - exact (walk_all fmatch gid gtime evs Hc).
  - exact (complete_unless_scripts fmatch Hf gid gtime evs Hc Hn Hs).
Qed.
