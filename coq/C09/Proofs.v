(* C09 — lemmas. *)
From Coq Require Import ZArith NArith List Bool Lia ZifyBool.
From Verif Require Import C09.Model C09.Spec.
Import ListNotations.
Open Scope Z_scope.

(* ------------------------------------------------------------ tactics *)
Ltac projs :=
  cbn [chain seen pend sub iscur quitf pc cur curh current scanning retryq armed w wq wrest cfg
       outq recvd told gf
       set_chain set_seen set_pend set_sub set_iscur set_quitf set_pc set_cur set_current set_scanning
       set_retryq set_armed set_w set_wq set_wrest set_cfg set_out set_told set_gf
       flag_nf flag_coll g_nf g_coll emit_conn emit_disc advance scan_latch
       fst snd] in *.

Ltac split_match :=
  match goal with
  | |- context [match ?x with _ => _ end] => destruct x eqn:?
  end.

Ltac blast := repeat (projs; try split_match); projs.

(* ------------------------------------------------- frames of the helpers *)
(* the part of the state the environment owns and the helper functions of
   the goroutine never touch *)
Definition env_eq (s s' : state) : Prop :=
  chain s' = chain s /\ seen s' = seen s /\ g_coll (gf s') = g_coll (gf s).

Lemma env_eq_refl : forall s, env_eq s s.
Proof. intros; repeat split. Qed.

Lemma settle_env : forall s, env_eq s (settle s).
Proof. intros; unfold settle, env_eq; blast; auto. Qed.
Lemma recv_update_env : forall u c s, env_eq s (recv_update u c s).
Proof. intros; unfold recv_update, settle, env_eq; blast; auto. Qed.
Lemma after_drain_env : forall s, env_eq s (after_drain s).
Proof. intros; unfold after_drain, recv_update, settle, env_eq; blast; auto. Qed.
Lemma recv_update_sub : forall u c s, sub (recv_update u c s) = sub s.
Proof. intros; unfold recv_update, settle; blast; auto. Qed.
Lemma recv_update_ni : forall u c s, pc (recv_update u c s) <> PIdle.
Proof. intros; unfold recv_update, settle; blast; discriminate. Qed.
Lemma goto_top_env : forall s, env_eq s (goto_top s).
Proof. intros; unfold goto_top, recv_update, settle, env_eq; blast; auto. Qed.
Lemma fail_other_env : forall s, env_eq s (fail_other s).
Proof. intros; unfold fail_other, goto_top, recv_update, settle, env_eq; blast; auto. Qed.
Lemma hbc_env : forall h c s, env_eq s (hbc h c s).
Proof. intros; unfold hbc, fail_other, goto_top, recv_update, settle, env_eq; blast; auto. Qed.
Lemma retry_loop_env : forall s, env_eq s (retry_loop s).
Proof. intros; unfold retry_loop, hbc, fail_other, goto_top, recv_update, settle, env_eq; blast; auto. Qed.
Lemma success_env : forall c s, env_eq s (success c s).
Proof. intros; unfold success, retry_loop, hbc, fail_other, goto_top, recv_update, settle, env_eq; blast; auto. Qed.
Lemma retry_later_env : forall h c s, env_eq s (retry_later h c s).
Proof. intros; unfold retry_later, goto_top, recv_update, settle, env_eq; blast; auto. Qed.

Lemma enter_wait_env : forall ph s, env_eq s (enter_wait ph s).
Proof. intros; unfold enter_wait, env_eq; blast; auto. Qed.
Lemma apply_q_env : forall ph q s, env_eq s (apply_q ph q s).
Proof.
  induction q as [|u r IH]; intros s; cbn [apply_q].
  - unfold enter_wait, env_eq; blast; auto.
  - destruct (_ || _).
    + destruct (IH (set_wrest r (set_w (add_update u (w s)) s))) as (A & B & C).
      unfold env_eq. rewrite A, B, C. projs. auto.
    + unfold env_eq; projs; auto.
Qed.
Lemma recv_wait_env : forall ph u s, env_eq s (recv_wait ph u s).
Proof.
  intros. unfold recv_wait.
  destruct (apply_q_env ph (wq s ++ [u]) (set_wq (wq s ++ [u]) (wq s ++ [u]) (set_out (outq s) true (set_pend None s)))) as (A & B & C).
  unfold env_eq. rewrite A, B, C. projs. auto.
Qed.
Lemma wait_top_env : forall ph s, env_eq s (wait_top ph s).
Proof. intros. unfold wait_top. destruct (pend s); [apply recv_wait_env | apply enter_wait_env]. Qed.
Lemma wait_settle_env : forall s, env_eq s (wait_settle s).
Proof. intros. unfold wait_settle. destruct (pc s); try apply env_eq_refl. apply wait_top_env. Qed.
Lemma wait_exit_env : forall ph s, env_eq s (wait_exit ph s).
Proof.
  intros. unfold wait_exit. destruct ph.
  - match goal with |- env_eq _ (goto_top ?x) => destruct (goto_top_env x) as (A & B & C) end.
    unfold env_eq. rewrite A, B, C. projs. auto.
  - unfold env_eq; projs; auto.
Qed.

(* the subscription queue is left alone by the helpers *)
Lemma goto_top_sub : forall s, sub (goto_top s) = sub s.
Proof. intros; unfold goto_top, recv_update, settle; blast; auto. Qed.
Lemma after_drain_sub : forall s, sub (after_drain s) = sub s.
Proof. intros; unfold after_drain, recv_update, settle; blast; auto. Qed.
Lemma hbc_sub : forall h c s, sub (hbc h c s) = sub s.
Proof. intros; unfold hbc, fail_other, goto_top, recv_update, settle; blast; auto. Qed.
Lemma retry_loop_sub : forall s, sub (retry_loop s) = sub s.
Proof. intros; unfold retry_loop, hbc, fail_other, goto_top, recv_update, settle; blast; auto. Qed.
Lemma success_sub : forall c s, sub (success c s) = sub s.
Proof. intros; unfold success, retry_loop, hbc, fail_other, goto_top, recv_update, settle; blast; auto. Qed.
Lemma retry_later_sub : forall h c s, sub (retry_later h c s) = sub s.
Proof. intros; unfold retry_later, goto_top, recv_update, settle; blast; auto. Qed.
Lemma fail_other_sub : forall s, sub (fail_other s) = sub s.
Proof. intros; unfold fail_other, goto_top, recv_update, settle; blast; auto. Qed.

Lemma apply_q_sub : forall ph q s, sub (apply_q ph q s) = sub s.
Proof.
  induction q as [|u r IH]; intros s; cbn [apply_q].
  - unfold enter_wait; blast; auto.
  - destruct (_ || _); [rewrite IH|]; projs; auto.
Qed.
Lemma recv_wait_sub : forall ph u s, sub (recv_wait ph u s) = sub s.
Proof. intros. unfold recv_wait. rewrite apply_q_sub. projs. reflexivity. Qed.
Lemma wait_top_sub : forall ph s, sub (wait_top ph s) = sub s.
Proof. intros. unfold wait_top. destruct (pend s); [apply recv_wait_sub | unfold enter_wait; projs; reflexivity]. Qed.
Lemma wait_settle_sub : forall s, sub (wait_settle s) = sub s.
Proof. intros. unfold wait_settle. destruct (pc s); try reflexivity. apply wait_top_sub. Qed.
Lemma wait_exit_sub : forall ph s, sub (wait_exit ph s) = None.
Proof. intros. unfold wait_exit. destruct ph; [rewrite goto_top_sub|]; projs; reflexivity. Qed.

(* the ghost flags are left alone by the helpers *)
Lemma goto_top_gf : forall s, gf (goto_top s) = gf s.
Proof. intros; unfold goto_top, recv_update, settle; blast; auto. Qed.
Lemma after_drain_gf : forall s, gf (after_drain s) = gf s.
Proof. intros; unfold after_drain, recv_update, settle; blast; auto. Qed.
Lemma hbc_gf : forall h c s, gf (hbc h c s) = gf s.
Proof. intros; unfold hbc, fail_other, goto_top, recv_update, settle; blast; auto. Qed.
Lemma retry_loop_gf : forall s, gf (retry_loop s) = gf s.
Proof. intros; unfold retry_loop, hbc, fail_other, goto_top, recv_update, settle; blast; auto. Qed.
Lemma success_gf : forall c s, gf (success c s) = gf s.
Proof. intros; unfold success, retry_loop, hbc, fail_other, goto_top, recv_update, settle; blast; auto. Qed.
Lemma retry_later_gf : forall h c s, gf (retry_later h c s) = gf s.
Proof. intros; unfold retry_later, goto_top, recv_update, settle; blast; auto. Qed.
Lemma fail_other_gf : forall s, gf (fail_other s) = gf s.
Proof. intros; unfold fail_other, goto_top, recv_update, settle; blast; auto. Qed.

Lemma apply_q_gf : forall ph q s, gf (apply_q ph q s) = gf s.
Proof.
  induction q as [|u r IH]; intros s; cbn [apply_q].
  - unfold enter_wait; blast; auto.
  - destruct (_ || _); [rewrite IH|]; projs; auto.
Qed.
Lemma recv_wait_gf : forall ph u s, gf (recv_wait ph u s) = gf s.
Proof. intros. unfold recv_wait. rewrite apply_q_gf. projs. reflexivity. Qed.
Lemma wait_top_gf : forall ph s, gf (wait_top ph s) = gf s.
Proof. intros. unfold wait_top. destruct (pend s); [apply recv_wait_gf | unfold enter_wait; projs; reflexivity]. Qed.
Lemma wait_settle_gf : forall s, gf (wait_settle s) = gf s.
Proof. intros. unfold wait_settle. destruct (pc s); try reflexivity. apply wait_top_gf. Qed.
Lemma wait_exit_gf : forall ph s, gf (wait_exit ph s) = gf s.
Proof. intros. unfold wait_exit. destruct ph; [rewrite goto_top_gf|]; projs; reflexivity. Qed.

(* the loop cursor of waitForBlocks is left alone by the helpers of the main loop *)
Lemma goto_top_wrest : forall s, wrest (goto_top s) = wrest s.
Proof. intros; unfold goto_top, recv_update, settle; blast; auto. Qed.
Lemma after_drain_wrest : forall s, wrest (after_drain s) = wrest s.
Proof. intros; unfold after_drain, recv_update, settle; blast; auto. Qed.
Lemma hbc_wrest : forall h c s, wrest (hbc h c s) = wrest s.
Proof. intros; unfold hbc, fail_other, goto_top, recv_update, settle; blast; auto. Qed.
Lemma retry_loop_wrest : forall s, wrest (retry_loop s) = wrest s.
Proof. intros; unfold retry_loop, hbc, fail_other, goto_top, recv_update, settle; blast; auto. Qed.
Lemma success_wrest : forall c s, wrest (success c s) = wrest s.
Proof. intros; unfold success, retry_loop, hbc, fail_other, goto_top, recv_update, settle; blast; auto. Qed.
Lemma retry_later_wrest : forall h c s, wrest (retry_later h c s) = wrest s.
Proof. intros; unfold retry_later, goto_top, recv_update, settle; blast; auto. Qed.
Lemma fail_other_wrest : forall s, wrest (fail_other s) = wrest s.
Proof. intros; unfold fail_other, goto_top, recv_update, settle; blast; auto. Qed.
Lemma recv_update_wrest : forall u c s, wrest (recv_update u c s) = wrest s.
Proof. intros; unfold recv_update, settle; blast; auto. Qed.

Lemma goto_top_chain : forall s, chain (goto_top s) = chain s.
Proof. intros; apply goto_top_env. Qed.
Lemma goto_top_seen : forall s, seen (goto_top s) = seen s.
Proof. intros; apply goto_top_env. Qed.
#[export] Hint Rewrite goto_top_chain goto_top_seen goto_top_sub goto_top_gf goto_top_wrest : frame.
Lemma after_drain_chain : forall s, chain (after_drain s) = chain s.
Proof. intros; apply after_drain_env. Qed.
Lemma after_drain_seen : forall s, seen (after_drain s) = seen s.
Proof. intros; apply after_drain_env. Qed.
#[export] Hint Rewrite after_drain_chain after_drain_seen after_drain_sub after_drain_gf after_drain_wrest : frame.
Lemma fail_other_chain : forall s, chain (fail_other s) = chain s.
Proof. intros; apply fail_other_env. Qed.
Lemma fail_other_seen : forall s, seen (fail_other s) = seen s.
Proof. intros; apply fail_other_env. Qed.
#[export] Hint Rewrite fail_other_chain fail_other_seen fail_other_sub fail_other_gf fail_other_wrest : frame.
Lemma hbc_chain : forall h c s, chain (hbc h c s) = chain s.
Proof. intros; apply hbc_env. Qed.
Lemma hbc_seen : forall h c s, seen (hbc h c s) = seen s.
Proof. intros; apply hbc_env. Qed.
#[export] Hint Rewrite hbc_chain hbc_seen hbc_sub hbc_gf hbc_wrest : frame.
Lemma retry_loop_chain : forall s, chain (retry_loop s) = chain s.
Proof. intros; apply retry_loop_env. Qed.
Lemma retry_loop_seen : forall s, seen (retry_loop s) = seen s.
Proof. intros; apply retry_loop_env. Qed.
#[export] Hint Rewrite retry_loop_chain retry_loop_seen retry_loop_sub retry_loop_gf retry_loop_wrest : frame.
Lemma success_chain : forall c s, chain (success c s) = chain s.
Proof. intros; apply success_env. Qed.
Lemma success_seen : forall c s, seen (success c s) = seen s.
Proof. intros; apply success_env. Qed.
#[export] Hint Rewrite success_chain success_seen success_sub success_gf success_wrest : frame.
Lemma retry_later_chain : forall h c s, chain (retry_later h c s) = chain s.
Proof. intros; apply retry_later_env. Qed.
Lemma retry_later_seen : forall h c s, seen (retry_later h c s) = seen s.
Proof. intros; apply retry_later_env. Qed.
#[export] Hint Rewrite retry_later_chain retry_later_seen retry_later_sub retry_later_gf retry_later_wrest : frame.
Lemma wait_settle_chain : forall s, chain (wait_settle s) = chain s.
Proof. intros; apply wait_settle_env. Qed.
Lemma wait_settle_seen : forall s, seen (wait_settle s) = seen s.
Proof. intros; apply wait_settle_env. Qed.
Lemma apply_q_chain : forall ph q s, chain (apply_q ph q s) = chain s.
Proof. intros; apply apply_q_env. Qed.
Lemma apply_q_seen : forall ph q s, seen (apply_q ph q s) = seen s.
Proof. intros; apply apply_q_env. Qed.
Lemma wait_top_chain : forall ph s, chain (wait_top ph s) = chain s.
Proof. intros; apply wait_top_env. Qed.
Lemma wait_top_seen : forall ph s, seen (wait_top ph s) = seen s.
Proof. intros; apply wait_top_env. Qed.
Lemma wait_exit_chain : forall ph s, chain (wait_exit ph s) = chain s.
Proof. intros; apply wait_exit_env. Qed.
Lemma wait_exit_seen : forall ph s, seen (wait_exit ph s) = seen s.
Proof. intros; apply wait_exit_env. Qed.
Lemma recv_wait_chain : forall ph u s, chain (recv_wait ph u s) = chain s.
Proof. intros; apply recv_wait_env. Qed.
Lemma recv_wait_seen : forall ph u s, seen (recv_wait ph u s) = seen s.
Proof. intros; apply recv_wait_env. Qed.
#[export] Hint Rewrite wait_settle_chain wait_settle_seen wait_settle_sub wait_settle_gf
  apply_q_chain apply_q_seen apply_q_sub apply_q_gf wait_top_chain wait_top_seen wait_top_sub wait_top_gf
  wait_exit_chain wait_exit_seen wait_exit_sub wait_exit_gf
  recv_wait_chain recv_wait_seen recv_wait_sub recv_wait_gf : frame.

(* ------------------------------------------------------------ the walk *)
Lemma walk_from_app : forall a t c,
  walk_from t (a ++ [c]) =
  match walk_from t a with Some t' => walk_step t' c | None => None end.
Proof.
  induction a as [|x a IH]; intros t c; cbn.
  - destruct (walk_step t c); reflexivity.
  - destruct (walk_step t x); [apply IH | reflexivity].
Qed.

Lemma walk_from_spec : forall cbs t t', walk_from t cbs = Some t' <-> Walk t cbs t'.
Proof.
  induction cbs as [|c r IH]; intros [cid ch] t'; cbn.
  - split; [intros H; inversion H; constructor | intros H; inversion H; reflexivity].
  - destruct c as [id prev k txs | id prev k]; cbn.
    + destruct (N.eqb_spec prev cid) as [->|Hn]; cbn.
      * destruct (Z.eqb_spec k (ch + 1)) as [->|Hk]; cbn.
        -- rewrite IH. split; [intros H; constructor; exact H | intros H; inversion H; subst; assumption].
        -- split; [discriminate | intros H; inversion H; subst; lia].
      * split; [discriminate | intros H; inversion H; subst; congruence].
    + destruct (N.eqb_spec id cid) as [->|Hn]; cbn.
      * destruct (Z.eqb_spec k ch) as [->|Hk]; cbn.
        -- rewrite IH. split; [intros H; constructor; exact H | intros H; inversion H; subst; assumption].
        -- split; [discriminate | intros H; inversion H; subst; lia].
      * split; [discriminate | intros H; inversion H; subst; congruence].
Qed.

(* ------------------------------------------------------- the invariant *)
Definition known (s : state) (h : hdr) : Prop := In h (map bh (seen s)).
Definition ids (s : state) : list N := map (fun b => hid (bh b)) (seen s).

Fixpoint linked (l : list hdr) : Prop :=
  match l with
  | h :: r => match r with
              | p :: _ => hprev h = hid p /\ hh p = hh h - 1
              | [] => True
              end /\ linked r
  | [] => True
  end.

Definition ntfn_ok (s : state) (n : ntfn) : Prop :=
  match n with
  | NConn h => known s h /\ 0 < hh h
  | NDisc h t => known s h /\ known s t /\ hid t = hprev h /\ hh t = hh h - 1
  end.

Definition parent_ok (s : state) : Prop :=
  forall h, known s h -> 0 < hh h ->
  exists p, known s p /\ hid p = hprev h /\ hh p = hh h - 1.

Record Env (s : state) : Prop := {
  e_ne : chain s <> [];
  e_linked : linked (chain s);
  e_chain : forall h, In h (chain s) -> known s h;
  e_nodup : NoDup (ids s);
  e_par : parent_ok s;
  e_pos : forall h, known s h -> 0 <= hh h;
  e_gen : forall a b, known s a -> known s b -> hh a = 0 -> hh b = 0 -> a = b
}.

Definition SubOK (s : state) : Prop :=
  forall q n, sub s = Some q -> In n q -> ntfn_ok s n.

Definition tcur (s : state) : Prop := told s = (hid (cur s), curh s).

Definition pc_inv (s : state) : Prop :=
  match pc s with
  | PFH h _ | PFil h _ | PBlk h _ =>
    known s h /\ 0 < hh h /\ hprev h = hid (cur s) /\ tcur s
  | PFilC | PBlkC => curh s = snd (told s) + 1 /\ hprev (cur s) = fst (told s)
  | PRew r _ => told s = (hprev (cur s), curh s - 1) /\ 0 < r < curh s
  | PBack => tcur s /\ 0 < curh s
  | PDone | PDead | PExit => True
  | _ => tcur s
  end.

(* facts about the goroutine that do not depend on where it is blocked *)
Record Mid (t0 : pos) (s : state) : Prop := {
  m_cur : known s (cur s);
  m_h : curh s = hh (cur s);
  m_rq : forall h, In h (retryq s) -> known s h /\ 0 < hh h;
  m_walk : walk_from t0 (outq s) = Some (told s)
}.

Record Post (t0 : pos) (s : state) : Prop := {
  p_mid : Mid t0 s;
  p_pc : pc_inv s
}.

Lemma known_env : forall s s' h, env_eq s s' -> known s h -> known s' h.
Proof. unfold known, env_eq; intros s s' h (_ & E & _) H; rewrite E; exact H. Qed.

Lemma Env_env : forall s s', Env s -> env_eq s s' -> Env s'.
Proof.
  intros s s' [A B C D E F G] (E1 & E2 & E3).
  split; unfold parent_ok, known, ids in *.
  - rewrite E1; exact A.
  - rewrite E1; exact B.
  - rewrite E1, E2; exact C.
  - rewrite E2; exact D.
  - rewrite E2; exact E.
  - rewrite E2; exact F.
  - rewrite E2; exact G.
Qed.

Lemma functional : forall s a b, Env s -> known s a -> known s b -> hid a = hid b -> a = b.
Proof.
  intros s a b He Ha Hb Heq. pose proof (e_nodup _ He) as Hn.
  unfold known, ids in *. revert Ha Hb Hn. generalize (seen s) as l.
  induction l as [|x l IH]; cbn; intros Ha Hb Hn; [contradiction|].
  inversion Hn as [|? ? Hx Hn']; subst.
  destruct Ha as [Ha|Ha], Hb as [Hb|Hb]; subst.
  - reflexivity.
  - exfalso; apply Hx. rewrite Heq. apply in_map_iff in Hb. destruct Hb as (y & Hy & Hin).
    apply in_map_iff. exists y; split; [now rewrite Hy | exact Hin].
  - exfalso; apply Hx. rewrite <- Heq. apply in_map_iff in Ha. destruct Ha as (y & Hy & Hin).
    apply in_map_iff. exists y; split; [now rewrite Hy | exact Hin].
  - apply IH; assumption.
Qed.

(* a known child of the current block is one higher *)
Lemma child_height : forall s h c, Env s -> known s h -> known s c -> 0 < hh h ->
  hprev h = hid c -> hh h = hh c + 1.
Proof.
  intros s h c He Hh Hc Hp Hpar.
  destruct (e_par _ He h Hh Hp) as (p & Hkp & Hid & Hhp).
  assert (p = c) by (apply (functional s); auto; congruence). subst. lia.
Qed.

Lemma walk_disc : forall t0 s, walk_from t0 (outq s) = Some (told s) -> tcur s ->
  walk_from t0 (outq s ++ [CbDisc (hid (cur s)) (hprev (cur s)) (curh s)])
  = Some (hprev (cur s), curh s - 1).
Proof.
  intros t0 s H T. rewrite walk_from_app, H. unfold tcur in T. rewrite T. cbn.
  rewrite N.eqb_refl, Z.eqb_refl. reflexivity.
Qed.

Lemma walk_conn : forall t0 s h k txs, walk_from t0 (outq s) = Some (told s) ->
  hprev h = fst (told s) -> k = snd (told s) + 1 ->
  walk_from t0 (outq s ++ [CbConn (hid h) (hprev h) k txs]) = Some (hid h, k).
Proof.
  intros t0 s h k txs H P K. rewrite walk_from_app, H. cbn. rewrite P, K.
  rewrite N.eqb_refl, Z.eqb_refl. reflexivity.
Qed.

Ltac kprojs := unfold known, tcur in *; projs.
Ltac mid_tac M := destruct M as [?A ?B ?C ?D]; split; kprojs; auto.

Lemma settle_ok : forall t0 s, Mid t0 s -> tcur s -> Post t0 (settle s).
Proof.
  intros t0 s M T. unfold settle. split.
  - mid_tac M.
  - unfold pc_inv, tcur in *; projs. destruct (current s); [destruct (quitf s)|]; auto.
Qed.

Lemma recv_update_ok : forall t0 u c s, Mid t0 s -> tcur s -> Post t0 (recv_update u c s).
Proof.
  intros t0 u c s M T. unfold recv_update. projs.
  destruct ((urewind u <=? 0) || (curh s <=? urewind u)) eqn:E.
  - apply settle_ok; [mid_tac M | exact T].
  - split.
    + destruct M as [A B C D]; split; projs; auto. apply walk_disc; auto.
    + unfold pc_inv; projs. split; [reflexivity | lia].
Qed.

Lemma goto_top_ok : forall t0 s, Mid t0 s -> tcur s -> Post t0 (goto_top s).
Proof.
  intros t0 s M T. unfold goto_top.
  destruct (at_end s).
  - split; [mid_tac M | unfold pc_inv; projs; exact I].
  - destruct (pend s); [apply recv_update_ok | apply settle_ok]; auto.
Qed.

Lemma after_drain_ok : forall t0 s, Mid t0 s -> tcur s -> Post t0 (after_drain s).
Proof.
  intros t0 s M T. unfold after_drain.
  destruct (pend s); [apply recv_update_ok; auto|].
  split; [mid_tac M | unfold pc_inv; projs; exact T].
Qed.

Lemma fail_other_ok : forall t0 s, Mid t0 s -> tcur s -> Post t0 (fail_other s).
Proof.
  intros t0 s M T. unfold fail_other.
  apply goto_top_ok; [mid_tac M | unfold tcur in *; projs; exact T].
Qed.

Lemma hbc_ok : forall t0 h c s, Mid t0 s -> tcur s -> known s h -> 0 < hh h -> Post t0 (hbc h c s).
Proof.
  intros t0 h c s M T K P. unfold hbc.
  destruct (N.eqb_spec (hprev h) (hid (cur s))) as [E|E]; cbn [negb].
  - split; [mid_tac M | unfold pc_inv; projs; auto].
  - apply fail_other_ok; auto.
Qed.

Lemma retry_loop_ok : forall t0 s, Mid t0 s -> tcur s -> Post t0 (retry_loop s).
Proof.
  intros t0 s M T. unfold retry_loop. destruct (retryq s) as [|h r] eqn:E.
  - apply goto_top_ok; auto.
  - destruct (m_rq _ _ M h) as [K P]; [rewrite E; left; reflexivity|].
    apply hbc_ok; auto.
Qed.

Lemma success_ok : forall t0 c s, Mid t0 s -> tcur s -> Post t0 (success c s).
Proof.
  intros t0 c s M T. destruct c; cbn [success].
  - apply goto_top_ok; auto.
  - apply retry_loop_ok; [|unfold tcur in *; projs; exact T].
    destruct M as [A B C D]; split; projs; auto.
    intros h Hin. apply C. destruct (retryq s); [contradiction | right; exact Hin].
Qed.

Lemma retry_later_ok : forall t0 h c s, Mid t0 s -> tcur s -> known s h -> 0 < hh h ->
  Post t0 (retry_later h c s).
Proof.
  intros t0 h c s M T K P. destruct c; cbn [retry_later]; apply goto_top_ok;
    try (unfold tcur in *; projs; exact T).
  - destruct M as [A B C D]; split; kprojs; auto.
    intros x Hin. apply in_app_or in Hin. destruct Hin as [Hin|[<-|[]]]; auto.
  - mid_tac M.
Qed.

(* ------------------------------------------------------ waitForBlocks *)
Lemma enter_wait_ok : forall t0 ph s, Mid t0 s -> tcur s -> Post t0 (enter_wait ph s).
Proof.
  intros t0 ph s M T. unfold enter_wait. split.
  - mid_tac M.
  - unfold pc_inv, tcur in *; projs. destruct (quitf s); auto.
Qed.

Lemma apply_q_ok : forall t0 ph q s, Mid t0 s -> tcur s -> Post t0 (apply_q ph q s).
Proof.
  induction q as [|u r IH]; intros s M T; cbn [apply_q].
  - apply enter_wait_ok; [mid_tac M | exact T].
  - projs. destruct ((urewind u <=? 0) || (curh s <=? urewind u)) eqn:E.
    + apply IH; [mid_tac M | exact T].
    + split.
      * destruct M as [A B C D]; split; projs; auto. apply walk_disc; auto.
      * unfold pc_inv; projs. split; [reflexivity | lia].
Qed.

Lemma recv_wait_ok : forall t0 ph u s, Mid t0 s -> tcur s -> Post t0 (recv_wait ph u s).
Proof.
  intros t0 ph u s M T. unfold recv_wait. apply apply_q_ok; [mid_tac M | exact T].
Qed.

Lemma wait_top_ok : forall t0 ph s, Mid t0 s -> tcur s -> Post t0 (wait_top ph s).
Proof.
  intros t0 ph s M T. unfold wait_top.
  destruct (pend s); [apply recv_wait_ok | apply enter_wait_ok]; auto.
Qed.

Lemma wait_settle_ok : forall t0 s, Post t0 s -> Post t0 (wait_settle s).
Proof.
  intros t0 s P. unfold wait_settle. destruct (pc s) eqn:E; try exact P.
  apply wait_top_ok; [apply P|]. pose proof (p_pc _ _ P) as X. unfold pc_inv in X.
  rewrite E in X. exact X.
Qed.

Lemma wait_exit_ok : forall t0 ph s, Mid t0 s -> tcur s -> Post t0 (wait_exit ph s).
Proof.
  intros t0 ph s M T. unfold wait_exit. destruct ph.
  - apply goto_top_ok; [mid_tac M | unfold tcur in *; projs; exact T].
  - split; [mid_tac M | unfold pc_inv, tcur in *; projs; exact T].
Qed.

(* --------------------------------------------- the pending call returns *)
Section WithFilter.
(* every filter oracle: the walk does not depend on what the filters say *)
Variable fmatch : list N -> block -> bool.
Notation do_call := (Model.do_call fmatch).
Notation do_ev := (Model.do_ev fmatch).
Notation step := (Model.step fmatch).
Notation run := (Model.run fmatch).

Lemma do_call_env : forall r s, env_eq s (do_call r s).
Proof.
  intros r s. unfold env_eq, do_call. blast; autorewrite with frame; projs; auto.
Qed.

Lemma do_call_sub : forall r s,
  sub (do_call r s) = sub s \/ sub (do_call r s) = None \/
  (exists k q, backlog s k = Some q /\ sub (do_call r s) = Some q).
Proof.
  intros r s. unfold do_call. blast; autorewrite with frame; projs; eauto.
  all: try (right; right; eauto; fail).
  all: try (right; left; reflexivity).
Qed.

Lemma by_height_some : forall k l h, by_height k l = Some h -> In h l /\ hh h = k.
Proof.
  unfold by_height; intros k l h H; apply find_some in H; destruct H; split; [auto | lia].
Qed.
Lemma by_id_some : forall id l h, by_id id l = Some h -> In h l /\ hid h = id.
Proof.
  unfold by_id; intros k l h H; apply find_some in H; destruct H as [H1 H2]; split; [auto|].
  now apply N.eqb_eq.
Qed.

Ltac post_dead := split; [ match goal with M : Mid _ _ |- _ => mid_tac M end
                         | unfold pc_inv; projs; exact I ].

(* announcing, in the current branch, the child [h] of the current block *)
Lemma conn_cur_mid : forall t0 s h txs x sc,
  Env s -> Mid t0 s -> tcur s -> known s h -> 0 < hh h -> hprev h = hid (cur s) ->
  let s' := advance h (emit_conn h (curh s + 1) txs (set_scanning sc (set_w x s))) in
  Mid t0 s' /\ tcur s'.
Proof.
  intros t0 s h txs x sc He M T K P Hp s'. subst s'.
  pose proof (child_height s h (cur s) He K (m_cur _ _ M) P Hp) as Hh.
  destruct M as [A B C D]. split; [split|]; kprojs; auto.
  - lia.
  - apply (walk_conn t0 s); auto; rewrite T; cbn; auto.
Qed.

Lemma do_call_post : forall r s,
  Env s -> Mid (told s) s -> pc_inv s ->
  Post (told s) (do_call r s).
Proof.
  intros r s He M Hpc. unfold do_call in *. unfold pc_inv in Hpc.
  destruct (pc s) eqn:Epc.
  - (* PIdle *) split; [exact M | unfold pc_inv; rewrite Epc; exact Hpc].
  - (* PSelect *) split; [exact M | unfold pc_inv; rewrite Epc; exact Hpc].
  - (* PBest *)
    destruct (best s <? curh s + 1); (split; [mid_tac M | unfold pc_inv; projs; exact Hpc]).
  - (* PHdr *)
    destruct (by_height (curh s + 1) (chain s)) as [h|] eqn:Eh; [|post_dead].
    apply by_height_some in Eh. destruct Eh as [Hin Hhh].
    pose proof (e_chain _ He h Hin) as Kh.
    destruct (N.eqb_spec (hprev h) (hid (cur s))) as [Hpar|Hpar]; cbn [negb].
    2:{ (* not a child: the current block cannot be the genesis block *)
      split; [mid_tac M | unfold pc_inv; projs; split; [exact Hpc|]].
      pose proof (m_h _ _ M) as Hc. pose proof (e_pos _ He _ (m_cur _ _ M)) as Hge.
      destruct (Z.eq_dec (curh s) 0) as [H0|H0]; [exfalso | lia].
      destruct (e_par _ He h Kh) as (p & Kp & Hid & Hhp); [lia|].
      assert (p = cur s) by (apply (e_gen _ He); auto; [apply (m_cur _ _ M) | lia | lia]). subst p. auto. }
    set (s2 := scan_latch h (advance h s)) in *.
    assert (M2 : Mid (told s) s2).
    { subst s2. destruct M as [A B C D]; split; kprojs; auto. }
    destruct (negb (is_nil (wlist (w s2))) && scanning s2).
    + split; [mid_tac M2 | unfold pc_inv; subst s2; kprojs; rewrite Hpc; cbn; auto].
    + apply goto_top_ok.
      * destruct M2 as [A B C D]; split; kprojs; auto.
        apply walk_conn; auto; subst s2; kprojs; rewrite Hpc; cbn; auto.
      * unfold tcur; projs. reflexivity.
  - (* PBack *)
    destruct Hpc as [T Hpos].
    destruct (by_id (hprev (cur s)) (chain s)) as [p|] eqn:Ep; [|post_dead].
    apply by_id_some in Ep. destruct Ep as [Hin Hid].
    pose proof (e_chain _ He p Hin) as Kp.
    pose proof (m_h _ _ M) as Hc.
    assert (Hhp : hh p = curh s - 1).
    { destruct (e_par _ He (cur s) (m_cur _ _ M)) as (p' & Kp' & Hid' & Hh'); [lia|].
      assert (p = p') by (apply (functional s); auto; congruence). subst. lia. }
    apply goto_top_ok.
    + destruct M as [A B C D]; split; kprojs; auto; try lia. apply (walk_disc _ s); auto.
    + unfold tcur; projs. rewrite Hid. reflexivity.
  - (* PSub *)
    destruct (backlog s (curh s)) as [q|]; [|post_dead].
    apply goto_top_ok; [mid_tac M; intros ? [] | kprojs; exact Hpc].
  - (* PFilC *)
    destruct Hpc as [Hk Hp].
    assert (G : forall s1, Mid (told s) s1 -> cur s1 = cur s -> curh s1 = curh s ->
                told s1 = told s -> outq s1 = outq s ->
                Post (told s) (goto_top (emit_conn (cur s1) (curh s1) [] s1))).
    { intros s1 M1 E1 E2 E3 E4. apply goto_top_ok.
      - destruct M1 as [A B C D]; split; kprojs; auto.
        apply walk_conn; auto; rewrite ?E1, ?E2, ?E3; auto.
      - unfold tcur; projs. reflexivity. }
    destruct r.
    + destruct (find_block (hid (cur s)) (seen s)); [|post_dead].
      destruct (fmatch (wlist (w s)) b).
      * split; [mid_tac M | unfold pc_inv; projs; auto].
      * apply G; auto.
    + post_dead.
    + apply (G (flag_nf s)); try reflexivity. mid_tac M.
  - (* PBlkC *)
    destruct Hpc as [Hk Hp].
    destruct r; try post_dead.
    destruct (find_block (hid (cur s)) (seen s)); [|post_dead].
    destruct (extract (w s) (btxs b)) as [l x].
    apply goto_top_ok.
    + destruct M as [A B C D]; split; kprojs; auto. apply walk_conn; auto.
    + unfold tcur; projs. reflexivity.
  - (* PFH *)
    destruct Hpc as (K & P & Hp & T).
    destruct (best s <? curh s + 1); [apply fail_other_ok; auto|].
    unfold scan_latch.
    set (sc := scanning s || (startT (cfg s) <? htime h)).
    destruct (negb (scanning (set_scanning sc s)) || is_nil (wlist (w (set_scanning sc s)))).
    + destruct (conn_cur_mid (told s) s h [] (w s) sc He M T K P Hp) as [M' T'].
      replace (set_scanning sc s) with (set_scanning sc (set_w (w s) s)) by reflexivity.
      apply success_ok; assumption.
    + split; [mid_tac M | unfold pc_inv; kprojs; auto].
  - (* PFil *)
    destruct Hpc as (K & P & Hp & T).
    destruct r; try (apply retry_later_ok; auto).
    destruct (find_block (hid h) (seen s)); [|apply retry_later_ok; auto].
    destruct (fmatch (wlist (w s)) b).
    + split; [mid_tac M | unfold pc_inv; kprojs; auto].
    + destruct (conn_cur_mid (told s) s h [] (w s) (scanning s) He M T K P Hp) as [M' T'].
      replace s with (set_scanning (scanning s) (set_w (w s) s)) at 2 3 by (destruct s; reflexivity).
      apply success_ok; assumption.
  - (* PBlk *)
    destruct Hpc as (K & P & Hp & T).
    destruct r; try (apply fail_other_ok; auto).
    destruct (find_block (hid h) (seen s)); [|apply fail_other_ok; auto].
    destruct (extract (w s) (btxs b)) as [l x].
    destruct (conn_cur_mid (told s) s h l x (scanning s) He M T K P Hp) as [M' T'].
    replace (set_w x s) with (set_scanning (scanning s) (set_w x s)) by (destruct s; reflexivity).
    apply success_ok; assumption.
  - (* PRew *)
    destruct Hpc as (Ht & Hr).
    destruct (by_id (hprev (cur s)) (chain s)) as [p|] eqn:Ep; [|post_dead].
    apply by_id_some in Ep. destruct Ep as [Hin Hid].
    pose proof (e_chain _ He p Hin) as Kp.
    assert (Hhp : hh p = curh s - 1).
    { pose proof (m_h _ _ M) as Hc.
      destruct (e_par _ He (cur s) (m_cur _ _ M)) as (p' & Kp' & Hid' & Hh'); [lia|].
      assert (p = p') by (apply (functional s); auto; congruence). subst. lia. }
    assert (M1 : Mid (told s) (set_cur p (hh p) s)) by (mid_tac M).
    assert (T1 : tcur (set_cur p (hh p) s)).
    { unfold tcur; projs. rewrite Ht, Hid, Hhp. reflexivity. }
    destruct (target <? hh p) eqn:Et.
    + split.
      * destruct M1 as [A B C D]; split; kprojs; auto. apply (walk_disc _ (set_cur p (hh p) s)); auto.
      * unfold pc_inv; kprojs. split; [reflexivity | lia].
    + destruct c.
      * apply goto_top_ok; [mid_tac M1 | exact T1].
      * apply after_drain_ok; assumption.
      * apply wait_settle_ok. apply apply_q_ok; assumption.
  - (* PDone *) split; [exact M | unfold pc_inv; rewrite Epc; exact I].
  - (* PDead *) split; [exact M | unfold pc_inv; rewrite Epc; exact I].
  - (* PExit *) split; [exact M | unfold pc_inv; rewrite Epc; exact I].
  - (* PWBest *)
    destruct (chain s) as [|t r0]; [post_dead|].
    destruct (wpred ph (hid t) (hh t) s).
    + apply wait_exit_ok; auto.
    + split; [mid_tac M | unfold pc_inv; projs; exact Hpc].
  - (* PWSub *)
    destruct (backlog s k) as [q|]; [|post_dead].
    apply wait_top_ok; [mid_tac M | kprojs; exact Hpc].
  - (* PWait *) split; [exact M | unfold pc_inv; rewrite Epc; exact Hpc].
Qed.

(* ------------------------------------------- a notification is received *)
Lemma rq_remove_incl : forall id l x, In x (rq_remove id l) -> In x l.
Proof.
  induction l as [|h r IH]; cbn; intros x H; [exact H|].
  destruct (N.eqb (hid h) id); [contradiction|]. destruct H as [H|H]; auto.
Qed.

Lemma do_ntfn_env : forall s, env_eq s (do_ntfn s).
Proof. intros s. unfold env_eq, do_ntfn. blast; autorewrite with frame; projs; auto. Qed.

Lemma do_ntfn_sub : forall s,
  sub (do_ntfn s) = sub s \/ sub (do_ntfn s) = None \/
  exists n q, sub s = Some (n :: q) /\ sub (do_ntfn s) = Some q.
Proof.
  intros s. unfold do_ntfn. blast; autorewrite with frame; projs; eauto.
  all: try (right; right; eauto; fail).
  all: try (right; left; reflexivity).
Qed.

Lemma do_ntfn_post : forall s,
  Env s -> SubOK s -> Mid (told s) s -> pc_inv s -> Post (told s) (do_ntfn s).
Proof.
  intros s He Hs M Hpc. unfold do_ntfn.
  destruct (pc s) eqn:Epc; try (split; [exact M | exact Hpc]).
  2:{ (* the select of waitForBlocks *)
    destruct (sub s) as [[|n q]|] eqn:Es; try (split; [exact M | exact Hpc]).
    unfold pc_inv in Hpc; rewrite Epc in Hpc.
    assert (M1 : Mid (told s) (set_sub (Some q) s)) by (mid_tac M).
    destruct n as [h|h t].
    - destruct (wpred ph (hid h) (hh h) (set_sub (Some q) s)).
      + apply wait_exit_ok; auto.
      + apply apply_q_ok; [mid_tac M1 | exact Hpc].
    - split; [exact M1 | unfold pc_inv; projs; rewrite Epc; exact Hpc]. }
  destruct (sub s) as [[|n q]|] eqn:Es; try (split; [exact M | exact Hpc]).
  unfold pc_inv in Hpc; rewrite Epc in Hpc.
  pose proof (Hs _ n Es (or_introl eq_refl)) as Hn.
  destruct n as [h|h t]; cbn [ntfn_ok] in Hn.
  - destruct Hn as [K P]. projs.
    destruct (is_nil (retryq s)) eqn:Eq; cbn [negb].
    + apply hbc_ok; auto. mid_tac M.
    + apply goto_top_ok; [|exact Hpc].
      destruct M as [A B C D]; split; kprojs; auto.
      intros x Hin. apply in_app_or in Hin. destruct Hin as [Hin|[<-|[]]]; auto.
  - destruct Hn as (K & Kt & Hid & Hh). projs.
    assert (M2 : Mid (told s) (set_retryq (rq_remove (hid h) (retryq s)) (set_sub (Some q) s))).
    { destruct M as [A B C D]; split; kprojs; auto.
      intros x Hin. apply C. eapply rq_remove_incl; eauto. }
    destruct (N.eqb_spec (hid h) (hid (cur s))) as [E|E].
    + assert (h = cur s) by (apply (functional s); auto; apply (m_cur _ _ M)). subst h.
      pose proof (m_h _ _ M) as Hc.
      apply goto_top_ok.
      * destruct M2 as [A B C D]; split; kprojs; auto; [lia|].
        apply (walk_disc _ (set_retryq (rq_remove (hid (cur s)) (retryq s)) (set_sub (Some q) s))); auto.
      * unfold tcur; projs. rewrite Hid. reflexivity.
    + apply goto_top_ok; [exact M2 | exact Hpc].
Qed.

(* ------------------------------------------------------ Rescan.Start *)
Lemma start_at_env : forall c h k s, env_eq s (start_at c h k s).
Proof. intros. unfold env_eq, start_at. autorewrite with frame; projs; auto. Qed.
Lemma start_env : forall c s, env_eq s (start c s).
Proof.
  intros. unfold start. destruct (by_height (cstart c) (chain s)); [apply start_at_env|].
  destruct (by_height 0 (chain s)); [apply start_at_env | apply env_eq_refl].
Qed.
Lemma start_sub : forall c s, sub (start c s) = sub s.
Proof. intros. unfold start, start_at. blast; autorewrite with frame; projs; auto. Qed.
Lemma start_gf : forall c s, gf (start c s) = gf s.
Proof. intros. unfold start, start_at. blast; autorewrite with frame; projs; auto. Qed.

Lemma goto_top_out_nil : forall s, pend s = None -> outq (goto_top s) = outq s.
Proof. intros s H. unfold goto_top, settle. rewrite H. blast; auto. Qed.

Lemma start_post : forall c s,
  Env s -> Mid (told s) s -> pc_inv s -> pend s = None -> outq s = [] ->
  Post (told (start c s)) (start c s) /\ outq (start c s) = [] /\
  (pc (start c s) = PIdle -> start c s = s).
Proof.
  intros c s He M Hpc Hp Ho. unfold start. pose proof (m_rq _ _ M) as Hrq.
  assert (G : forall h k, In h (chain s) -> hh h = k ->
              Post (told (start_at c h k s)) (start_at c h k s) /\ outq (start_at c h k s) = [] /\
              (pc (start_at c h k s) = PIdle -> start_at c h k s = s)).
  { intros h k Hin Hh. unfold start_at. projs. split; [|split].
    - split.
      + split; kprojs; auto.
        * apply (e_chain _ He); exact Hin.
        * rewrite Ho. reflexivity.
      + unfold pc_inv, tcur; projs. reflexivity.
    - exact Ho.
    - intros X; discriminate. }
  destruct (by_height (cstart c) (chain s)) as [h|] eqn:E1.
  - apply by_height_some in E1. destruct E1. apply G; auto.
  - destruct (by_height 0 (chain s)) as [g|] eqn:E2.
    + apply by_height_some in E2. destruct E2. apply G; auto.
    + split; [split; [exact M | exact Hpc] | split; [exact Ho | reflexivity]].
Qed.

(* ---------------------------------------------- PIdle is never re-entered *)
Ltac noidle := intros; blast; try discriminate.
Lemma goto_top_ni : forall s, pc (goto_top s) <> PIdle.
Proof. unfold goto_top, recv_update, settle; noidle. Qed.
Lemma after_drain_ni : forall s, pc (after_drain s) <> PIdle.
Proof. unfold after_drain, recv_update, settle; noidle. Qed.
Lemma fail_other_ni : forall s, pc (fail_other s) <> PIdle.
Proof. intros; apply goto_top_ni. Qed.
Lemma hbc_ni : forall h c s, pc (hbc h c s) <> PIdle.
Proof. intros; unfold hbc; destruct (negb _); [apply fail_other_ni | projs; discriminate]. Qed.
Lemma retry_loop_ni : forall s, pc (retry_loop s) <> PIdle.
Proof. intros; unfold retry_loop; destruct (retryq s); [apply goto_top_ni | apply hbc_ni]. Qed.
Lemma success_ni : forall c s, pc (success c s) <> PIdle.
Proof. intros; destruct c; cbn [success]; [apply goto_top_ni | apply retry_loop_ni]. Qed.
Lemma retry_later_ni : forall h c s, pc (retry_later h c s) <> PIdle.
Proof. intros; destruct c; cbn [retry_later]; apply goto_top_ni. Qed.

Lemma enter_wait_ni : forall ph s, pc (enter_wait ph s) <> PIdle.
Proof. unfold enter_wait; noidle. Qed.
Lemma apply_q_ni : forall ph q s, pc (apply_q ph q s) <> PIdle.
Proof.
  induction q as [|u r IH]; intros s; cbn [apply_q]; [apply enter_wait_ni|].
  destruct (_ || _); [apply IH | projs; discriminate].
Qed.
Lemma recv_wait_ni : forall ph u s, pc (recv_wait ph u s) <> PIdle.
Proof. intros; unfold recv_wait; apply apply_q_ni. Qed.
Lemma wait_top_ni : forall ph s, pc (wait_top ph s) <> PIdle.
Proof. intros; unfold wait_top; destruct (pend s); [apply recv_wait_ni | apply enter_wait_ni]. Qed.
Lemma wait_settle_ni : forall s, pc s <> PIdle -> pc (wait_settle s) <> PIdle.
Proof. intros s H; unfold wait_settle; destruct (pc s) eqn:E; try (rewrite E; exact H). apply wait_top_ni. Qed.
Lemma wait_exit_ni : forall ph s, pc (wait_exit ph s) <> PIdle.
Proof. intros; unfold wait_exit; destruct ph; [apply goto_top_ni | projs; discriminate]. Qed.

Lemma do_call_idle : forall r s, pc (do_call r s) = PIdle -> do_call r s = s.
Proof.
  intros r s. unfold do_call.
  repeat (projs; match goal with
    | |- context [match ?x with _ => _ end] => destruct x eqn:?
    end); projs; try discriminate; try reflexivity; intros H; exfalso; revert H;
  first [apply goto_top_ni | apply after_drain_ni | apply fail_other_ni | apply success_ni
        | apply retry_later_ni | apply wait_exit_ni | apply wait_top_ni
        | apply wait_settle_ni; apply apply_q_ni ].
Qed.

Lemma do_ntfn_idle : forall s, pc (do_ntfn s) = PIdle -> do_ntfn s = s.
Proof.
  intros s. unfold do_ntfn.
  repeat (projs; match goal with
    | |- context [match ?x with _ => _ end] => destruct x eqn:?
    end); projs; try discriminate; try reflexivity; intros H; exfalso; revert H;
  first [apply goto_top_ni | apply hbc_ni | apply wait_exit_ni | apply apply_q_ni
        | intros; congruence ].
Qed.

(* ------------------------------------------------------ the invariant *)
Record Inv (s : state) : Prop := {
  i_env : Env s;
  i_sub : SubOK s;
  i_cur : known s (cur s);
  i_h : curh s = hh (cur s);
  i_rq : forall h, In h (retryq s) -> known s h /\ 0 < hh h;
  i_pc : pc_inv s;
  i_idle : pc s = PIdle -> pend s = None
}.

Lemma ntfn_ok_seen : forall s s' n, (forall h, known s h -> known s' h) -> ntfn_ok s n -> ntfn_ok s' n.
Proof. intros s s' [h|h t] H; cbn; intuition. Qed.

(* a goroutine step: from the frame facts and the Post condition back to Inv *)
Lemma thread_inv : forall s s' t0,
  Inv s -> env_eq s s' ->
  (forall q n, sub s' = Some q -> In n q -> ntfn_ok s n) ->
  Post t0 s' -> (pc s' = PIdle -> pend s' = None) -> Inv s'.
Proof.
  intros s s' t0 I Ee Hsub [[A B C D] P] Hi.
  assert (Kn : forall h, known s h -> known s' h) by (intros; eapply known_env; eauto).
  split; auto.
  - eapply Env_env; [apply I | exact Ee].
  - intros q n Hq Hin. eapply ntfn_ok_seen; [exact Kn|]. eapply Hsub; eauto.
Qed.

Lemma pc_inv_known : forall s s', (forall h, known s h -> known s' h) ->
  pc s' = pc s -> cur s' = cur s -> curh s' = curh s -> told s' = told s ->
  pc_inv s -> pc_inv s'.
Proof.
  intros s s' K E1 E2 E3 E4. unfold pc_inv, tcur. rewrite E1, E2, E3, E4.
  destruct (pc s); intuition.
Qed.

Lemma backlog_ok : forall s k q n, Env s -> backlog s k = Some q -> In n q -> ntfn_ok s n.
Proof.
  intros s k q n He. unfold backlog.
  destruct (k <? 0) eqn:E0; [discriminate|].
  destruct (k =? 0); [intros H; inversion H; subst; contradiction|].
  destruct (best s =? k); [intros H; inversion H; subst; contradiction|].
  destruct (best s <? k); [discriminate|].
  intros H; inversion H; subst; clear H. intros Hin.
  apply in_map_iff in Hin. destruct Hin as (h & <- & Hin).
  apply in_rev, filter_In in Hin. destruct Hin as [Hin Hk]. cbn.
  split; [apply (e_chain _ He); exact Hin | lia].
Qed.

Lemma same_ok : forall s, Inv s -> outq s = [] ->
  Inv s /\ (pc s <> PIdle -> walk_from (told s) (outq s) = Some (told s)) /\
  (pc s = PIdle -> outq s = []).
Proof. intros s I Ho. rewrite Ho. split; [exact I | split; intros; reflexivity]. Qed.

Lemma known_app : forall s s' b h, seen s' = seen s ++ [b] -> known s h -> known s' h.
Proof. unfold known; intros s s' b h E H. rewrite E, map_app. apply in_or_app; left; exact H. Qed.

Lemma Inv_mid : forall s, Inv s -> outq s = [] -> Mid (told s) s.
Proof. intros s I Ho; destruct I; split; auto. rewrite Ho; reflexivity. Qed.

Lemma NoDup_app_one : forall (l : list N) x, NoDup l -> ~ In x l -> NoDup (l ++ [x]).
Proof.
  induction l as [|a l IH]; cbn; intros x Hn Hx.
  - constructor; [intros [] | constructor].
  - inversion Hn; subst. constructor.
    + intros Hin. apply in_app_or in Hin. destruct Hin as [Hin|[<-|[]]]; auto.
    + apply IH; auto.
Qed.

Lemma extend_inv : forall s id time txs,
  Inv s -> g_coll (gf (do_ev (EvExtend id time txs) s)) = false ->
  Inv (do_ev (EvExtend id time txs) s).
Proof.
  intros s id time txs I Hc. cbn [do_ev] in *.
  destruct (chain s) as [|t r] eqn:Ech; [exact I|].
  set (h := {| hid := id; hprev := hid t; htime := time; hh := hh t + 1 |}) in *.
  set (b := {| bh := h; btxs := txs |}) in *.
  set (s1 := flag_coll (memN id (map (fun b => hid (bh b)) (seen s)))
               (set_seen (seen s ++ [b]) (set_chain (h :: t :: r) s))) in *.
  assert (Es : seen s1 = seen s ++ [b]) by reflexivity.
  assert (Kn : forall x, known s x -> known s1 x) by (intros; eapply known_app; eauto).
  assert (Kh : known s1 h).
  { unfold known. rewrite Es, map_app. apply in_or_app; right; left; reflexivity. }
  assert (Kt : known s t) by (apply (e_chain _ (i_env _ I)); rewrite Ech; left; reflexivity).
  assert (Hc1 : memN id (map (fun b => hid (bh b)) (seen s)) = false).
  { assert (g_coll (gf s1) = false).
    { revert Hc. unfold push_ntfn. destruct (sub s1); projs; auto. }
    subst s1; projs. apply orb_false_elim in H; apply H. }
  assert (I1 : Inv s1).
  { destruct I as [[A B C D E F Gn] S K H Q P Id].
    assert (G1 : Env s1).
    { split; subst s1; kprojs.
      - discriminate.
      - cbn. split; [split; [reflexivity | lia]|]. rewrite Ech in B. exact B.
      - intros x [<-|Hx]; [exact Kh | apply Kn, C; rewrite Ech; exact Hx].
      - unfold ids. projs. rewrite map_app. cbn.
        apply NoDup_app_one; [exact D|].
        intros Hin. unfold memN in Hc1.
        assert (existsb (N.eqb id) (map (fun b0 => hid (bh b0)) (seen s)) = true).
        { apply existsb_exists. exists id; split; [exact Hin | apply N.eqb_refl]. }
        congruence.
      - unfold parent_ok, known. projs. intros x Hx Hp.
        rewrite map_app in Hx. apply in_app_or in Hx. destruct Hx as [Hx|[<-|[]]].
        + destruct (E x Hx Hp) as (p & Kp & Hp1 & Hp2). exists p; split; [apply Kn; exact Kp | auto].
        + exists t. split; [apply Kn; exact Kt | cbn; split; [reflexivity | lia]].
      - intros x Hx. rewrite map_app in Hx.
        apply in_app_or in Hx. destruct Hx as [Hx|[<-|[]]]; [apply F; exact Hx|].
        cbn. pose proof (F t Kt). lia.
      - intros x y Hx Hy. rewrite map_app in Hx, Hy. pose proof (F t Kt) as Ft.
        apply in_app_or in Hx. apply in_app_or in Hy.
        destruct Hx as [Hx|[<-|[]]], Hy as [Hy|[<-|[]]]; cbn; intros; try lia.
        apply Gn; auto. }
    assert (G2 : SubOK s1).
    { intros q n Hq Hin. eapply ntfn_ok_seen; [exact Kn | eapply S; eauto]. }
    assert (G3 : known s1 (cur s1)) by (apply Kn; exact K).
    assert (G4 : forall x, In x (retryq s1) -> known s1 x /\ 0 < hh x).
    { intros x Hx. destruct (Q x Hx). split; [apply Kn|]; auto. }
    assert (G5 : pc_inv s1) by (eapply pc_inv_known; try exact P; auto).
    split; auto. }
  unfold push_ntfn. destruct (sub s1) as [q|] eqn:Eq; [|exact I1].
  destruct I1 as [A S K H Q P Id].
  assert (G2 : SubOK (set_sub (Some (q ++ [NConn h])) s1)).
  { unfold SubOK; projs. intros q' n Hq Hin. inversion Hq; subst q'. apply in_app_or in Hin.
    destruct Hin as [Hin|[<-|[]]]; [eapply (ntfn_ok_seen s1); [|eapply S; eauto]; auto|].
    cbn. split; [exact Kh|]. pose proof (e_pos _ (i_env _ I) t Kt). lia. }
  split; auto.
eapply Env_env; [exact A | repeat split].
Qed.

Lemma rollback_inv : forall s, Inv s -> Inv (do_ev EvRollback s).
Proof.
  intros s I. cbn [do_ev].
  destruct (chain s) as [|t [|t' r]] eqn:Ech; try exact I.
  set (s1 := set_chain (t' :: r) s).
  assert (Kn : forall x, known s x -> known s1 x) by (intros x Hx; exact Hx).
  destruct I as [[A B C D E F Gn] S K H Q P Id].
  assert (G1 : Env s1).
  { split; subst s1; kprojs; auto.
    - discriminate.
    - rewrite Ech in B. cbn in B. apply B.
    - intros x Hx. apply C. rewrite Ech. right; exact Hx. }
  assert (I1 : Inv s1).
  { split; auto; try (eapply pc_inv_known; try exact P; auto; fail). }
  unfold push_ntfn. destruct (sub s1) as [q|] eqn:Eq; [|exact I1].
  assert (G2 : SubOK (set_sub (Some (q ++ [NDisc t t'])) s1)).
  { unfold SubOK; projs. intros q' n Hq Hin. inversion Hq; subst q'. apply in_app_or in Hin.
    destruct Hin as [Hin|[<-|[]]]; [eapply S; eauto|].
    rewrite Ech in B, C. cbn in B. cbn.
    split; [apply C; left; reflexivity|]. split; [apply C; right; left; reflexivity|].
    destruct B as [[B1 B2] _]. split; [symmetry; exact B1 | exact B2]. }
  split; auto; try (eapply pc_inv_known; try exact P; auto; fail).
  eapply Env_env; [exact G1 | repeat split].
Qed.

Lemma Inv_frame : forall s s', Inv s ->
  chain s' = chain s -> seen s' = seen s -> sub s' = sub s -> pc s' = pc s -> cur s' = cur s ->
  curh s' = curh s -> retryq s' = retryq s -> told s' = told s ->
  (pc s' = PIdle -> pend s' = None) ->
  g_coll (gf s') = g_coll (gf s) -> Inv s'.
Proof.
  intros s s' I E1 E2 E3 E4 E5 E6 E7 E8 E9 E10.
  assert (Ee : env_eq s s') by (repeat split; auto).
  assert (Kn : forall x, known s x -> known s' x) by (intros; eapply known_env; eauto).
  destruct I as [A S K H Q P Id]. split.
  - eapply Env_env; eauto.
  - unfold SubOK. rewrite E3. intros q n Hq Hin. eapply ntfn_ok_seen; [exact Kn | eapply S; eauto].
  - rewrite E5; auto.
  - rewrite E5, E6; auto.
  - rewrite E7. intros h Hh. destruct (Q h Hh); split; auto.
  - eapply pc_inv_known; try exact P; auto.
  - exact E9.
Qed.

Lemma do_ev_inv : forall e s,
  Inv s -> outq s = [] ->
  g_coll (gf (do_ev e s)) = false ->
  Inv (do_ev e s) /\
  (pc s <> PIdle -> walk_from (told s) (outq (do_ev e s)) = Some (told (do_ev e s))) /\
  (pc s = PIdle -> outq (do_ev e s) = []).
Proof.
  intros e s I Ho Hc.
  pose proof (Inv_mid s I Ho) as M.
  assert (Sok : forall q n, sub s = Some q -> In n q -> ntfn_ok s n) by (apply I).
  destruct e.
  - (* extend *)
    split; [apply extend_inv; auto|].
    cbn [do_ev]. destruct (chain s); [rewrite Ho; split; intros; reflexivity|].
    unfold push_ntfn. blast; rewrite ?Ho; split; intros; reflexivity.
  - (* rollback *)
    split; [apply rollback_inv; auto|].
    cbn [do_ev]. unfold push_ntfn. blast; rewrite ?Ho; split; intros; reflexivity.
  - (* start *)
    cbn [do_ev] in *. destruct (pc s) eqn:Epc;
      try (rewrite Ho; split; [exact I | split; intros; reflexivity]).
    destruct (start_post c s (i_env _ I) M (i_pc _ I) (i_idle _ I Epc) Ho) as (P & Hout & Hid).
    split; [|split; [intros X; congruence | intros _; exact Hout]].
    eapply thread_inv; [exact I | apply start_env | rewrite start_sub; exact Sok | exact P |].
    intros Hp. rewrite (Hid Hp). apply (i_idle _ I Epc).
  - (* update *)
    cbn [do_ev] in *.
    destruct (pend s) eqn:Ep; [rewrite Ho; split; [exact I | split; intros; reflexivity]|].
    assert (G : pc s <> PIdle -> Inv (set_pend (Some u) s) /\
      (pc s <> PIdle -> walk_from (told s) (outq (set_pend (Some u) s)) = Some (told (set_pend (Some u) s))) /\
      (pc s = PIdle -> outq (set_pend (Some u) s) = [])).
    { intros Hn. projs. rewrite Ho. split; [|split; intros; reflexivity].
      eapply Inv_frame; try exact I; try reflexivity. projs. intros X; contradiction. }
    destruct (pc s) eqn:Epc; try (apply G; discriminate);
      try (rewrite Ho; split; [exact I | split; intros; reflexivity]).
    + assert (T : tcur s) by (pose proof (i_pc _ I) as X; unfold pc_inv in X; rewrite Epc in X; exact X).
      pose proof (recv_update_ok (told s) u USelect s M T) as P.
      split; [|split; [intros _; apply P | intros X; discriminate]].
      eapply thread_inv; [exact I | apply recv_update_env | rewrite recv_update_sub; exact Sok | exact P |].
      intros X. exfalso. revert X. apply recv_update_ni.
    + assert (T : tcur s) by (pose proof (i_pc _ I) as X; unfold pc_inv in X; rewrite Epc in X; exact X).
      pose proof (recv_wait_ok (told s) ph u s M T) as P.
      split; [|split; [intros _; apply P | intros X; discriminate]].
      eapply thread_inv; [exact I | apply recv_wait_env | rewrite recv_wait_sub; exact Sok | exact P |].
      intros X. exfalso. revert X. apply recv_wait_ni.
  - (* call returns *)
    cbn [do_ev] in *.
    pose proof (do_call_post r s (i_env _ I) M (i_pc _ I)) as P.
    split; [|split].
    + eapply thread_inv; [exact I | apply do_call_env | | exact P | ].
      * intros q n Hq Hin. destruct (do_call_sub r s) as [E|[E|(k0 & q0 & Hb & E)]]; rewrite E in Hq.
        -- eapply Sok; eauto.
        -- discriminate.
        -- inversion Hq; subst. eapply backlog_ok; eauto. apply I.
      * intros Hp. pose proof (do_call_idle _ _ Hp) as E. rewrite E in *. apply (i_idle _ I Hp).
    + intros _. apply P.
    + intros Hp. unfold do_call. rewrite Hp. exact Ho.
  - (* notification *)
    cbn [do_ev] in *.
    pose proof (do_ntfn_post s (i_env _ I) (i_sub _ I) M (i_pc _ I)) as P.
    split; [|split].
    + eapply thread_inv; [exact I | apply do_ntfn_env | | exact P | ].
      * intros q n Hq Hin. destruct (do_ntfn_sub s) as [E|[E|(n0 & q0 & E0 & E)]]; rewrite E in Hq.
        -- eapply Sok; eauto.
        -- discriminate.
        -- inversion Hq; subst. eapply Sok; [exact E0 | right; exact Hin].
      * intros Hp. pose proof (do_ntfn_idle _ Hp) as E. rewrite E in *. apply (i_idle _ I Hp).
    + intros _. apply P.
    + intros Hp. unfold do_ntfn. rewrite Hp. exact Ho.
  - (* retry timer *)
    cbn [do_ev] in *.
    destruct (pc s) eqn:Epc; try (rewrite Ho; split; [exact I | split; intros; reflexivity]).
    destruct (armed s); [|rewrite Ho; split; [exact I | split; intros; reflexivity]].
    assert (T : tcur s) by (pose proof (i_pc _ I) as X; unfold pc_inv in X; rewrite Epc in X; exact X).
    assert (M1 : Mid (told s) (set_armed false s)) by (mid_tac M).
    pose proof (retry_loop_ok (told s) (set_armed false s) M1 T) as P.
    split; [|split; [intros _; apply P | intros X; discriminate]].
    eapply thread_inv; [exact I | | | exact P | ].
    + destruct (retry_loop_env (set_armed false s)) as (E1 & E2 & E3). repeat split; auto.
    + rewrite retry_loop_sub. exact Sok.
    + intros X. exfalso. revert X. apply retry_loop_ni.
  - (* IsCurrent changes *)
    cbn [do_ev] in *. projs. rewrite Ho. split; [|split; intros; reflexivity].
    eapply Inv_frame; try exact I; try reflexivity. apply I.
  - (* quit *)
    cbn [do_ev] in *.
    assert (G : Inv (set_quitf true s) /\
      (pc s <> PIdle -> walk_from (told s) (outq (set_quitf true s)) = Some (told (set_quitf true s))) /\
      (pc s = PIdle -> outq (set_quitf true s) = [])).
    { projs. rewrite Ho. split; [|split; intros; reflexivity].
      eapply Inv_frame; try exact I; try reflexivity. apply I. }
    assert (G2 : pc s <> PIdle -> Inv (set_pc PExit (set_quitf true s)) /\
      (pc s <> PIdle -> walk_from (told s) (outq (set_pc PExit (set_quitf true s))) =
                        Some (told (set_pc PExit (set_quitf true s)))) /\
      (pc s = PIdle -> outq (set_pc PExit (set_quitf true s)) = [])).
    { intros Hn. projs. rewrite Ho. split; [|split; intros; reflexivity].
      eapply (thread_inv s _ (told s)); [exact I | repeat split | exact Sok | | projs; intros X; discriminate].
      split; [mid_tac M | unfold pc_inv; projs; exact Logic.I]. }
    destruct (pc s) eqn:Epc; try exact G; apply G2; discriminate.
Qed.

(* ------------------------------------------------- flags only ever rise *)
Lemma do_ev_gf : forall e s,
  (g_nf (gf (do_ev e s)) = false -> g_nf (gf s) = false) /\
  (g_coll (gf (do_ev e s)) = false -> g_coll (gf s) = false).
Proof.
  intros e s. destruct e; cbn [do_ev]; unfold push_ntfn, do_call, do_ntfn;
  try rewrite start_gf;
  blast; autorewrite with frame; rewrite ?start_gf; projs;
  (split; intros H; try apply orb_false_elim in H; try tauto; auto).
  all: try (unfold recv_update, settle in *; revert H; blast; auto).
  all: try discriminate.
Qed.

Lemma do_ev_ni : forall e s, pc s <> PIdle -> pc (do_ev e s) <> PIdle.
Proof.
  intros e s Hn Hp. destruct e; cbn [do_ev] in Hp.
  - revert Hp. unfold push_ntfn. blast; auto.
  - revert Hp. unfold push_ntfn. blast; auto.
  - destruct (pc s) eqn:E; congruence.
  - revert Hp. destruct (pend s); [auto|].
    destruct (pc s) eqn:E; projs; try congruence.
    + apply recv_update_ni.
    + apply recv_wait_ni.
  - apply do_call_idle in Hp as E. rewrite E in Hp. auto.
  - apply do_ntfn_idle in Hp as E. rewrite E in Hp. auto.
  - revert Hp. destruct (pc s) eqn:E; try congruence.
    destruct (armed s); [apply retry_loop_ni | congruence].
  - auto.
  - revert Hp. destruct (pc s) eqn:E; projs; congruence.
Qed.

(* ------------------------------------------- the monitor follows the model *)
Lemma walk_step_after : forall t c t', walk_step t c = Some t' -> t' = after_cb c.
Proof.
  intros t [id prev k txs|id prev k] t'; cbn;
  match goal with |- context [if ?b then _ else _] => destruct b end; intros H; inversion H; reflexivity.
Qed.

Lemma mon_cb_told : forall m c t, mtold m = Some t ->
  mtold (fst (fst (mon_cb m c))) = Some (after_cb c) /\
  mchain (fst (fst (mon_cb m c))) = mchain m /\
  snd (fst (mon_cb m c)) = match walk_step t c with Some _ => true | None => false end.
Proof.
  intros m c t H. unfold mon_cb. rewrite H.
  destruct c as [id prev k txs|id prev k].
  - destruct (lookup id (mblocks m)) as [[time btx]|]; [destruct (scan (mwatch m) btx)|]; cbn; auto.
  - cbn; auto.
Qed.

Lemma mon_cbs_walk : forall cbs m t t', mtold m = Some t -> walk_from t cbs = Some t' ->
  mtold (fst (fst (mon_cbs m cbs))) = Some t' /\
  mchain (fst (fst (mon_cbs m cbs))) = mchain m /\
  snd (fst (mon_cbs m cbs)) = true.
Proof.
  induction cbs as [|c r IH]; intros m t t' Hm Hw; cbn in *.
  - inversion Hw; subst. auto.
  - destruct (walk_step t c) as [t1|] eqn:E; [|discriminate].
    destruct (mon_cb_told m c t Hm) as (A & B & C). rewrite E in C.
    pose proof (walk_step_after _ _ _ E) as Et. subst t1.
    destruct (mon_cb m c) as [[m1 a] b] eqn:Em. cbn in A, B, C.
    destruct (IH m1 _ _ A Hw) as (A' & B' & C').
    destruct (mon_cbs m1 r) as [[m2 a'] b']. cbn in *. subst. rewrite B'. auto.
Qed.

Definition chain_rel (s : state) (m : mon) : Prop :=
  mchain m = map (fun h => (hid h, hh h)) (chain s).
Definition told_rel (s : state) (m : mon) : Prop :=
  match mtold m with
  | None => pc s = PIdle
  | Some t => pc s <> PIdle /\ t = told s
  end.

Lemma find_height_map : forall k l,
  find (fun x : N * Z => snd x =? k) (map (fun h => (hid h, hh h)) l) =
  option_map (fun h => (hid h, hh h)) (by_height k l).
Proof.
  unfold by_height. induction l as [|h r IH]; cbn; [reflexivity|].
  destruct (hh h =? k); [reflexivity | exact IH].
Qed.

Lemma start_at_told : forall c h k s, pend s = None -> told (start_at c h k s) = (hid h, k).
Proof. intros c h k s Hp. unfold start_at. projs. reflexivity. Qed.
Lemma start_at_ni : forall c h k s, pc (start_at c h k s) <> PIdle.
Proof. intros. unfold start_at. projs. discriminate. Qed.

Lemma mon_recv_told : forall m r, mtold (mon_recv m r) = mtold m /\ mchain (mon_recv m r) = mchain m.
Proof. intros m r. unfold mon_recv. destruct r; [destruct (mpend m)|]; cbn; auto. Qed.

Lemma chain_do_ev : forall e s m, chain_rel s m -> chain_rel (do_ev e s) (mon_env m e).
Proof.
  intros e s m R. unfold chain_rel in *. destruct e; cbn [do_ev mon_env].
  - destruct (chain s) as [|t r] eqn:E; cbn in R.
    + rewrite R. cbn. rewrite E. reflexivity.
    + rewrite R. unfold push_ntfn. blast; rewrite ?E; reflexivity.
  - destruct (chain s) as [|t [|t' r]] eqn:E; cbn in R; rewrite R; cbn; rewrite ?E; try reflexivity.
    unfold push_ntfn. blast; reflexivity.
  - destruct (pc s); destruct (mtold m); cbn; rewrite ?(proj1 (start_env c s)); try exact R.
    all: repeat match goal with |- context [match ?x with _ => _ end] => destruct x end; cbn;
      rewrite ?(proj1 (start_env c s)); exact R.
  - destruct (mtold m), (mpend m); cbn;
    (destruct (pend s); [exact R|]; destruct (pc s); projs;
     rewrite ?(proj1 (recv_update_env _ _ _)), ?(proj1 (recv_wait_env _ _ _)); exact R).
  - rewrite (proj1 (do_call_env r s)). exact R.
  - rewrite (proj1 (do_ntfn_env s)). exact R.
  - destruct (pc s); try exact R. destruct (armed s); [|exact R].
    rewrite (proj1 (retry_loop_env _)). exact R.
  - exact R.
  - destruct (pc s); exact R.
Qed.

Lemma mon_cbs_chain : forall cbs m, mchain (fst (fst (mon_cbs m cbs))) = mchain m.
Proof.
  induction cbs as [|c r IH]; intros m; cbn; [reflexivity|].
  destruct (mon_cb m c) as [[m1 a] b] eqn:Em.
  assert (E : mchain m1 = mchain m).
  { revert Em. unfold mon_cb. destruct (mtold m); [|intros H; inversion H; reflexivity].
    destruct c as [id prev k txs|id prev k].
    - destruct (lookup id (mblocks m)) as [[time btx]|]; [destruct (scan (mwatch m) btx)|];
        intros H; inversion H; reflexivity.
    - intros H; inversion H; reflexivity. }
  specialize (IH m1). destruct (mon_cbs m1 r) as [[m2 a'] b']. cbn in *. congruence.
Qed.

Lemma mon_env_told_some : forall m e t, mtold m = Some t -> mtold (mon_env m e) = Some t.
Proof.
  intros m e t H. destruct e; cbn [mon_env]; auto; rewrite ?H; auto.
  destruct (mpend m); cbn; auto.
Qed.

Lemma idle_stays : forall e s, pc s = PIdle -> (forall c, e <> EvStart c) -> pc (do_ev e s) = PIdle.
Proof.
  intros e s Hp Hn. destruct e; cbn [do_ev].
  - unfold push_ntfn. blast; auto.
  - unfold push_ntfn. blast; auto.
  - exfalso. eapply Hn; reflexivity.
  - destruct (pend s); [exact Hp|]. rewrite Hp. exact Hp.
  - unfold do_call. rewrite Hp. exact Hp.
  - unfold do_ntfn. rewrite Hp. exact Hp.
  - rewrite Hp. exact Hp.
  - exact Hp.
  - rewrite Hp. exact Hp.
Qed.

Lemma mon_env_told_none : forall m e, mtold m = None -> (forall c, e <> EvStart c) ->
  mtold (mon_env m e) = None.
Proof.
  intros m e H Hn. destruct e; cbn [mon_env]; auto; rewrite ?H; auto.
  exfalso; eapply Hn; reflexivity.
Qed.

Lemma Inv_out : forall s, Inv s -> Inv (set_out [] false s).
Proof. intros s I. eapply Inv_frame; try exact I; try reflexivity. apply I. Qed.

Lemma step_rel : forall s m e,
  Inv s -> chain_rel s m -> told_rel s m ->
  g_coll (gf (fst (step s e))) = false ->
  Inv (fst (step s e)) /\
  chain_rel (fst (step s e)) (fst (fst (mon_step m (e, snd (step s e))))) /\
  told_rel (fst (step s e)) (fst (fst (mon_step m (e, snd (step s e))))) /\
  snd (fst (mon_step m (e, snd (step s e)))) = true.
Proof.
  intros s m e I Rc Rt Hc. unfold step in *. cbn [fst snd] in *.
  set (s0 := set_out [] false s) in *.
  pose proof (Inv_out s I) as I0. fold s0 in I0.
  destruct (do_ev_inv e s0 I0 eq_refl Hc) as (I' & W & Z).
  unfold mon_step. cbn [fst snd ocbs orecv].
  pose proof (chain_do_ev e s0 m Rc) as Rc'.
  pose proof (mon_cbs_chain (outq (do_ev e s0)) (mon_env m e)) as Ec.
  unfold told_rel in Rt. destruct (mtold m) as [t|] eqn:Em.
  - destruct Rt as [Hn ->].
    pose proof (mon_env_told_some m e _ Em) as Em'.
    destruct (mon_cbs_walk _ _ _ _ Em' (W Hn)) as (A & B & C).
    destruct (mon_cbs (mon_env m e) (outq (do_ev e s0))) as [[m1 a] b]. cbn [fst snd] in *.
    destruct (mon_recv_told m1 (recvd (do_ev e s0))) as [T1 T2].
    split; [exact I'|]. split; [unfold chain_rel in *; congruence|].
    split; [|exact C].
    unfold told_rel. rewrite T1, A. split; [apply do_ev_ni; exact Hn | reflexivity].
  - assert (Hp : pc s0 = PIdle) by exact Rt.
    rewrite (Z Hp) in *. cbn [mon_cbs fst snd] in *.
    destruct (mon_recv_told (mon_env m e) (recvd (do_ev e s0))) as [T1 T2].
    split; [exact I'|]. split; [unfold chain_rel in *; congruence|].
    split; [|reflexivity].
    unfold told_rel. rewrite T1.
    destruct e; try (rewrite mon_env_told_none; [apply idle_stays|..]; auto; discriminate).
    cbn [do_ev mon_env]. rewrite Hp, Em. unfold start.
    unfold chain_rel in Rc. rewrite Rc. rewrite !find_height_map.
    pose proof (i_idle _ I0 Hp) as Hpend.
    change (chain s0) with (chain s) in *.
    destruct (by_height (cstart c) (chain s)) as [h|]; cbn [option_map mtold fst snd].
    + split; [apply start_at_ni | rewrite start_at_told; auto].
    + destruct (by_height 0 (chain s)) as [g|]; cbn [option_map mtold fst snd].
      * split; [apply start_at_ni | rewrite start_at_told; auto].
      * rewrite Em. exact Hp.
Qed.

(* ------------- the pass over the queue of waitForBlocks is never left half done *)
(* outside a rewind started by that pass, nothing of the queue is left to apply *)
Definition wr_inv (s : state) : Prop :=
  match pc s with
  | PRew _ (UWait _) | PDone | PDead | PExit => True
  | _ => wrest s = []
  end.

Lemma wr_nil : forall s, wrest s = [] -> wr_inv s.
Proof. intros s H. unfold wr_inv. destruct (pc s); auto. destruct c; auto. Qed.

Lemma wr_frame : forall s s', pc s' = pc s -> wrest s' = wrest s -> wr_inv s -> wr_inv s'.
Proof. unfold wr_inv; intros s s' E1 E2; rewrite E1, E2; auto. Qed.

Lemma apply_q_wr : forall ph q s, wr_inv (apply_q ph q s).
Proof.
  induction q as [|u r IH]; intros s; cbn [apply_q].
  - apply wr_nil. unfold enter_wait; projs; reflexivity.
  - destruct (_ || _); [apply IH | unfold wr_inv; projs; exact I].
Qed.
Lemma wait_top_wr : forall ph s, wrest s = [] -> wr_inv (wait_top ph s).
Proof.
  intros ph s H. unfold wait_top. destruct (pend s).
  - unfold recv_wait. apply apply_q_wr.
  - apply wr_nil. unfold enter_wait; projs; exact H.
Qed.
Lemma wait_settle_wr : forall s, wr_inv s -> wr_inv (wait_settle s).
Proof.
  intros s H. unfold wait_settle. destruct (pc s) eqn:E; try exact H.
  apply wait_top_wr. unfold wr_inv in H. rewrite E in H. exact H.
Qed.
Lemma wait_exit_wr : forall ph s, wr_inv (wait_exit ph s).
Proof.
  intros ph s. apply wr_nil. unfold wait_exit. destruct ph; [rewrite goto_top_wrest|]; projs; reflexivity.
Qed.

Lemma do_call_wr : forall r s, wr_inv s -> wr_inv (do_call r s).
Proof.
  intros r s H. unfold do_call. unfold wr_inv in H.
  destruct (pc s) eqn:E; try (unfold wr_inv; rewrite E; exact H);
    try (blast; first [ apply wr_nil; autorewrite with frame; projs; auto; fail
                      | apply wait_exit_wr | apply wait_top_wr; projs; auto ]; fail).
  (* PRew *)
  destruct (by_id (hprev (cur s)) (chain s)) as [p|]; [|unfold wr_inv; projs; exact I].
  destruct (target <? hh p).
  - destruct c; first [ apply wr_nil; projs; exact H | unfold wr_inv; projs; exact I ].
  - destruct c.
    + apply wr_nil; autorewrite with frame; projs; exact H.
    + apply wr_nil; autorewrite with frame; projs; exact H.
    + apply wait_settle_wr, apply_q_wr.
Qed.

Lemma do_ntfn_wr : forall s, wr_inv s -> wr_inv (do_ntfn s).
Proof.
  intros s H. unfold do_ntfn. unfold wr_inv in H.
  destruct (pc s) eqn:E; try (unfold wr_inv; rewrite E; exact H);
  blast; first [ apply wr_nil; autorewrite with frame; projs; auto; fail
               | apply wait_exit_wr | apply apply_q_wr
               | unfold wr_inv; projs; rewrite E; exact H ].
Qed.

Lemma do_ev_wr : forall e s, wr_inv s -> wr_inv (do_ev e s).
Proof.
  intros e s H. destruct e; cbn [do_ev].
  - unfold push_ntfn. blast; first [exact H | eapply wr_frame; [| |exact H]; reflexivity].
  - unfold push_ntfn. blast; first [exact H | eapply wr_frame; [| |exact H]; reflexivity].
  - destruct (pc s) eqn:E; try exact H. unfold start, start_at.
    blast; first [exact H | apply wr_nil; projs; reflexivity].
  - destruct (pend s); [exact H|].
    unfold wr_inv in H.
    destruct (pc s) eqn:E; try (unfold wr_inv; projs; rewrite E; exact H).
    + apply wr_nil. rewrite recv_update_wrest. exact H.
    + unfold recv_wait. apply apply_q_wr.
  - apply do_call_wr; exact H.
  - apply do_ntfn_wr; exact H.
  - unfold wr_inv in H. destruct (pc s) eqn:E; try (unfold wr_inv; rewrite E; exact H).
    destruct (armed s); [|unfold wr_inv; rewrite E; exact H].
    apply wr_nil. rewrite retry_loop_wrest. projs. exact H.
  - eapply wr_frame; [| |exact H]; reflexivity.
  - destruct (pc s) eqn:E; first [ unfold wr_inv; projs; exact I
                                 | eapply wr_frame; [| |exact H]; reflexivity ].
Qed.

Lemma run_flags : forall evs s,
  (g_nf (gf (fst (run s evs))) = false -> g_nf (gf s) = false) /\
  (g_coll (gf (fst (run s evs))) = false -> g_coll (gf s) = false).
Proof.
  induction evs as [|e r IH]; intros s; cbn [run fst] in *; [auto|].
  destruct (step s e) as [s1 o] eqn:Es. destruct (run s1 r) as [s2 os] eqn:Er. cbn [fst snd] in *.
  specialize (IH s1). rewrite Er in IH. destruct IH as [F1 C1].
  assert (s1 = do_ev e (set_out [] false s)) by (unfold step in Es; inversion Es; reflexivity).
  subst s1. destruct (do_ev_gf e (set_out [] false s)) as [A B].
  split; intros H; [apply (A (F1 H)) | apply (B (C1 H))].
Qed.

Lemma run_walk : forall evs s m,
  Inv s -> chain_rel s m -> told_rel s m ->
  g_coll (gf (fst (run s evs))) = false ->
  snd (fst (mon_run m (combine evs (snd (run s evs))))) = true.
Proof.
  induction evs as [|e r IH]; intros s m I Rc Rt Hc; cbn [run fst snd combine mon_run] in *; [reflexivity|].
  destruct (step s e) as [s1 o] eqn:Es. destruct (run s1 r) as [s2 os] eqn:Er.
  cbn [fst snd combine mon_run] in *.
  pose proof (run_flags r s1) as Fl. rewrite Er in Fl. pose proof (proj2 Fl Hc) as C1.
  pose proof (step_rel s m e I Rc Rt) as SR. rewrite Es in SR. cbn [fst snd] in SR.
  destruct (SR C1) as (I1 & Rc1 & Rt1 & A).
  destruct (mon_step m (e, o)) as [[m1 a] b]. cbn [fst snd] in *.
  specialize (IH s1 m1 I1 Rc1 Rt1). rewrite Er in IH. cbn [fst snd] in IH.
  specialize (IH Hc).
  destruct (mon_run m1 (combine r os)) as [[m2 a'] b']. cbn in *. subst. reflexivity.
Qed.

Lemma Inv_init : forall gid gtime, Inv (init gid gtime).
Proof.
  intros gid gtime. unfold init. split; [split|..]; unfold known, ids, parent_ok, SubOK, pc_inv, tcur; cbn.
  - discriminate.
  - auto.
  - intros h [<-|[]]; auto.
  - constructor; [intros [] | constructor].
  - intros h [<-|[]] H; cbn in H; lia.
  - intros h [<-|[]]; cbn; lia.
  - intros a b [<-|[]] [<-|[]]; reflexivity.
  - intros q n H; discriminate.
  - auto.
  - reflexivity.
  - intros h [].
  - reflexivity.
  - reflexivity.
Qed.

Theorem walk_all : forall gid gtime evs,
  let r := run (init gid gtime) evs in
  g_coll (gf (fst r)) = false ->
  walk_ok gid gtime (combine evs (snd r)) = true.
Proof.
  intros gid gtime evs r Hc. unfold walk_ok. subst r.
  apply run_walk; auto.
  - apply Inv_init.
  - reflexivity.
  - reflexivity.
Qed.

End WithFilter.

(* --------------------------- matching: the code's scan is the spec's scan *)
Definition proj_watch (x : watch) : swatch := (waddrs x, map fst (winputs x)).

Lemma pays_paid : forall A tid outs i, map fst (pays_outs A tid i outs) = paid A tid i outs.
Proof.
  induction outs as [|sc r IH]; intros i; cbn; [reflexivity|].
  rewrite map_app, IH. destruct (memN sc A); reflexivity.
Qed.

Lemma existsb_map : forall {A B} (f : B -> bool) (g : A -> B) l,
  existsb f (map g l) = existsb (fun x => f (g x)) l.
Proof. induction l as [|a l IH]; cbn; [reflexivity | rewrite IH; reflexivity]. Qed.

Lemma existsb_ext' : forall {A} (f g : A -> bool) l,
  (forall x, f x = g x) -> existsb f l = existsb g l.
Proof. induction l as [|a l IH]; intros H; cbn; [reflexivity | rewrite H, IH; auto]. Qed.

Lemma is_nil_map : forall {A B} (g : A -> B) l, is_nil (map g l) = is_nil l.
Proof. destruct l; reflexivity. Qed.

Lemma tx_step_scan : forall x t,
  fst (tx_step x t) = fst (scan_tx (proj_watch x) t) /\
  proj_watch (snd (tx_step x t)) = snd (scan_tx (proj_watch x) t).
Proof.
  intros x t. unfold tx_step, scan_tx, proj_watch, spends_watched, mem_op. cbn.
  rewrite <- pays_paid, is_nil_map, map_app. split; [|reflexivity].
  f_equal. apply existsb_ext'. intros i. rewrite existsb_map. reflexivity.
Qed.

Lemma extract_scan : forall txs x,
  fst (extract x txs) = fst (scan (proj_watch x) txs) /\
  proj_watch (snd (extract x txs)) = snd (scan (proj_watch x) txs).
Proof.
  induction txs as [|t r IH]; intros x; cbn [extract scan]; [split; reflexivity|].
  destruct (tx_step_scan x t) as [A B].
  destruct (tx_step x t) as [rel x1]. destruct (scan_tx (proj_watch x) t) as [rel' y1].
  cbn [fst snd] in *. subst.
  destruct (IH x1) as [C D].
  destruct (extract x1 r) as [l x2]. destruct (scan (proj_watch x1) r) as [l' y2].
  cbn [fst snd] in *. subst. split; reflexivity.
Qed.

(* the filter pre-check: if no watched script occurs in the block, nothing
   in it is relevant — for watch states whose inputs carry the script of
   their outpoint and whose scripts are all in the filter watch list *)
Definition watch_closed (x : watch) : Prop :=
  (forall a, In a (waddrs x) -> In a (wlist x)) /\
  (forall i, In i (winputs x) -> In (snd i) (wlist x)).

Lemma memN_In : forall x l, memN x l = true <-> In x l.
Proof.
  intros x l. unfold memN. rewrite existsb_exists. split.
  - intros (y & Hy & E). apply N.eqb_eq in E. subst. exact Hy.
  - intros H. exists x. split; [exact H | apply N.eqb_refl].
Qed.

Lemma pays_outs_nil : forall A tid outs i,
  (forall sc, In sc outs -> memN sc A = false) -> pays_outs A tid i outs = [].
Proof.
  induction outs as [|sc r IH]; intros i H; cbn; [reflexivity|].
  rewrite (H sc (or_introl eq_refl)). cbn. apply IH. intros; apply H; right; assumption.
Qed.

Lemma op_eqb_eq : forall a b, op_eqb a b = true -> a = b.
Proof.
  intros [a1 a2] [b1 b2]. unfold op_eqb. cbn. intros H. apply andb_prop in H.
  destruct H as [H1 H2]. apply N.eqb_eq in H1, H2. subst. reflexivity.
Qed.

Lemma nomatch_norelevant : forall scr txs x,
  watch_closed x ->
  (forall i, In i (winputs x) -> snd i = scr (fst i)) ->
  (forall t, In t txs -> forall i, In i (tins t) -> snd i = scr (fst i)) ->
  (forall sc, In sc (wlist x) -> forall t, In t txs ->
     ~ In sc (touts t) /\ ~ In sc (map snd (tins t))) ->
  extract x txs = ([], x).
Proof.
  induction txs as [|t r IH]; intros x [Ha Hi] Hs Ht Hn; cbn [extract]; [reflexivity|].
  assert (P : pays_outs (waddrs x) (txid t) 0%N (touts t) = []).
  { apply pays_outs_nil. intros sc Hsc. destruct (memN sc (waddrs x)) eqn:E; [|reflexivity].
    apply memN_In in E. exfalso. apply (proj1 (Hn sc (Ha _ E) t (or_introl eq_refl))). exact Hsc. }
  assert (S : spends_watched (winputs x) t = false).
  { unfold spends_watched. apply not_true_is_false. intros H.
    apply existsb_exists in H. destruct H as (i & Hin & H).
    apply existsb_exists in H. destruct H as (wi & Hw & E). apply op_eqb_eq in E.
    pose proof (Hs wi Hw) as E1. pose proof (Ht t (or_introl eq_refl) i Hin) as E2.
    apply (proj2 (Hn (snd wi) (Hi _ Hw) t (or_introl eq_refl))).
    apply in_map_iff. exists i. split; [congruence | exact Hin]. }
  unfold tx_step. rewrite P, S. cbn [is_nil negb orb map].
  rewrite !app_nil_r.
  replace {| waddrs := waddrs x; winputs := winputs x; wlist := wlist x |} with x by (destruct x; reflexivity).
  rewrite IH; auto.
  - split; assumption.
  - intros t' Ht' i Hi'. apply (Ht t'); [right|]; assumption.
  - intros sc Hsc t' Ht'. apply Hn; [exact Hsc | right; exact Ht'].
Qed.
