(* C09 — executable model of the rescan goroutine of /repo/rescan.go
   (rescanState.rescan, handleBlockConnected, handleBlockDisconnected,
   notifyBlock, notifyBlockWithFilter, extractBlockMatches, updateFilter,
   the retry queue) running against an environment that changes between any
   two ChainSource calls.  The model reproduces the code that exists,
   including the repair of finding F10: the catch-up branch checks that the
   block found by height builds on the current block and otherwise
   disconnects the current block and steps back to its parent.  Filter
   matching is a parameter [fmatch] of the step function (the honest filter
   is [matches]).  No proofs in this file.

   The waiting phase (rescanState.waitForBlocks, called twice at the entry
   of rescan(): until the chain source has reached the start height, then
   until it is current or has reached the end block) is part of the model:
   BestBlock, the predicate on the best block, Subscribe(best height), and a
   select over Update calls, block notifications and the quit channel.  An
   update received there is appended to the queue [wq] of the running
   waitForBlocks call and the WHOLE queue is applied (updateFilter, rewinds
   included) after every select case that falls through to the end of the
   loop body - the update case itself and a connected notification that
   does not satisfy the predicate; the queue is never cleared, so earlier
   updates are applied again (duplicating their watch-list entries).  A
   connected notification that satisfies the predicate leaves the loop
   without applying the queue.  Disconnected notifications are skipped.

   Granularity: the rescan goroutine is always blocked either inside one
   ChainSource call (pc says which; the call returns when the event [TCall r]
   happens, and its result is computed from the chain AS IT IS THEN), or in
   the select of the current branch ([PSelect]).  Environment events (block
   connected to / removed from the best chain, an Update call becoming
   pending) may happen at every such point. *)
From Coq Require Import ZArith NArith List Bool.
Import ListNotations.
Open Scope Z_scope.

(* ---------------------------------------------------------------- data *)

(* hashes are tokens; [hh] is the height of the block in the block tree *)
Record hdr := { hid : N; hprev : N; htime : Z; hh : Z }.

Definition outpoint := (N * N)%type.          (* txid token, output index *)

(* an input names the outpoint it spends and carries the script of that
   output (what the basic filter of the block commits to); scripts and
   addresses are the same tokens *)
Record tx := { txid : N; tins : list (outpoint * N); touts : list N }.
Record block := { bh : hdr; btxs : list tx }.

Inductive ntfn := NConn (h : hdr) | NDisc (h : hdr) (tip : hdr).

Record update := { uaddrs : list N; uinputs : list (outpoint * N); urewind : Z }.

(* options of NewRescan: StartBlock (by height), StartTime, EndBlock (by
   height, 0 = none), WatchAddrs, WatchInputs *)
Record config := { cstart : Z; cstartT : Z; cend : Z;
                   caddrs : list N; cinputs : list (outpoint * N) }.

Inductive res := ROk | RFail | RNotFound.

Inductive ev :=
| EvExtend (id : N) (time : Z) (txs : list tx)   (* a block joins the best chain *)
| EvRollback                                     (* the tip leaves the best chain *)
| EvStart (c : config)                           (* Rescan.Start *)
| EvUpdate (u : update)                          (* a Rescan.Update call blocks in its send *)
| TCall (r : res)                                (* the pending ChainSource call returns *)
| TRecvNtfn                                      (* select: a block notification *)
| TRetry                                         (* select: the retry timer *)
| EvCurrent (b : bool)                           (* ChainSource.IsCurrent() answers b from now on *)
| EvQuit.                                        (* the quit channel is closed *)

Inductive ctx := CNtfn | CRetry.                 (* who called handleBlockConnected *)
(* who called updateFilter; UWait ph: the queue loop of waitForBlocks number ph *)
Inductive uctx := USelect | UDrain | UWait (ph : bool).

Inductive pcT :=
| PIdle | PSelect
| PBest | PHdr | PBack | PSub | PFilC | PBlkC    (* catch-up branch; PBack: GetBlockHeader(prev) after a non-child *)
| PFH (h : hdr) (c : ctx) | PFil (h : hdr) (c : ctx) | PBlk (h : hdr) (c : ctx)
| PRew (target : Z) (c : uctx)                   (* updateFilter: GetBlockHeader(prev) *)
| PDone | PDead
| PExit                                          (* returned ErrRescanExit *)
(* waitForBlocks; ph = false: until the start height is reached, ph = true:
   until the chain source is current or the end block is reached *)
| PWBest (ph : bool)                             (* BestBlock *)
| PWSub (ph : bool) (k : Z)                      (* Subscribe(best height seen by BestBlock) *)
| PWait (ph : bool).                             (* the select *)

(* callbacks: OnFilteredBlockConnected(height, header, txs) and
   OnFilteredBlockDisconnected(height, header) *)
Inductive cb :=
| CbConn (id prev : N) (height : Z) (txs : list N)
| CbDisc (id prev : N) (height : Z).

(* where the goroutine is blocked after a step: call kind and argument
   1 BestBlock, 2 GetBlockHeaderByHeight h, 3 Subscribe h,
   4 GetFilterHeaderByHeight h, 5 GetCFilter id, 6 GetBlock id,
   7 GetBlockHeader id *)
Inductive blocked := BIdle | BSelect | BCall (kind arg : Z) | BDone | BDead | BExit.

Record obs := { ocbs : list cb; orecv : bool; oblk : blocked }.

Record watch := { waddrs : list N; winputs : list (outpoint * N); wlist : list N }.
Record rcfg := { startT : Z; endb : option (N * Z) }.
Record gflags := { g_nf : bool; g_coll : bool }.

Record state := {
  (* environment *)
  chain : list hdr;            (* best chain, TIP FIRST, never empty; a header carries its height *)
  seen : list block;           (* every block ever on the best chain *)
  pend : option update;        (* an Update call parked in its send *)
  sub : option (list ntfn);    (* notifications queued for the live subscription *)
  iscur : bool;                (* what ChainSource.IsCurrent() answers *)
  quitf : bool;                (* the quit channel is closed *)
  (* rescan goroutine *)
  pc : pcT;
  cur : hdr; curh : Z;         (* curHeader / curStamp *)
  current : bool; scanning : bool;
  retryq : list hdr; armed : bool;
  w : watch;
  wq : list update;            (* waitForBlocks: [updates], the queue of the running call *)
  wrest : list update;         (* waitForBlocks: what the running pass over the queue has still to apply *)
  cfg : rcfg;
  (* output of the running step *)
  outq : list cb; recvd : bool;
  (* ghost: never read by the behaviour *)
  told : N * Z;                (* block the caller was last told is current *)
  gf : gflags
}.

(* ------------------------------------------------------------- setters *)
Definition set_chain x s := {| chain := x; seen := seen s; pend := pend s; sub := sub s; iscur := iscur s; quitf := quitf s; pc := pc s; cur := cur s; curh := curh s; current := current s; scanning := scanning s; retryq := retryq s; armed := armed s; w := w s; wq := wq s; wrest := wrest s; cfg := cfg s; outq := outq s; recvd := recvd s; told := told s; gf := gf s |}.
Definition set_seen x s := {| chain := chain s; seen := x; pend := pend s; sub := sub s; iscur := iscur s; quitf := quitf s; pc := pc s; cur := cur s; curh := curh s; current := current s; scanning := scanning s; retryq := retryq s; armed := armed s; w := w s; wq := wq s; wrest := wrest s; cfg := cfg s; outq := outq s; recvd := recvd s; told := told s; gf := gf s |}.
Definition set_pend x s := {| chain := chain s; seen := seen s; pend := x; sub := sub s; iscur := iscur s; quitf := quitf s; pc := pc s; cur := cur s; curh := curh s; current := current s; scanning := scanning s; retryq := retryq s; armed := armed s; w := w s; wq := wq s; wrest := wrest s; cfg := cfg s; outq := outq s; recvd := recvd s; told := told s; gf := gf s |}.
Definition set_sub x s := {| chain := chain s; seen := seen s; pend := pend s; sub := x; iscur := iscur s; quitf := quitf s; pc := pc s; cur := cur s; curh := curh s; current := current s; scanning := scanning s; retryq := retryq s; armed := armed s; w := w s; wq := wq s; wrest := wrest s; cfg := cfg s; outq := outq s; recvd := recvd s; told := told s; gf := gf s |}.
Definition set_iscur x s := {| chain := chain s; seen := seen s; pend := pend s; sub := sub s; iscur := x; quitf := quitf s; pc := pc s; cur := cur s; curh := curh s; current := current s; scanning := scanning s; retryq := retryq s; armed := armed s; w := w s; wq := wq s; wrest := wrest s; cfg := cfg s; outq := outq s; recvd := recvd s; told := told s; gf := gf s |}.
Definition set_quitf x s := {| chain := chain s; seen := seen s; pend := pend s; sub := sub s; iscur := iscur s; quitf := x; pc := pc s; cur := cur s; curh := curh s; current := current s; scanning := scanning s; retryq := retryq s; armed := armed s; w := w s; wq := wq s; wrest := wrest s; cfg := cfg s; outq := outq s; recvd := recvd s; told := told s; gf := gf s |}.
Definition set_pc x s := {| chain := chain s; seen := seen s; pend := pend s; sub := sub s; iscur := iscur s; quitf := quitf s; pc := x; cur := cur s; curh := curh s; current := current s; scanning := scanning s; retryq := retryq s; armed := armed s; w := w s; wq := wq s; wrest := wrest s; cfg := cfg s; outq := outq s; recvd := recvd s; told := told s; gf := gf s |}.
Definition set_current x s := {| chain := chain s; seen := seen s; pend := pend s; sub := sub s; iscur := iscur s; quitf := quitf s; pc := pc s; cur := cur s; curh := curh s; current := x; scanning := scanning s; retryq := retryq s; armed := armed s; w := w s; wq := wq s; wrest := wrest s; cfg := cfg s; outq := outq s; recvd := recvd s; told := told s; gf := gf s |}.
Definition set_scanning x s := {| chain := chain s; seen := seen s; pend := pend s; sub := sub s; iscur := iscur s; quitf := quitf s; pc := pc s; cur := cur s; curh := curh s; current := current s; scanning := x; retryq := retryq s; armed := armed s; w := w s; wq := wq s; wrest := wrest s; cfg := cfg s; outq := outq s; recvd := recvd s; told := told s; gf := gf s |}.
Definition set_retryq x s := {| chain := chain s; seen := seen s; pend := pend s; sub := sub s; iscur := iscur s; quitf := quitf s; pc := pc s; cur := cur s; curh := curh s; current := current s; scanning := scanning s; retryq := x; armed := armed s; w := w s; wq := wq s; wrest := wrest s; cfg := cfg s; outq := outq s; recvd := recvd s; told := told s; gf := gf s |}.
Definition set_armed x s := {| chain := chain s; seen := seen s; pend := pend s; sub := sub s; iscur := iscur s; quitf := quitf s; pc := pc s; cur := cur s; curh := curh s; current := current s; scanning := scanning s; retryq := retryq s; armed := x; w := w s; wq := wq s; wrest := wrest s; cfg := cfg s; outq := outq s; recvd := recvd s; told := told s; gf := gf s |}.
Definition set_w x s := {| chain := chain s; seen := seen s; pend := pend s; sub := sub s; iscur := iscur s; quitf := quitf s; pc := pc s; cur := cur s; curh := curh s; current := current s; scanning := scanning s; retryq := retryq s; armed := armed s; w := x; wq := wq s; wrest := wrest s; cfg := cfg s; outq := outq s; recvd := recvd s; told := told s; gf := gf s |}.
Definition set_cfg x s := {| chain := chain s; seen := seen s; pend := pend s; sub := sub s; iscur := iscur s; quitf := quitf s; pc := pc s; cur := cur s; curh := curh s; current := current s; scanning := scanning s; retryq := retryq s; armed := armed s; w := w s; wq := wq s; wrest := wrest s; cfg := x; outq := outq s; recvd := recvd s; told := told s; gf := gf s |}.
Definition set_told x s := {| chain := chain s; seen := seen s; pend := pend s; sub := sub s; iscur := iscur s; quitf := quitf s; pc := pc s; cur := cur s; curh := curh s; current := current s; scanning := scanning s; retryq := retryq s; armed := armed s; w := w s; wq := wq s; wrest := wrest s; cfg := cfg s; outq := outq s; recvd := recvd s; told := x; gf := gf s |}.
Definition set_gf x s := {| chain := chain s; seen := seen s; pend := pend s; sub := sub s; iscur := iscur s; quitf := quitf s; pc := pc s; cur := cur s; curh := curh s; current := current s; scanning := scanning s; retryq := retryq s; armed := armed s; w := w s; wq := wq s; wrest := wrest s; cfg := cfg s; outq := outq s; recvd := recvd s; told := told s; gf := x |}.
Definition set_cur x k s := {| chain := chain s; seen := seen s; pend := pend s; sub := sub s; iscur := iscur s; quitf := quitf s; pc := pc s; cur := x; curh := k; current := current s; scanning := scanning s; retryq := retryq s; armed := armed s; w := w s; wq := wq s; wrest := wrest s; cfg := cfg s; outq := outq s; recvd := recvd s; told := told s; gf := gf s |}.
Definition set_out x r s := {| chain := chain s; seen := seen s; pend := pend s; sub := sub s; iscur := iscur s; quitf := quitf s; pc := pc s; cur := cur s; curh := curh s; current := current s; scanning := scanning s; retryq := retryq s; armed := armed s; w := w s; wq := wq s; wrest := wrest s; cfg := cfg s; outq := x; recvd := r; told := told s; gf := gf s |}.
Definition set_wq x r s := {| chain := chain s; seen := seen s; pend := pend s; sub := sub s; iscur := iscur s; quitf := quitf s; pc := pc s; cur := cur s; curh := curh s; current := current s; scanning := scanning s; retryq := retryq s; armed := armed s; w := w s; wq := x; wrest := r; cfg := cfg s; outq := outq s; recvd := recvd s; told := told s; gf := gf s |}.
Definition set_wrest x s := {| chain := chain s; seen := seen s; pend := pend s; sub := sub s; iscur := iscur s; quitf := quitf s; pc := pc s; cur := cur s; curh := curh s; current := current s; scanning := scanning s; retryq := retryq s; armed := armed s; w := w s; wq := wq s; wrest := x; cfg := cfg s; outq := outq s; recvd := recvd s; told := told s; gf := gf s |}.

Definition flag_nf s :=
  set_gf {| g_nf := true; g_coll := g_coll (gf s) |} s.
Definition flag_coll (b : bool) s :=
  set_gf {| g_nf := g_nf (gf s); g_coll := g_coll (gf s) || b |} s.

(* ------------------------------------------------------------- helpers *)
Definition memN (x : N) (l : list N) : bool := existsb (N.eqb x) l.
Definition op_eqb (a b : outpoint) : bool := N.eqb (fst a) (fst b) && N.eqb (snd a) (snd b).
Definition is_nil {A} (l : list A) : bool := match l with [] => true | _ => false end.

(* header store of the best chain: by height, by hash *)
Definition by_height (k : Z) (l : list hdr) : option hdr := find (fun h => hh h =? k) l.
Definition by_id (id : N) (l : list hdr) : option hdr := find (fun h => N.eqb (hid h) id) l.
Definition tip (s : state) : option hdr := hd_error (chain s).
Definition best (s : state) : Z := match chain s with t :: _ => hh t | [] => 0 end.
Fixpoint find_block (id : N) (l : list block) : option block :=
  match l with
  | [] => None
  | b :: r => if N.eqb (hid (bh b)) id then Some b else find_block id r
  end.

(* the callbacks; the ghost [told] follows what the caller has been told *)
Definition emit_conn (h : hdr) (k : Z) (txs : list N) (s : state) : state :=
  set_told (hid h, k) (set_out (outq s ++ [CbConn (hid h) (hprev h) k txs]) (recvd s) s).
Definition emit_disc (s : state) : state :=
  set_told (hprev (cur s), curh s - 1)
    (set_out (outq s ++ [CbDisc (hid (cur s)) (hprev (cur s)) (curh s)]) (recvd s) s).

(* -------------------------------------------- matching (extractBlockMatches) *)
(* paysWatchedAddr: every output paying a watched address becomes a watched
   input (and its script joins the filter watch list) *)
Fixpoint pays_outs (addrs : list N) (tid : N) (i : N) (outs : list N) : list (outpoint * N) :=
  match outs with
  | [] => []
  | sc :: r => (if memN sc addrs then [((tid, i), sc)] else []) ++ pays_outs addrs tid (i + 1)%N r
  end.
Definition spends_watched (wi : list (outpoint * N)) (t : tx) : bool :=
  existsb (fun i => existsb (fun x => op_eqb (fst i) (fst x)) wi) (tins t).
Definition tx_step (x : watch) (t : tx) : bool * watch :=
  let sp := spends_watched (winputs x) t in
  let nw := pays_outs (waddrs x) (txid t) 0%N (touts t) in
  (sp || negb (is_nil nw),
   {| waddrs := waddrs x; winputs := winputs x ++ nw; wlist := wlist x ++ map snd nw |}).
Fixpoint extract (x : watch) (txs : list tx) : list N * watch :=
  match txs with
  | [] => ([], x)
  | t :: r =>
    let '(rel, x1) := tx_step x t in
    let '(l, x2) := extract x1 r in
    ((if rel then [txid t] else []) ++ l, x2)
  end.

(* the honest basic filter of a block: output scripts and spent scripts *)
Definition block_scripts (b : block) : list N :=
  flat_map (fun t => touts t ++ map snd (tins t)) (btxs b).
Definition matches (wl : list N) (b : block) : bool :=
  existsb (fun sc => memN sc (block_scripts b)) wl.

(* ------------------------------------------------------- updateFilter *)
Definition add_update (u : update) (x : watch) : watch :=
  {| waddrs := waddrs x ++ uaddrs u;
     winputs := winputs x ++ uinputs u;
     wlist := wlist x ++ uaddrs u ++ map snd (uinputs u) |}.

Definition at_end (s : state) : bool :=
  match endb (cfg s) with
  | Some (eid, eh) => N.eqb (hid (cur s)) eid || ((0 <? eh) && (curh s =? eh))
  | None => false
  end.

(* the select of the current branch (quit closed: ErrRescanExit), or the
   catch-up branch, which never looks at the quit channel *)
Definition settle (s : state) : state :=
  set_pc (if current s then (if quitf s then PExit else PSelect) else PBest) s.

(* receive the pending update [u] (select case, or the drain loop of the
   catch-up branch): extend the watch state, start rewinding if asked *)
Definition recv_update (u : update) (c : uctx) (s : state) : state :=
  let s1 := set_w (add_update u (w s)) (set_out (outq s) true (set_pend None s)) in
  if (urewind u <=? 0) || (curh s1 <=? urewind u) then settle s1
  else set_pc (PRew (urewind u) c) (emit_disc s1).

(* rest of the drain loop of the catch-up branch, then BestBlock *)
Definition after_drain (s : state) : state :=
  match pend s with
  | Some u => recv_update u UDrain s
  | None => set_pc PBest s
  end.

(* top of rescanLoop *)
Definition goto_top (s : state) : state :=
  if at_end s then set_pc PDone s
  else match pend s with
       | Some u => recv_update u (if current s then USelect else UDrain) s
       | None => settle s
       end.

(* ------------------------------------------------------ waitForBlocks *)
(* the predicate of waitForBlocks number ph on block (id, height k) *)
Definition wpred (ph : bool) (id : N) (k : Z) (s : state) : bool :=
  if ph then
    iscur s ||
    match endb (cfg s) with
    | Some (eid, eh) => ((0 <? eh) && (eh <=? k)) || N.eqb id eid
    | None => false
    end
  else curh s <=? k.

(* the select of waitForBlocks *)
Definition enter_wait (ph : bool) (s : state) : state :=
  set_pc (if quitf s then PExit else PWait ph) s.

(* "for _, upd := range updates { updateFilter(upd) }": [q] is what is left
   of the pass (kept in [wrest] across the GetBlockHeader calls of a rewind) *)
Fixpoint apply_q (ph : bool) (q : list update) (s : state) : state :=
  match q with
  | [] => enter_wait ph (set_wrest [] s)
  | u :: r =>
    let s1 := set_wrest r (set_w (add_update u (w s)) s) in
    if (urewind u <=? 0) || (curh s1 <=? urewind u) then apply_q ph r s1
    else set_pc (PRew (urewind u) (UWait ph)) (emit_disc s1)
  end.

(* the update case of the select: queue it, then apply the whole queue *)
Definition recv_wait (ph : bool) (u : update) (s : state) : state :=
  let q := wq s ++ [u] in
  apply_q ph q (set_wq q q (set_out (outq s) true (set_pend None s))).

(* arriving at the select: an Update call parked in its send is received *)
Definition wait_top (ph : bool) (s : state) : state :=
  match pend s with
  | Some u => recv_wait ph u s
  | None => enter_wait ph s
  end.
Definition wait_settle (s : state) : state :=
  match pc s with
  | PWait ph => wait_top ph s
  | _ => s
  end.

(* waitForBlocks returns nil: the deferred Cancel, the queue is dropped;
   after the second wait rescan() computes [scanning] and enters rescanLoop *)
Definition wait_exit (ph : bool) (s : state) : state :=
  let s1 := set_wq [] [] (set_sub None s) in
  if ph then goto_top (set_scanning (startT (cfg s1) <? htime (cur s1)) (set_current false s1))
  else set_pc (PWBest true) s1.

(* ------------------------------------------------ handleBlockConnected *)
Definition scan_latch (h : hdr) (s : state) : state :=
  set_scanning (scanning s || (startT (cfg s) <? htime h)) s.

(* error other than errRetryBlock *)
Definition fail_other (s : state) : state := goto_top (set_current false s).

(* parent check, then GetFilterHeaderByHeight *)
Definition hbc (h : hdr) (c : ctx) (s : state) : state :=
  if negb (N.eqb (hprev h) (hid (cur s))) then fail_other s
  else set_pc (PFH h c) s.

Definition retry_loop (s : state) : state :=
  match retryq s with
  | [] => goto_top s
  | h :: _ => hbc h CRetry s
  end.

Definition advance (h : hdr) (s : state) : state := set_cur h (curh s + 1) s.

Definition success (c : ctx) (s : state) : state :=
  match c with
  | CNtfn => goto_top s
  | CRetry => retry_loop (set_retryq (tl (retryq s)) s)
  end.

Definition retry_later (h : hdr) (c : ctx) (s : state) : state :=
  match c with
  | CNtfn => goto_top (set_armed true (set_retryq (retryq s ++ [h]) s))
  | CRetry => goto_top (set_armed true s)
  end.

(* blockRetryQueue.remove *)
Fixpoint rq_remove (id : N) (l : list hdr) : list hdr :=
  match l with
  | [] => []
  | h :: r => if N.eqb (hid h) id then [] else h :: rq_remove id r
  end.

(* NotificationsSinceHeight of the block manager *)
Definition backlog (s : state) (k : Z) : option (list ntfn) :=
  if k <? 0 then None
  else if k =? 0 then Some []
  else if best s =? k then Some []
  else if best s <? k then None
  else Some (map NConn (rev (filter (fun h => k <? hh h) (chain s)))).

(* ------------------------------------------------------------ the step *)
Definition push_ntfn (n : ntfn) (s : state) : state :=
  match sub s with
  | Some q => set_sub (Some (q ++ [n])) s
  | None => s
  end.

Definition start_at (c : config) (h0 : hdr) (k : Z) (s : state) : state :=
  let e := if cend c =? 0 then None
           else match by_height (cend c) (chain s) with
                | Some h => Some (hid h, cend c)
                | None => None
                end in
  let s1 := set_cfg {| startT := cstartT c; endb := e |}
            (set_w {| waddrs := caddrs c; winputs := cinputs c;
                      wlist := caddrs c ++ map snd (cinputs c) |}
            (set_told (hid h0, k) (set_cur h0 k s))) in
  set_pc (PWBest false) (set_wq [] [] (set_scanning false (set_current false s1))).

(* newRescanState: start block by height, else genesis; rescan() begins with
   the BestBlock call of the first waitForBlocks *)
Definition start (c : config) (s : state) : state :=
  match by_height (cstart c) (chain s) with
  | Some h => start_at c h (cstart c) s
  | None => match by_height 0 (chain s) with
            | Some g => start_at c g 0 s
            | None => s
            end
  end.

Section WithFilter.
(* the answer of the fetched basic filter to "does any item of the watch
   list occur in this block?" (GCS MatchAny); [matches] is the honest one *)
Variable fmatch : list N -> block -> bool.

Definition do_call (r : res) (s : state) : state :=
  match pc s with
  | PBest =>
    if best s <? curh s + 1 then set_pc PSub s else set_pc PHdr s
  | PSub =>
    match backlog s (curh s) with
    | None => set_pc PDead s
    | Some q => goto_top (set_retryq [] (set_current true (set_sub (Some q) s)))
    end
  | PHdr =>
    match by_height (curh s + 1) (chain s) with
    | None => set_pc PDead s
    | Some h =>
      (* the block at the next height must build on the current block;
         otherwise the current block is stale (repair of F10) *)
      if negb (N.eqb (hprev h) (hid (cur s))) then set_pc PBack s
      else
      let s2 := scan_latch h (advance h s) in
      if negb (is_nil (wlist (w s2))) && scanning s2 then set_pc PFilC s2
      else goto_top (emit_conn h (curh s2) [] s2)
    end
  | PBack =>
    (* GetBlockHeader(curHeader.PrevBlock), then handleBlockDisconnected *)
    match by_id (hprev (cur s)) (chain s) with
    | None => set_pc PDead s
    | Some p => goto_top (set_cur p (curh s - 1) (emit_disc s))
    end
  | PFilC =>
    match r with
    | RFail => set_pc PDead s
    | RNotFound => goto_top (emit_conn (cur s) (curh s) [] (flag_nf s))
    | ROk =>
      match find_block (hid (cur s)) (seen s) with
      | None => set_pc PDead s
      | Some b =>
        if fmatch (wlist (w s)) b then set_pc PBlkC s
        else goto_top (emit_conn (cur s) (curh s) [] s)
      end
    end
  | PBlkC =>
    match r, find_block (hid (cur s)) (seen s) with
    | ROk, Some b =>
      let '(l, x) := extract (w s) (btxs b) in
      goto_top (emit_conn (cur s) (curh s) l (set_w x s))
    | _, _ => set_pc PDead s
    end
  | PFH h c =>
    if best s <? curh s + 1 then fail_other s
    else
      let s1 := scan_latch h s in
      if negb (scanning s1) || is_nil (wlist (w s1))
      then success c (advance h (emit_conn h (curh s1 + 1) [] s1))
      else set_pc (PFil h c) s1
  | PFil h c =>
    match r, find_block (hid h) (seen s) with
    | ROk, Some b =>
      if fmatch (wlist (w s)) b then set_pc (PBlk h c) s
      else success c (advance h (emit_conn h (curh s + 1) [] s))
    | _, _ => retry_later h c s
    end
  | PBlk h c =>
    match r, find_block (hid h) (seen s) with
    | ROk, Some b =>
      let '(l, x) := extract (w s) (btxs b) in
      success c (advance h (emit_conn h (curh s + 1) l (set_w x s)))
    | _, _ => fail_other s
    end
  | PRew target c =>
    match by_id (hprev (cur s)) (chain s) with
    | None => set_pc PDead s
    | Some p =>
      let k := hh p in
      let s1 := set_cur p k s in
      if target <? k then set_pc (PRew target c) (emit_disc s1)
      else match c with
           | USelect => goto_top (set_sub None (set_current false s1))
           | UDrain => after_drain s1     (* the drain loop goes on, no end check *)
           | UWait ph => wait_settle (apply_q ph (wrest s1) s1)   (* the pass over the queue goes on *)
           end
    end
  | PWBest ph =>
    match chain s with
    | t :: _ =>
      if wpred ph (hid t) (hh t) s then wait_exit ph s else set_pc (PWSub ph (hh t)) s
    | [] => set_pc PDead s
    end
  | PWSub ph k =>
    match backlog s k with
    | None => set_pc PDead s
    | Some q => wait_top ph (set_sub (Some q) s)
    end
  | _ => s
  end.

Definition do_ntfn (s : state) : state :=
  match pc s, sub s with
  | PSelect, Some (n :: q) =>
    let s1 := set_sub (Some q) s in
    match n with
    | NConn h =>
      if negb (is_nil (retryq s1)) then goto_top (set_retryq (retryq s1 ++ [h]) s1)
      else hbc h CNtfn s1
    | NDisc h t =>
      let s2 := set_retryq (rq_remove (hid h) (retryq s1)) s1 in
      if N.eqb (hid h) (hid (cur s2))
      then goto_top (set_cur t (curh s2 - 1) (emit_disc s2))
      else goto_top s2
    end
  | PWait ph, Some (n :: q) =>
    let s1 := set_sub (Some q) s in
    match n with
    | NConn h =>
      if wpred ph (hid h) (hh h) s1 then wait_exit ph s1
      else apply_q ph (wq s1) (set_wrest (wq s1) s1)
    | NDisc _ _ => s1
    end
  | _, _ => s
  end.

Definition do_ev (e : ev) (s : state) : state :=
  match e with
  | EvExtend id time txs =>
    match chain s with
    | [] => s
    | t :: _ =>
      let h := {| hid := id; hprev := hid t; htime := time; hh := hh t + 1 |} in
      let c := memN id (map (fun b => hid (bh b)) (seen s)) in
      push_ntfn (NConn h)
        (flag_coll c (set_seen (seen s ++ [{| bh := h; btxs := txs |}])
                               (set_chain (h :: chain s) s)))
    end
  | EvRollback =>
    match chain s with
    | t :: ((t' :: _) as r) => push_ntfn (NDisc t t') (set_chain r s)
    | _ => s
    end
  | EvStart c => match pc s with PIdle => start c s | _ => s end
  | EvUpdate u =>
    match pend s, pc s with
    | Some _, _ => s
    | None, PIdle => s
    | None, PDone => s
    | None, PDead => s
    | None, PExit => s
    | None, PSelect => recv_update u USelect s
    | None, PWait ph => recv_wait ph u s
    | None, _ => set_pend (Some u) s
    end
  | TCall r => do_call r s
  | TRecvNtfn => do_ntfn s
  | TRetry =>
    match pc s with
    | PSelect => if armed s then retry_loop (set_armed false s) else s
    | _ => s
    end
  | EvCurrent b => set_iscur b s
  | EvQuit =>
    match pc s with
    | PSelect => set_pc PExit (set_quitf true s)
    | PWait _ => set_pc PExit (set_quitf true s)
    | _ => set_quitf true s
    end
  end.

Definition blocked_of (s : state) : blocked :=
  match pc s with
  | PIdle => BIdle
  | PSelect => BSelect
  | PBest => BCall 1 0
  | PHdr => BCall 2 (curh s + 1)
  | PBack => BCall 7 (Z.of_N (hprev (cur s)))
  | PSub => BCall 3 (curh s)
  | PFH _ _ => BCall 4 (curh s + 1)
  | PFilC => BCall 5 (Z.of_N (hid (cur s)))
  | PFil h _ => BCall 5 (Z.of_N (hid h))
  | PBlkC => BCall 6 (Z.of_N (hid (cur s)))
  | PBlk h _ => BCall 6 (Z.of_N (hid h))
  | PRew _ _ => BCall 7 (Z.of_N (hprev (cur s)))
  | PDone => BDone
  | PDead => BDead
  | PExit => BExit
  | PWBest _ => BCall 1 0
  | PWSub _ k => BCall 3 k
  | PWait _ => BSelect
  end.

Definition step (s : state) (e : ev) : state * obs :=
  let s' := do_ev e (set_out [] false s) in
  (s', {| ocbs := outq s'; orecv := recvd s'; oblk := blocked_of s' |}).

(* the world before Rescan.Start: a chain holding only the genesis block *)
Definition genesis (gid : N) (gtime : Z) : hdr :=
  {| hid := gid; hprev := 0%N; htime := gtime; hh := 0 |}.
Definition init (gid : N) (gtime : Z) : state :=
  let g := genesis gid gtime in
  {| chain := [g]; seen := [{| bh := g; btxs := [] |}]; pend := None; sub := None;
     iscur := true; quitf := false;
     pc := PIdle; cur := g; curh := 0; current := false; scanning := false;
     retryq := []; armed := false;
     w := {| waddrs := []; winputs := []; wlist := [] |};
     wq := []; wrest := [];
     cfg := {| startT := 0; endb := None |};
     outq := []; recvd := false; told := (gid, 0);
     gf := {| g_nf := false; g_coll := false |} |}.

Fixpoint run (s : state) (evs : list ev) : state * list obs :=
  match evs with
  | [] => (s, [])
  | e :: r =>
    let '(s1, o) := step s e in
    let '(s2, os) := run s1 r in
    (s2, o :: os)
  end.
End WithFilter.
