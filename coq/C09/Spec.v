(* C09 — the property in its own vocabulary.  A trace is the list of
   (event, observation) pairs of one rescan; the specification looks only at
   the environment events (blocks joining / leaving the best chain, Start,
   Update calls) and at what the caller observes (callbacks, the return of
   an Update call).  It keeps its own picture of the chain (ids only) and of
   the watch state (addresses and outpoints — no filter watch list, no
   retry queue, no subscription). *)
From Coq Require Import ZArith NArith List Bool.
From Verif Require Import C09.Model.
Import ListNotations.
Open Scope Z_scope.

(* ------------------------------------------------------------ the walk *)
(* the caller's current block: id and height *)
Definition pos := (N * Z)%type.

Definition walk_step (t : pos) (c : cb) : option pos :=
  match c with
  | CbConn id prev k _ =>
    if N.eqb prev (fst t) && (k =? snd t + 1) then Some (id, k) else None
  | CbDisc id prev k =>
    if N.eqb id (fst t) && (k =? snd t) then Some (prev, k - 1) else None
  end.

Fixpoint walk_from (t : pos) (cbs : list cb) : option pos :=
  match cbs with
  | [] => Some t
  | c :: r => match walk_step t c with Some t' => walk_from t' r | None => None end
  end.

(* declarative reading: every connected block is a child of the current
   block (one higher), every disconnect removes exactly the current block
   and makes its parent current; hence nothing is skipped or repeated *)
Inductive Walk : pos -> list cb -> pos -> Prop :=
| WNil : forall t, Walk t [] t
| WConn : forall cid ch id txs r t',
    Walk (id, ch + 1) r t' -> Walk (cid, ch) (CbConn id cid (ch + 1) txs :: r) t'
| WDisc : forall cid ch prev r t',
    Walk (prev, ch - 1) r t' -> Walk (cid, ch) (CbDisc cid prev ch :: r) t'.

Definition valid_walk (start : pos) (cbs : list cb) : Prop := exists t, Walk start cbs t.

(* where the caller ends up after a callback, valid or not (to go on
   checking after a violation) *)
Definition after_cb (c : cb) : pos :=
  match c with
  | CbConn id _ k _ => (id, k)
  | CbDisc _ prev k => (prev, k - 1)
  end.

(* --------------------------------------------------------- relevance *)
Definition swatch := (list N * list outpoint)%type.   (* addresses, outpoints *)

Definition mem_op (o : outpoint) (l : list outpoint) : bool := existsb (op_eqb o) l.

Fixpoint paid (addrs : list N) (tid : N) (i : N) (outs : list N) : list outpoint :=
  match outs with
  | [] => []
  | sc :: r => (if memN sc addrs then [(tid, i)] else []) ++ paid addrs tid (i + 1)%N r
  end.

(* a transaction is relevant if it spends a watched outpoint or pays a
   watched address; the outputs paying watched addresses become watched *)
Definition scan_tx (x : swatch) (t : tx) : bool * swatch :=
  let sp := existsb (fun i => mem_op (fst i) (snd x)) (tins t) in
  let nw := paid (fst x) (txid t) 0%N (touts t) in
  (sp || negb (is_nil nw), (fst x, snd x ++ nw)).

Fixpoint scan (x : swatch) (txs : list tx) : list N * swatch :=
  match txs with
  | [] => ([], x)
  | t :: r =>
    let '(rel, x1) := scan_tx x t in
    let '(l, x2) := scan x1 r in
    ((if rel then [txid t] else []) ++ l, x2)
  end.

Fixpoint listN_eqb (a b : list N) : bool :=
  match a, b with
  | [], [] => true
  | x :: r, y :: q => N.eqb x y && listN_eqb r q
  | _, _ => false
  end.

(* -------------------------------------------------------- the monitor *)
Record mon := {
  mchain : list (N * Z);                    (* best chain, tip first: id, height *)
  mblocks : list (N * (Z * list tx));       (* every block ever connected: time, txs *)
  mtold : option pos;                       (* None before Start *)
  mwatch : swatch;
  mlatch : bool;                            (* a connected block was later than the start time *)
  mpend : option update;                    (* Update call that has not returned yet *)
  mstartT : Z
}.

Definition mon0 (gid : N) (gtime : Z) : mon :=
  {| mchain := [(gid, 0)]; mblocks := [(gid, (gtime, []))]; mtold := None;
     mwatch := ([], []); mlatch := false; mpend := None; mstartT := 0 |}.

Fixpoint lookup (id : N) (l : list (N * (Z * list tx))) : option (Z * list tx) :=
  match l with
  | [] => None
  | (k, v) :: r => if N.eqb k id then Some v else lookup id r
  end.

Definition mon_env (m : mon) (e : ev) : mon :=
  match e with
  | EvExtend id time txs =>
    {| mchain := match mchain m with
                 | (_, k) :: _ => (id, k + 1) :: mchain m
                 | [] => []
                 end;
       mblocks := mblocks m ++ [(id, (time, txs))];
       mtold := mtold m; mwatch := mwatch m; mlatch := mlatch m; mpend := mpend m;
       mstartT := mstartT m |}
  | EvRollback =>
    {| mchain := match mchain m with
                 | _ :: ((_ :: _) as r) => r
                 | l => l
                 end;
       mblocks := mblocks m;
       mtold := mtold m; mwatch := mwatch m; mlatch := mlatch m; mpend := mpend m;
       mstartT := mstartT m |}
  | EvStart c =>
    match mtold m with
    | Some _ => m
    | None =>
      let at_height k := find (fun x => snd x =? k) (mchain m) in
      let go st :=
        {| mchain := mchain m; mblocks := mblocks m; mtold := Some st;
           mwatch := (caddrs c, map fst (cinputs c)); mlatch := false; mpend := None;
           mstartT := cstartT c |} in
      match at_height (cstart c) with
      | Some x => go (fst x, cstart c)
      | None => match at_height 0 with Some x => go (fst x, 0) | None => m end
      end
    end
  | EvUpdate u =>
    match mtold m, mpend m with
    | Some _, None =>
      {| mchain := mchain m; mblocks := mblocks m; mtold := mtold m; mwatch := mwatch m;
         mlatch := mlatch m; mpend := Some u; mstartT := mstartT m |}
    | _, _ => m
    end
  | _ => m
  end.

(* one callback: (monitor after, walk ok, delivery ok) *)
Definition mon_cb (m : mon) (c : cb) : mon * bool * bool :=
  match mtold m with
  | None => (m, false, false)
  | Some t =>
    let wok := match walk_step t c with Some _ => true | None => false end in
    match c with
    | CbDisc _ _ _ =>
      ({| mchain := mchain m; mblocks := mblocks m; mtold := Some (after_cb c);
          mwatch := mwatch m; mlatch := mlatch m; mpend := mpend m; mstartT := mstartT m |},
       wok, true)
    | CbConn id _ _ txs =>
      match lookup id (mblocks m) with
      | None =>
        ({| mchain := mchain m; mblocks := mblocks m; mtold := Some (after_cb c);
            mwatch := mwatch m; mlatch := mlatch m; mpend := mpend m; mstartT := mstartT m |},
         wok, false)
      | Some (time, btx) =>
        let '(rel, x') := scan (mwatch m) btx in
        let latch' := mlatch m || (mstartT m <? time) in
        let full := listN_eqb txs rel in
        let skipped := negb latch' && is_nil txs in
        ({| mchain := mchain m; mblocks := mblocks m; mtold := Some (after_cb c);
            mwatch := if full then x' else if skipped then mwatch m else x';
            mlatch := latch'; mpend := mpend m; mstartT := mstartT m |},
         wok, full || skipped)
      end
    end
  end.

Fixpoint mon_cbs (m : mon) (cs : list cb) : mon * bool * bool :=
  match cs with
  | [] => (m, true, true)
  | c :: r =>
    let '(m1, a, b) := mon_cb m c in
    let '(m2, a', b') := mon_cbs m1 r in
    (m2, a && a', b && b')
  end.

Definition mon_recv (m : mon) (rcv : bool) : mon :=
  if rcv then
    match mpend m with
    | Some u =>
      {| mchain := mchain m; mblocks := mblocks m; mtold := mtold m;
         mwatch := (fst (mwatch m) ++ uaddrs u, snd (mwatch m) ++ map fst (uinputs u));
         mlatch := mlatch m; mpend := None; mstartT := mstartT m |}
    | None => m
    end
  else m.

(* one step of the trace: environment effect, then the callbacks in order,
   then the return of the Update call *)
Definition mon_step (m : mon) (eo : ev * obs) : mon * bool * bool :=
  let '(m1, a, b) := mon_cbs (mon_env m (fst eo)) (ocbs (snd eo)) in
  (mon_recv m1 (orecv (snd eo)), a, b).

Fixpoint mon_run (m : mon) (tr : list (ev * obs)) : mon * bool * bool :=
  match tr with
  | [] => (m, true, true)
  | eo :: r =>
    let '(m1, a, b) := mon_step m eo in
    let '(m2, a', b') := mon_run m1 r in
    (m2, a && a', b && b')
  end.

(* the two halves of C09 on a trace, and the whole *)
Definition walk_ok (gid : N) (gtime : Z) (tr : list (ev * obs)) : bool :=
  snd (fst (mon_run (mon0 gid gtime) tr)).
Definition complete_ok (gid : N) (gtime : Z) (tr : list (ev * obs)) : bool :=
  snd (mon_run (mon0 gid gtime) tr).
Definition holds (gid : N) (gtime : Z) (tr : list (ev * obs)) : bool :=
  walk_ok gid gtime tr && complete_ok gid gtime tr.

(* all callbacks of a trace, and the start position the specification
   derives from the environment events *)
Definition callbacks (tr : list (ev * obs)) : list cb := flat_map (fun eo => ocbs (snd eo)) tr.

(* hypotheses about the environment, stated on the events *)
(* every output has one script: inputs of blocks and watched inputs given by
   the caller carry the script of the outpoint they name *)
Definition tx_scripts_ok (scr : outpoint -> N) (t : tx) : Prop :=
  (forall i, In i (tins t) -> snd i = scr (fst i)) /\
  (forall k sc, nth_error (touts t) k = Some sc -> scr (txid t, N.of_nat k) = sc).
Definition ev_scripts_ok (scr : outpoint -> N) (e : ev) : Prop :=
  match e with
  | EvExtend _ _ txs => forall t, In t txs -> tx_scripts_ok scr t
  | EvStart c => forall i, In i (cinputs c) -> snd i = scr (fst i)
  | EvUpdate u => forall i, In i (uinputs u) -> snd i = scr (fst i)
  | _ => True
  end.
Definition scripts_ok (evs : list ev) : Prop :=
  exists scr, forall e, In e evs -> ev_scripts_ok scr e.
