(* C09 — the property theorems, and nothing else. *)
From Coq Require Import ZArith NArith List Bool Lia.
From Verif Require Import C09.Model C09.Spec C09.Proofs C09.ProofsC.
Import ListNotations.
Open Scope Z_scope.

(* WALK, for every history and every filter oracle.  Whatever the chain does
   (growth and reorganisations of any depth between any two ChainSource
   calls, also below the current block while the rescan is catching up),
   whatever filter and block fetches fail or answer, whenever Update calls
   (with or without rewind) arrive and whenever the retry timer fires: if
   block hashes do not collide, the callbacks the rescan delivered form a
   valid walk from its start block — every connected block is a child, one
   higher, of the block the caller was last told is current, every disconnect
   removes exactly that block.  [walk_ok] is the monitor that the
   correspondence run evaluates on the implementation's callbacks.
   (Before the repair of finding F10 this held only for histories in which
   the catch-up branch never adopted a non-child.) *)
Theorem C09_walk : forall fmatch gid gtime evs,
  let r := run fmatch (init gid gtime) evs in
  g_coll (gf (fst r)) = false ->
  walk_ok gid gtime (combine evs (snd r)) = true.
Proof. exact walk_all. Qed.
Print Assumptions C09_walk.

(* the boolean walk check is the declarative one *)
Theorem C09_walk_decl : forall cbs t t', walk_from t cbs = Some t' <-> Walk t cbs t'.
Proof. exact walk_from_spec. Qed.
Print Assumptions C09_walk_decl.

(* F10 regression: blocks 2,3,4 are announced while catching up; block 4 is
   replaced by 5,6 before the next GetBlockHeaderByHeight.  The repaired
   rescan sees that block 6 (height 4, parent 5) does not build on block 4,
   looks up block 4's parent (3, still on the chain), disconnects block 4 and
   goes on with 5 and 6. *)
Definition f10_evs : list ev :=
  [EvExtend 2 100 []; EvExtend 3 100 []; EvExtend 4 100 [];
   EvStart {| cstart := 0; cstartT := 0; cend := 0; caddrs := []; cinputs := [] |};
   TCall ROk; TCall ROk; TCall ROk; TCall ROk; TCall ROk; TCall ROk;
   EvRollback; EvExtend 5 100 []; EvExtend 6 100 [];
   TCall ROk; TCall ROk; TCall ROk; TCall ROk; TCall ROk; TCall ROk; TCall ROk]%N.
Example C09_f10_regression :
  let r := run matches (init 1 0) f10_evs in
  holds 1 0 (combine f10_evs (snd r)) = true /\
  callbacks (combine f10_evs (snd r)) =
    [CbConn 2 1 1 []; CbConn 3 2 2 []; CbConn 4 3 3 [];
     CbDisc 4 3 3; CbConn 5 3 3 []; CbConn 6 5 4 []]%N.
Proof. vm_compute. split; reflexivity. Qed.

(* COMPLETENESS, for every history.  For every filter oracle without false
   negatives (a watched script that occurs among the output scripts or spent
   scripts of the block is matched; false positives are allowed), whatever
   the chain does, whatever fetches fail, whenever Update calls (adding
   addresses or inputs, with or without rewind) arrive and whenever the retry
   timer fires: if block hashes do not collide, every outpoint has one script
   (inputs of blocks and watched inputs given by the caller carry the script
   of the outpoint they name) and the filter fetch of the catch-up branch was
   never answered "hash not found" (ghost flag g_nf: rescan.go then announces
   the block without looking at it), then every connected callback carries
   exactly the transactions of that block that pay an address watched at that
   moment or spend an outpoint watched at that moment — the addresses and
   inputs given at Start, added by every Update call that had returned, and
   every output that an earlier callback of this rescan found paying a watched
   address, rewinds included — or carries nothing while no connected block has
   been later than the start time.  [complete_ok] is the monitor that the
   correspondence run evaluates on the implementation's callbacks. *)
Theorem C09_complete_unless : forall fmatch,
  (forall wl b sc, In sc wl -> In sc (block_scripts b) -> fmatch wl b = true) ->
  forall gid gtime evs,
  let r := run fmatch (init gid gtime) evs in
  g_coll (gf (fst r)) = false -> g_nf (gf (fst r)) = false ->
  scripts_ok evs ->
  complete_ok gid gtime (combine evs (snd r)) = true.
Proof. exact complete_unless_scripts. Qed.
Print Assumptions C09_complete_unless.

(* both halves: the monitor [holds] of the correspondence run accepts every
   model trace under the hypotheses above *)
Theorem C09_holds_unless : forall fmatch,
  (forall wl b sc, In sc wl -> In sc (block_scripts b) -> fmatch wl b = true) ->
  forall gid gtime evs,
  let r := run fmatch (init gid gtime) evs in
  g_coll (gf (fst r)) = false -> g_nf (gf (fst r)) = false ->
  scripts_ok evs ->
  holds gid gtime (combine evs (snd r)) = true.
Proof. exact holds_unless. Qed.
Print Assumptions C09_holds_unless.

(* the two facts about matching the invariant rests on: what
   extractBlockMatches delivers for a fetched block, and the watch state it
   leaves, are the relevant transactions and the grown watch state of the
   specification; skipping a block none of whose scripts is on the filter
   watch list loses nothing *)
Theorem C09_extract_is_scan : forall txs x,
  fst (extract x txs) = fst (scan (proj_watch x) txs) /\
  proj_watch (snd (extract x txs)) = snd (scan (proj_watch x) txs).
Proof. exact extract_scan. Qed.
Print Assumptions C09_extract_is_scan.

Theorem C09_unmatched_block_irrelevant : forall scr txs x,
  watch_closed x ->
  (forall i, In i (winputs x) -> snd i = scr (fst i)) ->
  (forall t, In t txs -> forall i, In i (tins t) -> snd i = scr (fst i)) ->
  (forall sc, In sc (wlist x) -> forall t, In t txs ->
     ~ In sc (touts t) /\ ~ In sc (map snd (tins t))) ->
  extract x txs = ([], x).
Proof. exact nomatch_norelevant. Qed.
Print Assumptions C09_unmatched_block_irrelevant.

(* Non-vacuity.  The hypotheses are satisfiable: the honest filter has no
   false negatives, and so has the filter that matches everything.  A history
   with a catch-up, a subscription, a failed filter fetch that is retried, a
   reorganisation at the tip while current (one disconnect, two connects), an
   update with rewind and a transaction paying a watched address whose output
   is spent two blocks later meets all hypotheses of the theorems, is accepted
   by both monitors and delivers the transactions — with either filter. *)
Example C09_honest_filter_ok : forall wl b sc,
  In sc wl -> In sc (block_scripts b) -> matches wl b = true.
Proof. exact matches_complete. Qed.

Definition t1 : tx := {| txid := 101; tins := [((900, 0), 2)]; touts := [7] |}%N.
Definition t2 : tx := {| txid := 102; tins := [((101, 0), 7)]; touts := [3] |}%N.
Definition nv_evs : list ev :=
  [EvExtend 2 100 []; EvExtend 3 200 [t1];
   EvStart {| cstart := 0; cstartT := 50; cend := 0; caddrs := [7%N]; cinputs := [] |};
   TCall ROk; TCall ROk; TCall ROk;                 (* block 2, filter: no match *)
   TCall ROk; TCall ROk; TCall ROk; TCall ROk;      (* block 3, filter, block: t1 *)
   TCall ROk; TCall ROk;                            (* best, subscribe *)
   EvExtend 4 300 []; EvExtend 5 400 [t2];
   TRecvNtfn; TCall ROk; TCall RFail;               (* block 4: filter fetch fails *)
   TRecvNtfn;                                       (* block 5 stashed *)
   TRetry; TCall ROk; TCall ROk;                    (* block 4 *)
   TCall ROk; TCall ROk; TCall ROk;                 (* block 5: t2 spends t1's output *)
   EvRollback; EvExtend 6 500 []; EvExtend 7 600 [];
   TRecvNtfn; TRecvNtfn; TCall ROk; TCall ROk; TRecvNtfn; TCall ROk; TCall ROk;
   EvUpdate {| uaddrs := [3%N]; uinputs := []; urewind := 3 |};
   TCall ROk; TCall ROk; TCall ROk; TCall ROk; TCall ROk]%N.

Definition nv_scr (o : outpoint) : N :=
  (if op_eqb o (900, 0) then 2 else if op_eqb o (101, 0) then 7
   else if op_eqb o (102, 0) then 3 else 0)%N.

Example C09_nonvacuous_scripts : scripts_ok nv_evs.
Proof.
  exists nv_scr. intros e He. cbn in He.
  repeat (destruct He as [<-|He]; [cbn; auto|]); try contradiction.
  all: intros t [<-|[]]; split;
    [ intros i [<-|[]]; reflexivity
    | intros [|k] sc H; cbn in H; [inversion H; reflexivity | destruct k; discriminate] ].
Qed.

Example C09_nonvacuous :
  let r := run matches (init 1 0) nv_evs in
  g_coll (gf (fst r)) = false /\ g_nf (gf (fst r)) = false /\
  holds 1 0 (combine nv_evs (snd r)) = true /\
  callbacks (combine nv_evs (snd r)) =
    [CbConn 2 1 1 []; CbConn 3 2 2 [101]; CbConn 4 3 3 []; CbConn 5 4 4 [102];
     CbDisc 5 4 4; CbConn 6 4 4 []; CbConn 7 6 5 [];
     CbDisc 7 6 5; CbDisc 6 4 4; CbConn 6 4 4 []]%N.
Proof. vm_compute. repeat split; reflexivity. Qed.

(* a filter with false positives only: every block is fetched, same callbacks *)
Example C09_nonvacuous_false_positives :
  let fm := fun (_ : list N) (_ : block) => true in
  (forall wl b sc, In sc wl -> In sc (block_scripts b) -> fm wl b = true) /\
  let r := run fm (init 1 0) (nv_evs ++ [TCall ROk; TCall ROk]) in
  g_coll (gf (fst r)) = false /\ g_nf (gf (fst r)) = false /\
  holds 1 0 (combine (nv_evs ++ [TCall ROk; TCall ROk]) (snd r)) = true.
Proof. split; [reflexivity|]. vm_compute. repeat split; reflexivity. Qed.
