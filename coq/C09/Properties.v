(* C09 — the property theorems, and nothing else. *)
From Coq Require Import ZArith NArith List Bool Lia.
From Verif Require Import C09.Model C09.Spec C09.Proofs C09.ProofsC.
Import ListNotations.
Open Scope Z_scope.

(* WALK, for every history and every filter oracle.  Whatever the chain does
   (growth and reorganisations of any depth between any two ChainSource
   calls, also below the current block while the rescan is catching up, and
   while it still waits - rescanState.waitForBlocks - for the chain source
   to reach its start height / to become current / to reach the end block),
   whatever filter and block fetches fail or answer, whenever Update calls
   (with or without rewind, also during that wait) arrive, whenever the
   retry timer fires and whenever the quit channel is closed: if
   block hashes do not collide, the callbacks the rescan delivered form a
   valid walk from its start block — every connected block is a child, one
   higher, of the block the caller was last told is current, every disconnect
   removes exactly that block.  [walk_ok] is the monitor that the
   correspondence run evaluates on the implementation's callbacks.
   (Before the repair of finding F10 this held only for histories in which
   the catch-up branch never adopted a non-child.) *)
Theorem C09_walk : forall fmatch gid gtime evs,
  let r := run fmatch (init gid gtime) evs in
  g_coll (gf (fst r)) = false ->
  walk_ok gid gtime (combine evs (snd r)) = true.
Proof. exact walk_all. Qed.
Print Assumptions C09_walk.

(* the boolean walk check is the declarative one *)
Theorem C09_walk_decl : forall cbs t t', walk_from t cbs = Some t' <-> Walk t cbs t'.
Proof. exact walk_from_spec. Qed.
Print Assumptions C09_walk_decl.

(* F10 regression: blocks 2,3,4 are announced while catching up; block 4 is
   replaced by 5,6 before the next GetBlockHeaderByHeight.  The repaired
   rescan sees that block 6 (height 4, parent 5) does not build on block 4,
   looks up block 4's parent (3, still on the chain), disconnects block 4 and
   goes on with 5 and 6. *)
Definition f10_evs : list ev :=
  [EvExtend 2 100 []; EvExtend 3 100 []; EvExtend 4 100 [];
   EvStart {| cstart := 0; cstartT := 0; cend := 0; caddrs := []; cinputs := [] |};
   TCall ROk; TCall ROk;            (* the two BestBlock calls of waitForBlocks: nothing to wait for *)
   TCall ROk; TCall ROk; TCall ROk; TCall ROk; TCall ROk; TCall ROk;
   EvRollback; EvExtend 5 100 []; EvExtend 6 100 [];
   TCall ROk; TCall ROk; TCall ROk; TCall ROk; TCall ROk; TCall ROk; TCall ROk]%N.
Example C09_f10_regression :
  let r := run matches (init 1 0) f10_evs in
  holds 1 0 (combine f10_evs (snd r)) = true /\
  callbacks (combine f10_evs (snd r)) =
    [CbConn 2 1 1 []; CbConn 3 2 2 []; CbConn 4 3 3 [];
     CbDisc 4 3 3; CbConn 5 3 3 []; CbConn 6 5 4 []]%N.
Proof. vm_compute. split; reflexivity. Qed.

(* COMPLETENESS, for every history.  For every filter oracle without false
   negatives (a watched script that occurs among the output scripts or spent
   scripts of the block is matched; false positives are allowed), whatever
   the chain does, whatever fetches fail, whenever Update calls (adding
   addresses or inputs, with or without rewind) arrive - while the rescan
   walks, follows notifications, or still waits in waitForBlocks, in every
   position relative to the block notifications of that wait - and whenever
   the retry timer fires: if block hashes do not collide, every outpoint has one script
   (inputs of blocks and watched inputs given by the caller carry the script
   of the outpoint they name) and the filter fetch of the catch-up branch was
   never answered "hash not found" (ghost flag g_nf: rescan.go then announces
   the block without looking at it), then every connected callback carries
   exactly the transactions of that block that pay an address watched at that
   moment or spend an outpoint watched at that moment — the addresses and
   inputs given at Start, added by every Update call that had returned
   (observation [orecv]: the call returned nil; this includes every update
   accepted by the select of waitForBlocks before the walk began), and
   every output that an earlier callback of this rescan found paying a watched
   address, rewinds included — or carries nothing while no connected block has
   been later than the start time.  [complete_ok] is the monitor that the
   correspondence run evaluates on the implementation's callbacks. *)
Theorem C09_complete_unless : forall fmatch,
  (forall wl b sc, In sc wl -> In sc (block_scripts b) -> fmatch wl b = true) ->
  forall gid gtime evs,
  let r := run fmatch (init gid gtime) evs in
  g_coll (gf (fst r)) = false -> g_nf (gf (fst r)) = false ->
  scripts_ok evs ->
  complete_ok gid gtime (combine evs (snd r)) = true.
Proof. exact complete_unless_scripts. Qed.
Print Assumptions C09_complete_unless.

(* both halves: the monitor [holds] of the correspondence run accepts every
   model trace under the hypotheses above *)
Theorem C09_holds_unless : forall fmatch,
  (forall wl b sc, In sc wl -> In sc (block_scripts b) -> fmatch wl b = true) ->
  forall gid gtime evs,
  let r := run fmatch (init gid gtime) evs in
  g_coll (gf (fst r)) = false -> g_nf (gf (fst r)) = false ->
  scripts_ok evs ->
  holds gid gtime (combine evs (snd r)) = true.
Proof. exact holds_unless. Qed.
Print Assumptions C09_holds_unless.

(* UPDATES ARE IN EFFECT, for every history.  Under the hypotheses of
   C09_complete_unless: whenever the rescan is alive and not in the middle of
   a pass over the update queue of waitForBlocks (blocked in a GetBlockHeader
   call of a rewind started by that pass), the addresses and outpoints its
   watch state holds are, as sets, exactly those the specification counts as
   watched - the items given at Start, the items of EVERY Update call that
   has returned nil, wherever the rescan was when it received it (in the
   select of waitForBlocks before the first notification, between two
   notifications, right before the notification that ends the wait, in the
   drain loop of the catch-up branch, in the select of the current branch),
   and the outputs found paying watched addresses.  In particular nothing
   accepted during the wait is dropped when the wait ends.  ([weq]: same
   members; waitForBlocks applies its whole queue again after every update
   and every notification that does not end the wait, so the code's lists
   hold entries several times.) *)
Theorem C09_updates_in_effect_unless : forall fmatch,
  (forall wl b sc, In sc wl -> In sc (block_scripts b) -> fmatch wl b = true) ->
  forall gid gtime evs,
  let r := run fmatch (init gid gtime) evs in
  let s := fst r in
  let m := mon_final (mon0 gid gtime) (combine evs (snd r)) in
  g_coll (gf s) = false -> g_nf (gf s) = false ->
  scripts_ok evs ->
  pc s <> PDone -> pc s <> PDead -> pc s <> PExit ->
  (forall t ph, pc s <> PRew t (UWait ph)) ->
  weq (mwatch m) (proj_watch (w s)) /\ mpend m = pend s.
Proof. exact watch_is_spec_scripts. Qed.
Print Assumptions C09_updates_in_effect_unless.

(* relevance depends on the members of the watch state only *)
Theorem C09_scan_members_only : forall txs x y, weq x y ->
  fst (scan x txs) = fst (scan y txs) /\ weq (snd (scan x txs)) (snd (scan y txs)).
Proof. exact scan_weq. Qed.
Print Assumptions C09_scan_members_only.

(* WHAT IS RELEVANT IS IN THE DELIVERED SET, for any watch list.  The
   completeness monitor compares every connected callback with [scan] of the
   block under the specification's watch state (C09_complete_unless); [scan]
   contains every transaction of the block that pays a watched script or
   spends a watched outpoint - watched when the block is looked at, or
   created by an earlier transaction of the same block.  Relevance is by
   SCRIPT (as the code's filter matching and paysWatchedAddr are) and by
   outpoint: a watch list holding several addresses of one key (P2PK of the
   compressed / uncompressed key, P2PKH, P2WPKH, P2SH-P2WPKH - addresses
   whose EncodeAddress() strings may coincide) is a list of several scripts,
   each watched; repeated entries change nothing (C09_scan_members_only). *)
Theorem C09_relevant_tx_delivered : forall txs x t,
  In t txs -> pays_or_spends x t -> In (txid t) (fst (scan x txs)).
Proof. exact scan_delivers. Qed.
Print Assumptions C09_relevant_tx_delivered.

(* the two facts about matching the invariant rests on: what
   extractBlockMatches delivers for a fetched block, and the watch state it
   leaves, are the relevant transactions and the grown watch state of the
   specification; skipping a block none of whose scripts is on the filter
   watch list loses nothing *)
Theorem C09_extract_is_scan : forall txs x,
  fst (extract x txs) = fst (scan (proj_watch x) txs) /\
  proj_watch (snd (extract x txs)) = snd (scan (proj_watch x) txs).
Proof. exact extract_scan. Qed.
Print Assumptions C09_extract_is_scan.

Theorem C09_unmatched_block_irrelevant : forall scr txs x,
  watch_closed x ->
  (forall i, In i (winputs x) -> snd i = scr (fst i)) ->
  (forall t, In t txs -> forall i, In i (tins t) -> snd i = scr (fst i)) ->
  (forall sc, In sc (wlist x) -> forall t, In t txs ->
     ~ In sc (touts t) /\ ~ In sc (map snd (tins t))) ->
  extract x txs = ([], x).
Proof. exact nomatch_norelevant. Qed.
Print Assumptions C09_unmatched_block_irrelevant.

(* Non-vacuity.  The hypotheses are satisfiable: the honest filter has no
   false negatives, and so has the filter that matches everything.  A history
   with a catch-up, a subscription, a failed filter fetch that is retried, a
   reorganisation at the tip while current (one disconnect, two connects), an
   update with rewind and a transaction paying a watched address whose output
   is spent two blocks later meets all hypotheses of the theorems, is accepted
   by both monitors and delivers the transactions — with either filter. *)
Example C09_honest_filter_ok : forall wl b sc,
  In sc wl -> In sc (block_scripts b) -> matches wl b = true.
Proof. exact matches_complete. Qed.

Definition t1 : tx := {| txid := 101; tins := [((900, 0), 2)]; touts := [7] |}%N.
Definition t2 : tx := {| txid := 102; tins := [((101, 0), 7)]; touts := [3] |}%N.
Definition nv_evs : list ev :=
  [EvExtend 2 100 []; EvExtend 3 200 [t1];
   EvStart {| cstart := 0; cstartT := 50; cend := 0; caddrs := [7%N]; cinputs := [] |};
   TCall ROk; TCall ROk;                            (* waitForBlocks twice: nothing to wait for *)
   TCall ROk; TCall ROk; TCall ROk;                 (* block 2, filter: no match *)
   TCall ROk; TCall ROk; TCall ROk; TCall ROk;      (* block 3, filter, block: t1 *)
   TCall ROk; TCall ROk;                            (* best, subscribe *)
   EvExtend 4 300 []; EvExtend 5 400 [t2];
   TRecvNtfn; TCall ROk; TCall RFail;               (* block 4: filter fetch fails *)
   TRecvNtfn;                                       (* block 5 stashed *)
   TRetry; TCall ROk; TCall ROk;                    (* block 4 *)
   TCall ROk; TCall ROk; TCall ROk;                 (* block 5: t2 spends t1's output *)
   EvRollback; EvExtend 6 500 []; EvExtend 7 600 [];
   TRecvNtfn; TRecvNtfn; TCall ROk; TCall ROk; TRecvNtfn; TCall ROk; TCall ROk;
   EvUpdate {| uaddrs := [3%N]; uinputs := []; urewind := 3 |};
   TCall ROk; TCall ROk; TCall ROk; TCall ROk; TCall ROk]%N.

Definition nv_scr (o : outpoint) : N :=
  (if op_eqb o (900, 0) then 2 else if op_eqb o (101, 0) then 7
   else if op_eqb o (102, 0) then 3 else 0)%N.

Example C09_nonvacuous_scripts : scripts_ok nv_evs.
Proof.
  exists nv_scr. intros e He. cbn in He.
  repeat (destruct He as [<-|He]; [cbn; auto|]); try contradiction.
  all: intros t [<-|[]]; split;
    [ intros i [<-|[]]; reflexivity
    | intros [|k] sc H; cbn in H; [inversion H; reflexivity | destruct k; discriminate] ].
Qed.

Example C09_nonvacuous :
  let r := run matches (init 1 0) nv_evs in
  g_coll (gf (fst r)) = false /\ g_nf (gf (fst r)) = false /\
  holds 1 0 (combine nv_evs (snd r)) = true /\
  callbacks (combine nv_evs (snd r)) =
    [CbConn 2 1 1 []; CbConn 3 2 2 [101]; CbConn 4 3 3 []; CbConn 5 4 4 [102];
     CbDisc 5 4 4; CbConn 6 4 4 []; CbConn 7 6 5 [];
     CbDisc 7 6 5; CbDisc 6 4 4; CbConn 6 4 4 []]%N.
Proof. vm_compute. repeat split; reflexivity. Qed.

(* a filter with false positives only: every block is fetched, same callbacks *)
Example C09_nonvacuous_false_positives :
  let fm := fun (_ : list N) (_ : block) => true in
  (forall wl b sc, In sc wl -> In sc (block_scripts b) -> fm wl b = true) /\
  let r := run fm (init 1 0) (nv_evs ++ [TCall ROk; TCall ROk]) in
  g_coll (gf (fst r)) = false /\ g_nf (gf (fst r)) = false /\
  holds 1 0 (combine (nv_evs ++ [TCall ROk; TCall ROk]) (snd r)) = true.
Proof. split; [reflexivity|]. vm_compute. repeat split; reflexivity. Qed.

(* The waiting phase.  The chain source is not current when the rescan
   starts (start block 3 at height 2, the tip): the second waitForBlocks
   subscribes and waits.  Updates arrive in every position: one parked while
   Subscribe runs (received on arrival at the select), one before the first
   notification, one with a rewind between two notifications (block 3 is
   disconnected, a GetBlockHeader call), one right before the notification
   that ends the wait (the chain source has become current).  The walk then
   starts at block 2 and delivers the transactions paying the addresses /
   spending the outpoint added by each of the four updates, and the spend of
   an output found on the way. *)
Definition wa : tx := {| txid := 201; tins := [((900, 0), 2)]; touts := [7] |}%N.
Definition wb : tx := {| txid := 202; tins := [((901, 0), 2)]; touts := [8] |}%N.
Definition wc : tx := {| txid := 203; tins := [((950, 1), 4)]; touts := [3] |}%N.
Definition wd : tx := {| txid := 204; tins := [((902, 0), 2)]; touts := [9] |}%N.
Definition we : tx := {| txid := 205; tins := [((204, 0), 9)]; touts := [3] |}%N.
Definition wait_evs : list ev :=
  [EvExtend 2 100 []; EvExtend 3 200 [];
   EvCurrent false;
   EvStart {| cstart := 2; cstartT := 0; cend := 0; caddrs := []; cinputs := [] |};
   TCall ROk;                       (* BestBlock: the start height is reached *)
   TCall ROk;                       (* BestBlock: not current, no end block: Subscribe(2) *)
   EvUpdate {| uaddrs := [7%N]; uinputs := []; urewind := 0 |};
   TCall ROk;                       (* Subscribe returns, the parked update is received *)
   EvUpdate {| uaddrs := [8%N]; uinputs := []; urewind := 0 |};
   EvExtend 4 300 [wa; wb];
   TRecvNtfn;                       (* block 4: still not current; the queue is applied again *)
   EvUpdate {| uaddrs := []; uinputs := [((950, 1), 4)]%N; urewind := 1 |};
   TCall ROk;                       (* GetBlockHeader(parent) of the rewind *)
   EvExtend 5 400 [wc];
   TRecvNtfn;
   EvCurrent true;
   EvUpdate {| uaddrs := [9%N]; uinputs := []; urewind := 0 |};
   EvExtend 6 500 [wd];
   TRecvNtfn;                       (* block 6: current now, the wait ends *)
   TCall ROk; TCall ROk; TCall ROk;
   TCall ROk; TCall ROk; TCall ROk; TCall ROk;
   TCall ROk; TCall ROk; TCall ROk; TCall ROk;
   TCall ROk; TCall ROk; TCall ROk; TCall ROk;
   TCall ROk; TCall ROk;
   EvExtend 7 600 [we]; TRecvNtfn; TCall ROk; TCall ROk; TCall ROk]%N.

Example C09_wait_nonvacuous :
  let r := run matches (init 1 0) wait_evs in
  g_coll (gf (fst r)) = false /\ g_nf (gf (fst r)) = false /\
  holds 1 0 (combine wait_evs (snd r)) = true /\
  map orecv (snd r) =
    [false; false; false; false; false; false; false; true; true; false; false; true; false;
     false; false; false; true; false; false; false; false; false; false; false; false; false;
     false; false; false; false; false; false; false; false; false; false; false; false; false;
     false; false] /\
  callbacks (combine wait_evs (snd r)) =
    [CbDisc 3 2 2; CbConn 3 2 2 []; CbConn 4 3 3 [201; 202]; CbConn 5 4 4 [203];
     CbConn 6 5 5 [204]; CbConn 7 6 6 [205]]%N /\
  pc (fst r) = PSelect.
Proof. vm_compute. repeat split; reflexivity. Qed.

(* the shape of the seeded change this phase was added for: an update
   accepted by the select of waitForBlocks with no further notification
   before the one that ends the wait; the block after the wait pays the
   added address and is delivered with that transaction.  The second
   history ends the wait by reaching the end block (the chain source never
   becomes current), the third waits for the start height after a rollback
   (first waitForBlocks). *)
Definition wp : tx := {| txid := 301; tins := [((900, 0), 2)]; touts := [7] |}%N.
Definition seedshape_evs : list ev :=
  [EvExtend 2 100 []; EvCurrent false;
   EvStart {| cstart := 1; cstartT := 0; cend := 0; caddrs := []; cinputs := [] |};
   TCall ROk; TCall ROk; TCall ROk;
   EvUpdate {| uaddrs := [7%N]; uinputs := []; urewind := 0 |};
   EvCurrent true; EvExtend 3 200 []; TRecvNtfn;
   TCall ROk; TCall ROk;            (* block 3 is announced: BestBlock, header (watch list non-empty: filter) *)
   TCall ROk; TCall ROk; TCall ROk;
   EvExtend 4 300 [wp]; TRecvNtfn; TCall ROk; TCall ROk; TCall ROk]%N.
Example C09_wait_update_before_last_ntfn :
  let r := run matches (init 1 0) seedshape_evs in
  holds 1 0 (combine seedshape_evs (snd r)) = true /\
  callbacks (combine seedshape_evs (snd r)) = [CbConn 3 2 2 []; CbConn 4 3 3 [301]]%N.
Proof. vm_compute. split; reflexivity. Qed.

Definition endwait_evs : list ev :=
  [EvExtend 2 100 []; EvExtend 3 200 []; EvExtend 4 250 []; EvCurrent false;
   EvStart {| cstart := 1; cstartT := 0; cend := 3; caddrs := []; cinputs := [] |};
   EvRollback; EvRollback;          (* blocks 4 (the end block) and 3 leave the chain before BestBlock answers *)
   TCall ROk; TCall ROk; TCall ROk; (* height 1 >= 1; not current, best 1 < 3: Subscribe(1) *)
   EvExtend 5 300 []; TRecvNtfn;    (* height 2: the wait goes on *)
   EvUpdate {| uaddrs := [7%N]; uinputs := []; urewind := 0 |};
   EvExtend 6 400 [wp]; TRecvNtfn;  (* height 3 = end height: the wait ends *)
   TCall ROk; TCall ROk; TCall ROk;
   TCall ROk; TCall ROk; TCall ROk; TCall ROk]%N.
Example C09_wait_for_end_block :
  let r := run matches (init 1 0) endwait_evs in
  holds 1 0 (combine endwait_evs (snd r)) = true /\
  callbacks (combine endwait_evs (snd r)) = [CbConn 5 2 2 []; CbConn 6 5 3 [301]]%N /\
  pc (fst r) = PDone.
Proof. vm_compute. repeat split; reflexivity. Qed.

Definition startwait_evs : list ev :=
  [EvExtend 2 100 []; EvExtend 3 200 [];
   EvStart {| cstart := 2; cstartT := 0; cend := 0; caddrs := []; cinputs := [] |};
   EvRollback;                      (* the tip (the start block) leaves the chain: best 1 < start 2 *)
   TCall ROk; TCall ROk;            (* BestBlock, Subscribe(1) *)
   EvUpdate {| uaddrs := [7%N]; uinputs := []; urewind := 0 |};
   EvExtend 4 300 [wp]; TRecvNtfn;  (* height 2: the start height is reached, first wait ends *)
   TCall ROk;                       (* second waitForBlocks: current *)
   TCall ROk; TCall ROk;            (* walk: best 2 < 3: Subscribe(2), current *)
   EvExtend 5 400 []; TRecvNtfn;    (* block 5 does not build on the stale block 3 *)
   TCall ROk; TCall ROk; TCall ROk; (* BestBlock, header at 3 (not a child), parent of 3: block 2 *)
   TCall ROk; TCall ROk; TCall ROk; TCall ROk;
   TCall ROk; TCall ROk; TCall ROk]%N.
Example C09_wait_for_start_height :
  let r := run matches (init 1 0) startwait_evs in
  holds 1 0 (combine startwait_evs (snd r)) = true /\
  callbacks (combine startwait_evs (snd r)) =
    [CbDisc 3 2 2; CbConn 4 2 2 [301]; CbConn 5 4 3 []]%N.
Proof. vm_compute. repeat split; reflexivity. Qed.

(* Several addresses of one key.  Scripts 6 (P2PKH of key K) and 7 (P2PK of
   K) are both given at Start, 7 listed second and 6 twice; block 2 pays 6,
   block 3 pays 7, block 4 spends the output paying 7: all three
   transactions are delivered with their blocks.  (The correspondence run
   feeds the real rescan address objects of these forms, whose
   EncodeAddress() strings coincide, in both orders, in one WatchAddrs /
   AddAddrs call and across calls.) *)
Definition k6 : tx := {| txid := 401; tins := [((900, 0), 2)]; touts := [6] |}%N.
Definition k7 : tx := {| txid := 402; tins := [((901, 0), 2)]; touts := [7] |}%N.
Definition k7s : tx := {| txid := 403; tins := [((402, 0), 7)]; touts := [1] |}%N.
Definition keyforms_evs : list ev :=
  [EvExtend 2 100 [k6]; EvExtend 3 200 [k7]; EvExtend 4 300 [k7s];
   EvStart {| cstart := 0; cstartT := 0; cend := 0; caddrs := [6; 7; 6]%N; cinputs := [] |};
   TCall ROk; TCall ROk;
   TCall ROk; TCall ROk; TCall ROk; TCall ROk;
   TCall ROk; TCall ROk; TCall ROk; TCall ROk;
   TCall ROk; TCall ROk; TCall ROk; TCall ROk]%N.
Example C09_two_forms_of_one_key :
  let r := run matches (init 1 0) keyforms_evs in
  holds 1 0 (combine keyforms_evs (snd r)) = true /\
  callbacks (combine keyforms_evs (snd r)) =
    [CbConn 2 1 1 [401]; CbConn 3 2 2 [402]; CbConn 4 3 3 [403]]%N.
Proof. vm_compute. split; reflexivity. Qed.
