(* C09 — the property theorems, and nothing else. *)
From Coq Require Import ZArith NArith List Bool Lia.
From Verif Require Import C09.Model C09.Spec C09.Proofs.
Import ListNotations.
Open Scope Z_scope.

(* WALK, for every history.  Whatever the chain does (growth and
   reorganisations of any depth between any two ChainSource calls), whatever
   filter and block fetches fail, whenever Update calls (with or without
   rewind) arrive and whenever the retry timer fires: if block hashes do not
   collide and no catch-up step adopted a header that does not build on the
   current block (ghost flag of finding F10), the callbacks the rescan
   delivered form a valid walk from its start block — every connected block
   is a child, one higher, of the block the caller was last told is current,
   every disconnect removes exactly that block.  [walk_ok] is the monitor that
   the correspondence run evaluates on the implementation's callbacks. *)
Theorem C09_walk_unless : forall gid gtime evs,
  let r := run (init gid gtime) evs in
  g_coll (gf (fst r)) = false -> g_f10 (gf (fst r)) = false ->
  walk_ok gid gtime (combine evs (snd r)) = true.
Proof. exact walk_unless. Qed.
Print Assumptions C09_walk_unless.

(* the boolean walk check is the declarative one *)
Theorem C09_walk_decl : forall cbs t t', walk_from t cbs = Some t' <-> Walk t cbs t'.
Proof. exact walk_from_spec. Qed.
Print Assumptions C09_walk_decl.

(* F10: the faithful model REFUTES the walk half.  Blocks 2,3,4 are announced
   while catching up; block 4 is replaced by 5,6 before the next
   GetBlockHeaderByHeight; the rescan announces block 6 (height 4, parent 5)
   on top of block 4 and never disconnects block 4.  No hash collides. *)
Definition f10_evs : list ev :=
  [EvExtend 2 100 []; EvExtend 3 100 []; EvExtend 4 100 [];
   EvStart {| cstart := 0; cstartT := 0; cend := 0; caddrs := []; cinputs := [] |};
   TCall ROk; TCall ROk; TCall ROk; TCall ROk; TCall ROk; TCall ROk;
   EvRollback; EvExtend 5 100 []; EvExtend 6 100 [];
   TCall ROk; TCall ROk]%N.
Theorem C09_refuted : exists evs,
  let r := run (init 1 0) evs in
  g_coll (gf (fst r)) = false /\ walk_ok 1 0 (combine evs (snd r)) = false.
Proof. exists f10_evs. vm_compute. split; reflexivity. Qed.
Print Assumptions C09_refuted.

(* COMPLETENESS, partial.  Proved: (1) what extractBlockMatches delivers for a
   fetched block, and the watch state it leaves, are exactly the relevant
   transactions and the grown watch state of the specification (addresses and
   outpoints only); (2) skipping a block whose honest filter matches nothing
   on the filter watch list loses nothing, provided watched inputs carry the
   script of their outpoint.  Missing: the invariant that carries (1) and (2)
   through every step of the rescan machine (retry queue, rewinds, start
   time latch) up to [complete_ok] of whole traces; that part is checked on
   every implementation trace by the correspondence run only. *)
Theorem C09_complete_partial_match : forall txs x,
  fst (extract x txs) = fst (scan (proj_watch x) txs) /\
  proj_watch (snd (extract x txs)) = snd (scan (proj_watch x) txs).
Proof. exact extract_scan. Qed.
Print Assumptions C09_complete_partial_match.

Theorem C09_complete_partial_filter : forall scr txs x,
  watch_closed x ->
  (forall i, In i (winputs x) -> snd i = scr (fst i)) ->
  (forall t, In t txs -> forall i, In i (tins t) -> snd i = scr (fst i)) ->
  (forall sc, In sc (wlist x) -> forall t, In t txs ->
     ~ In sc (touts t) /\ ~ In sc (map snd (tins t))) ->
  extract x txs = ([], x).
Proof. exact nomatch_norelevant. Qed.
Print Assumptions C09_complete_partial_filter.

(* Non-vacuity: a history with a catch-up, a subscription, a failed filter
   fetch that is retried, a reorganisation at the tip while current (one
   disconnect, two connects), an update with rewind and a transaction paying
   a watched address whose output is spent two blocks later meets the
   hypotheses, is accepted by both monitors and delivers the transactions. *)
Definition t1 : tx := {| txid := 101; tins := [((900, 0), 2)]; touts := [7] |}%N.
Definition t2 : tx := {| txid := 102; tins := [((101, 0), 7)]; touts := [3] |}%N.
Definition nv_evs : list ev :=
  [EvExtend 2 100 []; EvExtend 3 200 [t1];
   EvStart {| cstart := 0; cstartT := 50; cend := 0; caddrs := [7%N]; cinputs := [] |};
   TCall ROk; TCall ROk; TCall ROk;                 (* block 2, filter: no match *)
   TCall ROk; TCall ROk; TCall ROk; TCall ROk;      (* block 3, filter, block: t1 *)
   TCall ROk; TCall ROk;                            (* best, subscribe *)
   EvExtend 4 300 []; EvExtend 5 400 [t2];
   TRecvNtfn; TCall ROk; TCall RFail;               (* block 4: filter fetch fails *)
   TRecvNtfn;                                       (* block 5 stashed *)
   TRetry; TCall ROk; TCall ROk;                    (* block 4 *)
   TCall ROk; TCall ROk; TCall ROk;                 (* block 5: t2 spends t1's output *)
   EvRollback; EvExtend 6 500 []; EvExtend 7 600 [];
   TRecvNtfn; TRecvNtfn; TCall ROk; TCall ROk; TRecvNtfn; TCall ROk; TCall ROk;
   EvUpdate {| uaddrs := [3%N]; uinputs := []; urewind := 3 |};
   TCall ROk; TCall ROk; TCall ROk; TCall ROk; TCall ROk]%N.
Example C09_nonvacuous :
  let r := run (init 1 0) nv_evs in
  g_coll (gf (fst r)) = false /\ g_f10 (gf (fst r)) = false /\ g_nf (gf (fst r)) = false /\
  holds 1 0 (combine nv_evs (snd r)) = true /\
  callbacks (combine nv_evs (snd r)) =
    [CbConn 2 1 1 []; CbConn 3 2 2 [101]; CbConn 4 3 3 []; CbConn 5 4 4 [102];
     CbDisc 5 4 4; CbConn 6 4 4 []; CbConn 7 6 5 [];
     CbDisc 7 6 5; CbDisc 6 4 4; CbConn 6 4 4 []]%N.
Proof. vm_compute. repeat split; reflexivity. Qed.
