(* HL (S2b) — proofs: the ring buffer with prev/skip pointers implements the
   abstract window. *)
From stdpp Require Import list.
From Coq Require Import ZArith Lia ZifyBool.
From Verif Require Import HL.Model HL.Spec.
Open Scope Z_scope.

(* ---------------- slot access ---------------- *)
Lemma inb_iff l i : inb l i = true <-> 0 <= i < Z.of_nat (length l).
Proof. unfold inb. lia. Qed.

Lemma setz_length l i x : length (setz l i x) = length l.
Proof. unfold setz. destruct (inb l i); [apply insert_length|reflexivity]. Qed.

Lemma getz_setz_eq l i x : 0 <= i < Z.of_nat (length l) -> getz (setz l i x) i = x.
Proof.
  intros Hi. unfold getz. assert (Hb : inb (setz l i x) i = true).
  { apply inb_iff. rewrite setz_length. exact Hi. }
  rewrite Hb. unfold setz. apply inb_iff in Hi as Hb2. rewrite Hb2.
  rewrite nth_lookup, list_lookup_insert by lia. reflexivity.
Qed.

Lemma getz_setz_ne l i j x : i <> j -> getz (setz l i x) j = getz l j.
Proof.
  intros Hne. unfold getz. assert (Hb : inb (setz l i x) j = inb l j).
  { unfold inb. rewrite setz_length. reflexivity. }
  rewrite Hb. destruct (inb l j) eqn:Hj; [|reflexivity].
  unfold setz. destruct (inb l i) eqn:Hi; [|reflexivity].
  apply inb_iff in Hj. apply inb_iff in Hi.
  rewrite !nth_lookup, list_lookup_insert_ne by lia. reflexivity.
Qed.

(* ---------------- the window in memory ---------------- *)
(* slot of the p-th window element (oldest = 0) of a ring starting at head *)
Definition slot (head cap p : Z) : Z := if head + p <? cap then head + p else head + p - cap.
Definition wslot (head cap : Z) (p : nat) : Z := slot head cap (Z.of_nat p).

Definition node_ok (sl : list node) (head cap : Z) (n : nat) (p : nat) (x : Z * Z) : Prop :=
  let nd := getz sl (wslot head cap p) in
  nh nd = x.1 /\ ntok nd = x.2 /\
  nprev nd = match p with O => None | S p' => Some (wslot head cap p') end /\
  (forall j, nanc nd = Some j -> exists q, (q < n)%nat /\ j = wslot head cap q).

Definition WinMem (sl : list node) (head cap : Z) (w : window) : Prop :=
  forall p x, w !! p = Some x -> node_ok sl head cap (length w) p x.

Record Inv (c : chain) (w : window) : Prop := {
  inv_cap : 1 <= maxSize c;
  inv_len : Z.of_nat (length (slots c)) = maxSize c;
  inv_bad : bad c = 0;
  inv_n : Z.of_nat (length w) <= maxSize c;
  inv_clen : clen c = Z.of_nat (length w);
  inv_empty : w = [] -> headPtr c = -1 /\ tailPtr c = -1;
  inv_ptrs : w <> [] ->
    0 <= headPtr c < maxSize c /\
    tailPtr c = slot (headPtr c) (maxSize c) (Z.of_nat (length w) - 1) /\
    (Z.of_nat (length w) < maxSize c -> headPtr c = 0);
  inv_mem : WinMem (slots c) (headPtr c) (maxSize c) w
}.

(* a chain as NewBoundedMemoryChain returns it (the slot contents do not
   matter: stale nodes are never reached) *)
Definition fresh (c : chain) (cap : Z) : Prop :=
  maxSize c = cap /\ headPtr c = -1 /\ tailPtr c = -1 /\ clen c = 0 /\
  Z.of_nat (length (slots c)) = cap /\ bad c = 0.

Lemma new_chain_fresh cap : 0 <= cap < 100000 -> fresh (new_chain cap) cap.
Proof.
  intros H. unfold fresh, new_chain. cbn.
  replace ((0 <=? cap) && (cap <? 100000)) with true by lia.
  rewrite replicate_length. lia.
Qed.

Lemma fresh_inv c cap : 1 <= cap -> fresh c cap -> Inv c [].
Proof.
  intros Hc (H1 & H2 & H3 & H4 & H5 & H6).
  constructor; cbn; try lia; try tauto.
  intros p x Hp. destruct p; discriminate Hp.
Qed.

(* ---------------- walking the pointers ---------------- *)
Section Walk.
Context (sl : list node) (head cap : Z) (w : window).
Hypothesis HM : WinMem sl head cap w.

Lemma prev_n_win : forall k p, (p < length w)%nat ->
  prev_n sl k (Some (wslot head cap p)) =
    if (k <=? p)%nat then Some (wslot head cap (p - k)) else None.
Proof.
  induction k as [|k IH]; intros p Hp.
  - cbn. replace (p - 0)%nat with p by lia. reflexivity.
  - cbn [prev_n]. destruct (lookup_lt_is_Some_2 w p Hp) as [x Hx].
    destruct (HM p x Hx) as (_ & _ & Hprev & _). rewrite Hprev.
    destruct p as [|p'].
    + destruct k; reflexivity.
    + rewrite IH by lia. replace (S p' - S k)%nat with (p' - k)%nat by lia.
      destruct (Nat.leb_spec k p'); destruct (Nat.leb_spec (S k) (S p')); try lia; reflexivity.
Qed.

Lemma prev_chain_win : forall p fuel, (p < length w)%nat -> (S p <= fuel)%nat ->
  prev_chain sl fuel (Some (wslot head cap p)) = reverse (take (S p) w).
Proof.
  induction p as [|p IH]; intros fuel Hp Hf; (destruct fuel as [|f]; [lia|]);
    destruct (lookup_lt_is_Some_2 w _ Hp) as [x Hx];
    destruct (HM _ x Hx) as (Hh & Ht & Hprev & _); cbn [prev_chain];
    rewrite Hh, Ht, Hprev, (take_S_r _ _ _ Hx), reverse_snoc; destruct x as [xh xt]; cbn [fst snd].
  - destruct f; reflexivity.
  - rewrite IH by lia. reflexivity.
Qed.

(* whatever the heights: a found node is a window node of the asked height *)
Lemma walk_in_window : forall fuel p t i, (p < length w)%nat ->
  walk sl fuel (Some (wslot head cap p)) t = WFound i ->
  exists q, (q < length w)%nat /\ i = wslot head cap q /\ nh (getz sl i) = t.
Proof.
  induction fuel as [|f IH]; intros p t i Hp Hw; [discriminate|].
  cbn [walk] in Hw.
  destruct (lookup_lt_is_Some_2 w p Hp) as [x Hx].
  destruct (HM p x Hx) as (Hh & _ & Hprev & Hanc).
  destruct (Z.eqb_spec (nh (getz sl (wslot head cap p))) t) as [He|Hne].
  { injection Hw as <-. exists p. auto. }
  assert (Hvia : walk sl f (nprev (getz sl (wslot head cap p))) t = WFound i ->
                 exists q, (q < length w)%nat /\ i = wslot head cap q /\ nh (getz sl i) = t).
  { rewrite Hprev. destruct p as [|p'].
    - destruct f; discriminate.
    - apply IH. lia. }
  destruct (nanc (getz sl (wslot head cap p))) as [j|] eqn:Ha; [|exact (Hvia Hw)].
  destruct (Hanc j eq_refl) as (q & Hq & ->).
  match type of Hw with (if ?b then _ else _) = _ => destruct b end; [|exact (Hvia Hw)].
  exact (IH q t i Hq Hw).
Qed.

(* increasing heights: the walk is exact and terminates within p+2 loop tests *)
Hypothesis HI : increasing w.

Lemma walk_exact : forall fuel p x t, w !! p = Some x -> (p + 2 <= fuel)%nat ->
  (exists q y, (q <= p)%nat /\ w !! q = Some y /\ y.1 = t /\
     walk sl fuel (Some (wslot head cap p)) t = WFound (wslot head cap q)) \/
  ((forall q y, (q <= p)%nat -> w !! q = Some y -> y.1 <> t) /\
     walk sl fuel (Some (wslot head cap p)) t = WNil).
Proof.
  induction fuel as [|f IH]; intros p x t Hx Hf; [lia|].
  cbn [walk].
  destruct (HM p x Hx) as (Hh & _ & Hprev & Hanc).
  rewrite Hh.
  destruct (Z.eqb_spec x.1 t) as [He|Hne].
  { left. exists p, x. repeat split; auto. }
  (* the prev step *)
  assert (Hvia :
    (exists q y, (q <= p)%nat /\ w !! q = Some y /\ y.1 = t /\
       walk sl f (nprev (getz sl (wslot head cap p))) t = WFound (wslot head cap q)) \/
    ((forall q y, (q <= p)%nat -> w !! q = Some y -> y.1 <> t) /\
       walk sl f (nprev (getz sl (wslot head cap p))) t = WNil)).
  { rewrite Hprev. destruct p as [|p'].
    - right. split.
      + intros q y Hq Hy. assert (q = 0)%nat as -> by lia. rewrite Hx in Hy. injection Hy as <-. exact Hne.
      + destruct f; [lia|reflexivity].
    - destruct (lookup_lt_is_Some_2 w p') as [z Hz]; [apply lookup_lt_Some in Hx; lia|].
      destruct (IH p' z t Hz ltac:(lia)) as [(q & y & Hq & Hy & Hyt & Hw)|(Hno & Hw)].
      + left. exists q, y. repeat split; auto; lia.
      + right. split; [|exact Hw].
        intros q y Hq Hy. destruct (Nat.eq_dec q (S p')) as [->|Hqn].
        * rewrite Hx in Hy. injection Hy as <-. exact Hne.
        * apply (Hno q y); [lia|exact Hy]. }
  destruct (nanc (getz sl (wslot head cap p))) as [j|] eqn:Ha; [|exact Hvia].
  destruct (Hanc j eq_refl) as (q & Hq & ->).
  destruct (lookup_lt_is_Some_2 w q Hq) as [y Hy].
  destruct (HM q y Hy) as (Hhq & _).
  rewrite Hhq.
  destruct ((getAncestorHeight x.1 >=? t) && (y.1 >=? t) && (y.1 <? x.1)) eqn:Hg; [|exact Hvia].
  assert (Hqp : (q < p)%nat).
  { destruct (Nat.lt_trichotomy q p) as [Hlt|[->|Hgt]]; [exact Hlt| |].
    - rewrite Hh in Hhq. lia.
    - pose proof (HI p q x y Hx Hy Hgt). lia. }
  destruct (IH q y t Hy ltac:(lia)) as [(q' & y' & Hq' & Hy' & Hyt & Hw)|(Hno & Hw)].
  - left. exists q', y'. repeat split; auto; lia.
  - right. split; [|exact Hw].
    intros q' y' Hq' Hy'. destruct (Nat.le_gt_cases q' q) as [Hle|Hgt].
    + exact (Hno q' y' Hle Hy').
    + pose proof (HI q q' y y' Hy Hy' Hgt). pose proof (Hno q y (Nat.le_refl q) Hy). lia.
Qed.

Lemma walk_no_fuel : forall fuel p t, (p < length w)%nat -> (p + 2 <= fuel)%nat ->
  walk sl fuel (Some (wslot head cap p)) t <> WFuel.
Proof.
  intros fuel p t Hp Hf. destruct (lookup_lt_is_Some_2 w p Hp) as [x Hx].
  destruct (walk_exact fuel p x t Hx Hf) as [(q & y & _ & _ & _ & ->)|(_ & ->)]; discriminate.
Qed.
End Walk.

(* ---------------- PushBack ---------------- *)
Lemma rem_step x cap : 1 <= cap -> -1 <= x < cap ->
  Z.rem (x + 1) cap = if x + 1 <? cap then x + 1 else 0.
Proof.
  intros Hc Hx. destruct (Z.ltb_spec (x + 1) cap).
  - apply Z.rem_small. lia.
  - replace (x + 1) with cap by lia. apply Z.rem_same. lia.
Qed.

(* the let-bound values of [push] *)
Definition p_pe (c : chain) : option Z :=
  let pe := if tailPtr c =? -1 then None else Some (tailPtr c) in
  if maxSize c =? 1 then None else pe.
Definition p_tail (c : chain) : Z := Z.rem (tailPtr c + 1) (maxSize c).
Definition p_hs (c : chain) : Z * list node :=
  if (p_tail c <=? headPtr c) || (headPtr c =? -1) then
    let h' := Z.rem (headPtr c + 1) (maxSize c) in
    (h', setz (slots c) h' (set_prev (getz (slots c) h') None))
  else (headPtr c, slots c).
Definition p_sl2 (c : chain) (h tok : Z) : list node :=
  setz (p_hs c).2 (p_tail c) {| nh := h; ntok := tok; nprev := p_pe c; nanc := None |}.
Definition p_len (c : chain) : Z := if clen c + 1 >? maxSize c then maxSize c else clen c + 1.
Definition p_r (c : chain) (h tok : Z) : wres :=
  match p_pe c with
  | None => WNil
  | Some _ => ancestor (p_sl2 c h tok) (fuel_of (p_sl2 c h tok)) (p_pe c) (getAncestorHeight h)
  end.

Lemma push_unfold c h tok : bad c = 0 -> 1 <= maxSize c ->
  push c h tok =
  match p_r c h tok with
  | WFuel => {| maxSize := maxSize c; headPtr := (p_hs c).1; tailPtr := p_tail c; clen := clen c;
                slots := p_sl2 c h tok; bad := 2 |}
  | WNil => {| maxSize := maxSize c; headPtr := (p_hs c).1; tailPtr := p_tail c; clen := p_len c;
               slots := p_sl2 c h tok; bad := 0 |}
  | WFound j => {| maxSize := maxSize c; headPtr := (p_hs c).1; tailPtr := p_tail c; clen := p_len c;
                   slots := setz (p_sl2 c h tok) (p_tail c)
                              (set_anc (getz (p_sl2 c h tok) (p_tail c)) (Some j)); bad := 0 |}
  end.
Proof.
  intros Hb Hc. unfold push. rewrite Hb. cbn [Z.eqb negb].
  replace (maxSize c <=? 0) with false by lia.
  unfold p_r, p_sl2, p_len, p_pe. fold (p_tail c).
  unfold p_hs.
  destruct ((p_tail c <=? headPtr c) || (headPtr c =? -1)); reflexivity.
Qed.

Local Ltac slot_lia := unfold wslot, slot in *; repeat (match goal with
  | |- context [?a <? ?b] => destruct (Z.ltb_spec a b)
  | H : context [?a <? ?b] |- _ => destruct (Z.ltb_spec a b)
  end); try lia.

(* state of the memory just before buildAncestor *)
Lemma push_pre c w h tok : Inv c w ->
  let w' := apush (maxSize c) w (h, tok) in
  let n' := length w' in
  WinMem (p_sl2 c h tok) (p_hs c).1 (maxSize c) w' /\
  (n' >= 1)%nat /\ Z.of_nat n' <= maxSize c /\
  p_len c = Z.of_nat n' /\
  0 <= (p_hs c).1 < maxSize c /\
  p_tail c = wslot (p_hs c).1 (maxSize c) (n' - 1) /\
  0 <= p_tail c < maxSize c /\
  (Z.of_nat n' < maxSize c -> (p_hs c).1 = 0) /\
  p_pe c = (if (2 <=? n')%nat then Some (wslot (p_hs c).1 (maxSize c) (n' - 2)) else None) /\
  Z.of_nat (length (p_sl2 c h tok)) = maxSize c /\
  nanc (getz (p_sl2 c h tok) (p_tail c)) = None.
Proof.
  intros [Hcap Hlen _ Hn Hclen Hemp Hptr HM]. cbn zeta.
  set (cap := maxSize c) in *.
  assert (Hsl2len : Z.of_nat (length (p_sl2 c h tok)) = cap).
  { unfold p_sl2, p_hs. destruct ((p_tail c <=? headPtr c) || (headPtr c =? -1)); cbn [snd];
      rewrite ?setz_length; exact Hlen. }
  destruct (Nat.eq_dec (length w) 0) as [E0|E0].
  - (* empty chain *)
    apply nil_length_inv in E0. subst w.
    destruct (Hemp eq_refl) as [Hh Ht].
    assert (Hpt : p_tail c = 0). { unfold p_tail. fold cap. rewrite Ht, (rem_step (-1) cap) by lia. slot_lia. }
    assert (Hhs : p_hs c = (0, setz (slots c) 0 (set_prev (getz (slots c) 0) None))).
    { unfold p_hs. rewrite Hpt, Hh. fold cap. cbn [Z.eqb orb Z.leb Z.compare].
      rewrite (rem_step (-1) cap) by lia. replace (-1 + 1 <? cap) with true by lia. reflexivity. }
    assert (Hpe : p_pe c = None). { unfold p_pe. rewrite Ht. cbn. destruct (maxSize c =? 1); reflexivity. }
    unfold apush. cbn [length]. replace (Z.of_nat 0 <? cap) with true by lia. cbn [app length].
    rewrite Hhs. cbn [fst snd].
    assert (Hg : getz (p_sl2 c h tok) 0 = {| nh := h; ntok := tok; nprev := None; nanc := None |}).
    { unfold p_sl2. rewrite Hhs, Hpt, Hpe. cbn [snd]. apply getz_setz_eq. rewrite setz_length. lia. }
    split; [|repeat split; try lia].
    + intros p x Hp. destruct p as [|p]; [|destruct p; discriminate Hp].
      injection Hp as <-. unfold node_ok. replace (wslot 0 cap 0) with 0 by slot_lia.
      rewrite Hg. cbn. repeat split; auto. discriminate.
    + unfold p_len; rewrite Hclen; fold cap; cbn [length]; match goal with |- context [?a >? ?b] => destruct (Z.gtb_spec a b) end; lia.
    + rewrite Hpt. slot_lia.
    + rewrite Hpe. reflexivity.
    + rewrite Hpt, Hg. reflexivity.
  - (* non-empty *)
    assert (Hne : w <> []) by (intros ->; apply E0; reflexivity).
    destruct (Hptr Hne) as (Hhd & Htl & Hpart).
    set (n := length w) in *. assert (Hn1 : (1 <= n)%nat) by (unfold n; lia).
    unfold apush. fold n. destruct (Z.ltb_spec (Z.of_nat n) cap) as [Hlt|Hfull].
    + (* room left: head = 0, slots 0..n-1 in use *)
      pose proof (Hpart Hlt) as Hh0.
      assert (Ht : tailPtr c = Z.of_nat n - 1) by (rewrite Htl, Hh0; slot_lia).
      assert (Hpt : p_tail c = Z.of_nat n).
      { unfold p_tail. fold cap. rewrite Ht, (rem_step (Z.of_nat n - 1) cap) by lia. slot_lia. }
      assert (Hhs : p_hs c = (0, slots c)).
      { unfold p_hs. rewrite Hpt, Hh0. replace ((Z.of_nat n <=? 0) || (0 =? -1)) with false by lia. reflexivity. }
      assert (Hpe : p_pe c = Some (Z.of_nat n - 1)).
      { unfold p_pe. fold cap. rewrite Ht. replace (Z.of_nat n - 1 =? -1) with false by lia.
        replace (cap =? 1) with false by lia. reflexivity. }
      rewrite app_length. cbn [length]. fold n. rewrite Hhs. cbn [fst snd].
      assert (Hg : getz (p_sl2 c h tok) (Z.of_nat n) =
                   {| nh := h; ntok := tok; nprev := Some (Z.of_nat n - 1); nanc := None |}).
      { unfold p_sl2. rewrite Hhs, Hpt, Hpe. cbn [snd]. apply getz_setz_eq. lia. }
      split; [|repeat split; try lia].
      * intros p x Hp. unfold node_ok. rewrite app_length. cbn [length]. fold n.
        destruct (Nat.lt_ge_cases p n) as [Hpn|Hpn].
        -- rewrite lookup_app_l in Hp by exact Hpn.
           destruct (HM p x Hp) as (H1 & H2 & H3 & H4). rewrite Hh0 in *. fold cap in H1, H2, H3, H4.
           assert (Hgs : getz (p_sl2 c h tok) (wslot 0 cap p) = getz (slots c) (wslot 0 cap p)).
           { unfold p_sl2. rewrite Hhs, Hpt. cbn [snd]. apply getz_setz_ne. slot_lia. }
           rewrite Hgs. repeat split; auto.
           intros j Hj. destruct (H4 j Hj) as (q & Hq & ->). exists q. split; [fold n in Hq; lia|reflexivity].
        -- assert (p = n) as ->.
           { apply lookup_lt_Some in Hp. rewrite app_length in Hp. cbn in Hp. fold n in Hp. lia. }
           rewrite lookup_app_r in Hp by (fold n; lia). fold n in Hp.
           replace (n - n)%nat with 0%nat in Hp by lia. injection Hp as <-.
           replace (wslot 0 cap n) with (Z.of_nat n) by slot_lia. rewrite Hg. cbn.
           repeat split; auto; [|discriminate].
           destruct n as [|n0]; [lia|]. f_equal. slot_lia.
      * unfold p_len; rewrite Hclen; fold n cap; cbn [length]; match goal with |- context [?a >? ?b] => destruct (Z.gtb_spec a b) end; lia.
      * rewrite Hpt. slot_lia.
      * rewrite Hpe. replace (2 <=? n + 1)%nat with true by (symmetry; apply Nat.leb_le; lia).
        f_equal. slot_lia.
      * rewrite Hpt, Hg. reflexivity.
    + (* full: the oldest is overwritten *)
      assert (Hnc : Z.of_nat n = cap) by (unfold n in *; lia).
      set (hd := headPtr c) in *.
      set (hd' := if hd + 1 <? cap then hd + 1 else 0).
      assert (Hpt : p_tail c = hd).
      { unfold p_tail. fold cap. rewrite Htl. fold hd n.
        rewrite (rem_step (slot hd cap (Z.of_nat n - 1)) cap) by slot_lia. slot_lia. }
      assert (Hhs : p_hs c = (hd', setz (slots c) hd' (set_prev (getz (slots c) hd') None))).
      { unfold p_hs. rewrite Hpt. fold hd cap. replace ((hd <=? hd) || (hd =? -1)) with true by lia.
        rewrite (rem_step hd cap) by lia. reflexivity. }
      assert (Hhd' : 0 <= hd' < cap) by (unfold hd'; slot_lia).
      assert (Hpe : p_pe c = if cap =? 1 then None else Some (tailPtr c)).
      { unfold p_pe. fold cap. replace (tailPtr c =? -1) with false; [reflexivity|].
        rewrite Htl. fold hd n. slot_lia. }
      assert (Hlw' : length (drop 1 (w ++ [(h, tok)])) = n).
      { rewrite drop_length, app_length. cbn [length]. fold n. lia. }
      rewrite Hlw'. rewrite Hhs. cbn [fst snd].
      assert (Hg : getz (p_sl2 c h tok) hd =
                   {| nh := h; ntok := tok; nprev := p_pe c; nanc := None |}).
      { unfold p_sl2. rewrite Hhs, Hpt. cbn [snd]. apply getz_setz_eq. rewrite setz_length. lia. }
      split; [|repeat split; try lia].
      * intros p x Hp. unfold node_ok. rewrite Hlw'.
        rewrite lookup_drop in Hp.
        destruct (Nat.lt_ge_cases (S p) n) as [Hpn|Hpn].
        -- rewrite lookup_app_l in Hp by (fold n; lia).
           destruct (HM (S p) x Hp) as (H1 & H2 & H3 & H4). fold hd cap n in H1, H2, H3, H4.
           assert (Hs : wslot hd' cap p = wslot hd cap (S p)) by (unfold hd'; slot_lia).
           rewrite Hs.
           assert (Hgs : getz (p_sl2 c h tok) (wslot hd cap (S p)) =
                         if wslot hd cap (S p) =? hd'
                         then set_prev (getz (slots c) (wslot hd cap (S p))) None
                         else getz (slots c) (wslot hd cap (S p))).
           { unfold p_sl2. rewrite Hhs, Hpt. cbn [snd]. rewrite getz_setz_ne by slot_lia.
             destruct (Z.eqb_spec (wslot hd cap (S p)) hd') as [He|Hd].
             - rewrite He. apply getz_setz_eq. lia.
             - apply getz_setz_ne. auto. }
           rewrite Hgs.
           assert (Hanc' : forall j, nanc (getz (slots c) (wslot hd cap (S p))) = Some j ->
                     exists q, (q < n)%nat /\ j = wslot hd' cap q).
           { intros j Hj. destruct (H4 j Hj) as (q & Hq & ->).
             destruct q as [|q0].
             - exists (n - 1)%nat. split; [lia|]. unfold hd'. slot_lia.
             - exists q0. split; [lia|]. unfold hd'. slot_lia. }
           destruct (Z.eqb_spec (wslot hd cap (S p)) hd') as [He|Hd].
           ++ cbn [set_prev nh ntok nprev nanc].
              assert (p = 0)%nat as -> by (unfold hd' in He; slot_lia).
              repeat split; auto.
           ++ destruct p as [|p0]; [exfalso; apply Hd; unfold hd'; slot_lia|].
              repeat split; auto. rewrite H3. f_equal. unfold hd'. slot_lia.
        -- assert (S p = n) as Hpe2.
           { apply lookup_lt_Some in Hp. rewrite app_length in Hp. cbn in Hp. fold n in Hp. lia. }
           rewrite lookup_app_r in Hp by (fold n; lia). fold n in Hp.
           replace (1 + p - n)%nat with 0%nat in Hp by lia. injection Hp as <-.
           replace (wslot hd' cap p) with hd by (unfold hd'; slot_lia).
           rewrite Hg. cbn [nh ntok nprev nanc fst snd]. repeat split; auto; [|discriminate].
           rewrite Hpe. destruct p as [|p0].
           ++ replace (cap =? 1) with true by lia. reflexivity.
           ++ replace (cap =? 1) with false by lia. f_equal. rewrite Htl. fold hd n. unfold hd'. slot_lia.
      * unfold p_len; rewrite Hclen; fold n cap; cbn [length]; match goal with |- context [?a >? ?b] => destruct (Z.gtb_spec a b) end; lia.
      * rewrite Hpt. unfold hd'. slot_lia.
      * rewrite Hpe. destruct (Nat.leb_spec 2 n) as [H2|H2].
        -- replace (cap =? 1) with false by lia. f_equal. rewrite Htl. fold hd n. unfold hd'. slot_lia.
        -- replace (cap =? 1) with true by lia. reflexivity.
      * rewrite Hpt, Hg. reflexivity.
Qed.

Lemma WinMem_set_anc sl head cap w p j :
  WinMem sl head cap w ->
  0 <= wslot head cap p < Z.of_nat (length sl) ->
  (exists q, (q < length w)%nat /\ j = wslot head cap q) ->
  WinMem (setz sl (wslot head cap p) (set_anc (getz sl (wslot head cap p)) (Some j))) head cap w.
Proof.
  intros HM Hin Hj p' x Hp'. destruct (HM p' x Hp') as (H1 & H2 & H3 & H4).
  unfold node_ok.
  destruct (Z.eq_dec (wslot head cap p) (wslot head cap p')) as [He|Hd].
  - assert (Hgg : getz (setz sl (wslot head cap p) (set_anc (getz sl (wslot head cap p)) (Some j)))
                       (wslot head cap p') = set_anc (getz sl (wslot head cap p')) (Some j)).
    { rewrite <- He. apply getz_setz_eq. exact Hin. }
    rewrite Hgg. cbn [set_anc nh ntok nprev nanc]. repeat split; auto.
    intros j' [= <-]. exact Hj.
  - rewrite getz_setz_ne by exact Hd. repeat split; auto.
Qed.

(* ancestor started inside the window stays inside, whatever the heights *)
Lemma ancestor_in_window sl head cap w fuel p t i :
  WinMem sl head cap w -> (p < length w)%nat ->
  ancestor sl fuel (Some (wslot head cap p)) t = WFound i ->
  exists q, (q < length w)%nat /\ i = wslot head cap q.
Proof.
  intros HM Hp Ha. unfold ancestor in Ha.
  destruct (t >? nh (getz sl (wslot head cap p))); [discriminate|].
  destruct (walk_in_window sl head cap w HM fuel p t i Hp Ha) as (q & Hq & Hi & _). eauto.
Qed.

(* PushBack preserves the invariant whenever it returns (any height) *)
Lemma push_inv c w h tok : Inv c w -> bad (push c h tok) = 0 ->
  Inv (push c h tok) (apush (maxSize c) w (h, tok)).
Proof.
  intros HI Hb. pose proof (push_pre c w h tok HI) as Hpre. cbn zeta in Hpre.
  destruct Hpre as (HM & Hn1 & Hncap & Hplen & Hhd & Htl & Htlr & Hpart & Hpe & Hl2 & Hanc0).
  rewrite push_unfold in * by (destruct HI; assumption).
  set (w' := apush (maxSize c) w (h, tok)) in *. set (n' := length w') in *.
  assert (Hw'ne : w' <> []) by (intros E; unfold n' in Hn1; rewrite E in Hn1; cbn in Hn1; lia).
  assert (Htl2 : p_tail c = slot (p_hs c).1 (maxSize c) (Z.of_nat n' - 1)).
  { rewrite Htl. unfold wslot. f_equal. lia. }
  destruct (p_r c h tok) as [j| |] eqn:Er; cbn [bad] in Hb; [| |discriminate].
  - (* skip pointer set *)
    assert (Hj : exists q, (q < n')%nat /\ j = wslot (p_hs c).1 (maxSize c) q).
    { unfold p_r in Er. rewrite Hpe in Er. destruct (2 <=? n')%nat eqn:E2; [|discriminate].
      apply Nat.leb_le in E2.
      eapply (ancestor_in_window _ _ _ w'); [exact HM| |exact Er]. fold n'; lia. }
    constructor; cbn [maxSize headPtr tailPtr clen slots bad]; try (destruct HI; assumption); try lia.
    + rewrite setz_length. exact Hl2.
    + intros E. contradiction.
    + intros _. auto.
    + rewrite Htl. apply WinMem_set_anc; [exact HM| |exact Hj]. rewrite <- Htl. lia.
  - constructor; cbn [maxSize headPtr tailPtr clen slots bad]; try (destruct HI; assumption); try lia.
    + intros E. contradiction.
    + intros _. auto.
Qed.

(* with increasing heights PushBack always returns *)
Lemma push_nohang c w h tok : Inv c w -> increasing (apush (maxSize c) w (h, tok)) ->
  bad (push c h tok) = 0.
Proof.
  intros HI Hinc. pose proof (push_pre c w h tok HI) as Hpre. cbn zeta in Hpre.
  destruct Hpre as (HM & Hn1 & Hncap & Hplen & Hhd & Htl & Htlr & Hpart & Hpe & Hl2 & Hanc0).
  rewrite push_unfold by (destruct HI; assumption).
  destruct (p_r c h tok) as [j| |] eqn:Er; cbn [bad]; try reflexivity.
  exfalso. unfold p_r in Er. rewrite Hpe in Er.
  set (w' := apush (maxSize c) w (h, tok)) in *. set (n' := length w') in *.
  destruct (2 <=? n')%nat eqn:E2; [|discriminate]. apply Nat.leb_le in E2.
  unfold ancestor in Er.
  destruct (getAncestorHeight h >? nh (getz (p_sl2 c h tok) (wslot (p_hs c).1 (maxSize c) (n' - 2))));
    [discriminate|].
  revert Er. apply (walk_no_fuel _ _ _ w' HM Hinc); [fold n'; lia|].
  unfold fuel_of. fold n'. lia.
Qed.

(* ---------------- the abstract side ---------------- *)
Lemma apush_length cap w x : 1 <= cap -> Z.of_nat (length w) <= cap ->
  Z.of_nat (length (apush cap w x)) <= cap /\ (1 <= length (apush cap w x))%nat.
Proof.
  intros Hc Hn. unfold apush. destruct (Z.ltb_spec (Z.of_nat (length w)) cap).
  - rewrite app_length. cbn. lia.
  - rewrite drop_length, app_length. cbn. lia.
Qed.

Lemma last_le_incr (w : window) i x b : increasing w -> w !! i = Some x -> last w = Some b -> x.1 <= b.1.
Proof.
  intros Hinc Hx Hb. rewrite last_lookup in Hb.
  pose proof (lookup_lt_Some _ _ _ Hx) as Hi.
  destruct (Nat.eq_dec i (pred (length w))) as [->|Hne].
  - rewrite Hx in Hb. injection Hb as <-. lia.
  - pose proof (Hinc i (pred (length w)) x b Hx Hb ltac:(lia)). lia.
Qed.

Lemma increasing_snoc (w : window) x :
  increasing w -> match last w with Some b => b.1 < x.1 | None => True end -> increasing (w ++ [x]).
Proof.
  intros Hinc Hl i j a b Ha Hb Hij.
  pose proof (lookup_lt_Some _ _ _ Hb) as Hj. rewrite app_length in Hj. cbn in Hj.
  destruct (Nat.lt_ge_cases j (length w)) as [Hjw|Hjw].
  - rewrite lookup_app_l in Ha, Hb by lia. exact (Hinc i j a b Ha Hb Hij).
  - assert (j = length w) as -> by lia.
    rewrite lookup_app_l in Ha by lia. rewrite lookup_app_r in Hb by lia.
    replace (length w - length w)%nat with 0%nat in Hb by lia. injection Hb as <-.
    destruct (last w) as [b|] eqn:El.
    + pose proof (last_le_incr w i a b Hinc Ha El). lia.
    + apply last_None in El. subst w. destruct i; discriminate Ha.
Qed.

Lemma increasing_drop (w : window) k : increasing w -> increasing (drop k w).
Proof.
  intros Hinc i j a b Ha Hb Hij. rewrite lookup_drop in Ha, Hb.
  apply (Hinc (k + i)%nat (k + j)%nat a b Ha Hb). lia.
Qed.

Lemma increasing_apush cap (w : window) x :
  increasing w -> match last w with Some b => b.1 < x.1 | None => True end -> increasing (apush cap w x).
Proof.
  intros Hinc Hl. unfold apush. destruct (Z.of_nat (length w) <? cap).
  - apply increasing_snoc; assumption.
  - apply increasing_drop, increasing_snoc; assumption.
Qed.

Lemma increasing_single (x : Z * Z) : increasing [x].
Proof. intros i j a b Ha Hb Hij. destruct i, j; try lia; destruct j; discriminate Hb. Qed.

Lemma increasing_nil : increasing [].
Proof. intros i j a b Ha. destruct i; discriminate Ha. Qed.

Lemma consecutive_snoc (w : window) x :
  consecutive w -> match last w with Some b => x.1 = b.1 + 1 | None => True end -> consecutive (w ++ [x]).
Proof.
  intros Hc Hl i a b Ha Hb.
  pose proof (lookup_lt_Some _ _ _ Hb) as Hj. rewrite app_length in Hj. cbn in Hj.
  destruct (Nat.lt_ge_cases (S i) (length w)) as [Hjw|Hjw].
  - rewrite lookup_app_l in Ha, Hb by lia. exact (Hc i a b Ha Hb).
  - assert (S i = length w) as Hi by lia.
    rewrite lookup_app_l in Ha by lia. rewrite lookup_app_r in Hb by lia.
    replace (S i - length w)%nat with 0%nat in Hb by lia. injection Hb as <-.
    rewrite last_lookup in Hl. replace (pred (length w)) with i in Hl by lia. rewrite Ha in Hl. exact Hl.
Qed.

Lemma consecutive_drop (w : window) k : consecutive w -> consecutive (drop k w).
Proof.
  intros Hc i a b Ha Hb. rewrite lookup_drop in Ha, Hb.
  apply (Hc (k + i)%nat a b Ha). rewrite <- Hb. f_equal. lia.
Qed.

Lemma consecutive_apush cap (w : window) x :
  consecutive w -> match last w with Some b => x.1 = b.1 + 1 | None => True end -> consecutive (apush cap w x).
Proof.
  intros Hc Hl. unfold apush. destruct (Z.of_nat (length w) <? cap).
  - apply consecutive_snoc; assumption.
  - apply consecutive_drop, consecutive_snoc; assumption.
Qed.

Lemma consecutive_single (x : Z * Z) : consecutive [x].
Proof. intros i a b Ha Hb. destruct i; discriminate Hb. Qed.

Lemma consecutive_nth (w : window) : consecutive w -> forall i f x,
  w !! 0%nat = Some f -> w !! i = Some x -> x.1 = f.1 + Z.of_nat i.
Proof.
  intros Hc. induction i as [|i IH]; intros f x Hf Hx.
  - rewrite Hf in Hx. injection Hx as <-. lia.
  - destruct (lookup_lt_is_Some_2 w i) as [y Hy]; [apply lookup_lt_Some in Hx; lia|].
    rewrite (Hc i y x Hy Hx), (IH f y Hf Hy). lia.
Qed.

Lemma consecutive_increasing (w : window) : consecutive w -> increasing w.
Proof.
  intros Hc i j a b Ha Hb Hij.
  destruct (lookup_lt_is_Some_2 w 0%nat) as [f Hf]; [apply lookup_lt_Some in Hb; lia|].
  rewrite (consecutive_nth w Hc i f a Hf Ha), (consecutive_nth w Hc j f b Hf Hb). lia.
Qed.

Lemma wf_consec_incr cap : forall es w, consecutive w -> wf_consec cap w es -> wf_incr cap w es.
Proof.
  induction es as [|e es IH]; intros w Hc Hwf; [exact I|].
  destruct Hwf as [He Hr]. split.
  - destruct e; auto. destruct (last w); [lia|auto].
  - apply IH; [|exact Hr]. destruct e; cbn [astep]; auto.
    + apply consecutive_single.
    + apply consecutive_apush; assumption.
Qed.

Lemma wf_consec_consecutive cap : forall es w, consecutive w -> wf_consec cap w es -> consecutive (arun cap w es).
Proof.
  induction es as [|e es IH]; intros w Hc Hwf; [exact Hc|].
  destruct Hwf as [He Hr]. cbn [arun fold_left]. apply IH; [|exact Hr].
  destruct e; cbn [astep]; auto.
  - apply consecutive_single.
  - apply consecutive_apush; assumption.
Qed.

(* ---------------- the refinement ---------------- *)
Lemma reset_push c w h tok : Inv c w ->
  exists c0, reset c h tok = push c0 h tok /\ Inv c0 [] /\ maxSize c0 = maxSize c.
Proof.
  intros HI. eexists. split; [|split].
  - unfold reset. rewrite (inv_bad _ _ HI). cbn [Z.eqb negb]. reflexivity.
  - destruct HI. constructor; cbn; try lia; try tauto.
    intros p x Hp. destruct p; discriminate Hp.
  - reflexivity.
Qed.

Lemma push_maxSize c h tok : maxSize (push c h tok) = maxSize c.
Proof.
  unfold push. destruct (negb (bad c =? 0)); [reflexivity|].
  destruct (maxSize c <=? 0); [reflexivity|].
  match goal with |- context [if ?b then _ else _] => destruct b end;
    match goal with |- context [match ?r with WFound _ => _ | WNil => _ | WFuel => _ end] => destruct r end;
    reflexivity.
Qed.

Lemma step_state_inv c w e : Inv c w ->
  match e with EPush h _ => match last w with Some b => b.1 < h | None => True end | _ => True end ->
  increasing w ->
  Inv (fst (step c e)) (astep (maxSize c) w e) /\ increasing (astep (maxSize c) w e) /\
  maxSize (fst (step c e)) = maxSize c.
Proof.
  intros HI Hwf Hinc. unfold step. rewrite (inv_bad _ _ HI). cbn [Z.eqb negb].
  destruct e as [h tok|h tok| | | | |]; cbn [fst astep]; auto.
  - destruct (reset_push c w h tok HI) as (c0 & -> & HI0 & Hm).
    assert (Hinc' : increasing (apush (maxSize c0) [] (h, tok))).
    { apply increasing_apush; [apply increasing_nil|exact I]. }
    pose proof (push_nohang c0 [] h tok HI0 Hinc') as Hb.
    pose proof (push_inv c0 [] h tok HI0 Hb) as HI'.
    assert (Ea : apush (maxSize c0) [] (h, tok) = areset (h, tok)).
    { unfold apush, areset. cbn [length]. destruct HI0. replace (Z.of_nat 0 <? maxSize c0) with true by lia. reflexivity. }
    rewrite Ea in HI'. split; [exact HI'|]. split; [apply increasing_single|].
    rewrite push_maxSize. exact Hm.
  - assert (Hinc' : increasing (apush (maxSize c) w (h, tok))) by (apply increasing_apush; assumption).
    pose proof (push_nohang c w h tok HI Hinc') as Hb.
    split; [exact (push_inv c w h tok HI Hb)|]. split; [exact Hinc'|apply push_maxSize].
Qed.

Lemma run_inv : forall es c w cap, maxSize c = cap -> Inv c w -> increasing w -> wf_incr cap w es ->
  Inv (run c es) (arun cap w es) /\ increasing (arun cap w es) /\ maxSize (run c es) = cap.
Proof.
  induction es as [|e es IH]; intros c w cap Hcap HI Hinc Hwf; [subst; auto|].
  destruct Hwf as [He Hr]. cbn [run arun fold_left]. subst cap.
  destruct (step_state_inv c w e HI He Hinc) as (HI' & Hinc' & Hm).
  exact (IH _ _ _ Hm HI' Hinc' Hr).
Qed.

(* ---------------- answers ---------------- *)
Lemma back_ptr_inv c w : Inv c w ->
  back_ptr c = match length w with O => None | S k => Some (wslot (headPtr c) (maxSize c) k) end.
Proof.
  intros HI. unfold back_ptr, is_empty. destruct w as [|x w'].
  - destruct (inv_empty _ _ HI eq_refl) as [-> ->]. reflexivity.
  - destruct (inv_ptrs _ _ HI ltac:(discriminate)) as (Hh & Ht & _).
    replace ((tailPtr c =? -1) && (headPtr c =? -1)) with false by lia.
    rewrite Ht. cbn [length]. unfold wslot. do 2 f_equal. lia.
Qed.

Lemma front_ptr_inv c w : Inv c w ->
  front_ptr c = match w with [] => None | _ => Some (wslot (headPtr c) (maxSize c) 0) end.
Proof.
  intros HI. unfold front_ptr, is_empty. destruct w as [|x w'].
  - destruct (inv_empty _ _ HI eq_refl) as [-> ->]. reflexivity.
  - destruct (inv_ptrs _ _ HI ltac:(discriminate)) as (Hh & Ht & _).
    replace ((tailPtr c =? -1) && (headPtr c =? -1)) with false by lia.
    f_equal. unfold wslot, slot. replace (headPtr c + Z.of_nat 0 <? maxSize c) with true by lia. lia.
Qed.

Lemma view_win sl head cap (w : window) p x : WinMem sl head cap w -> w !! p = Some x ->
  view sl (Some (wslot head cap p)) = Some x.
Proof.
  intros HM Hx. destruct (HM p x Hx) as (H1 & H2 & _). cbn [view]. rewrite H1, H2.
  destruct x; reflexivity.
Qed.

Lemma find_unique (l : window) q y t : increasing l -> l !! q = Some y -> y.1 = t ->
  find (fun x => x.1 =? t) l = Some y.
Proof.
  intros Hinc Hy Ht. destruct (find (fun x => x.1 =? t) l) as [z|] eqn:Ef.
  - apply find_some in Ef as [Hin Hz]. apply elem_of_list_In, elem_of_list_lookup in Hin as [q' Hq'].
    assert (z.1 = t) by lia.
    destruct (Nat.lt_trichotomy q q') as [Hlt|[->|Hgt]].
    + pose proof (Hinc q q' y z Hy Hq' Hlt). lia.
    + rewrite Hy in Hq'. exact (eq_sym Hq').
    + pose proof (Hinc q' q z y Hq' Hy Hgt). lia.
  - exfalso. assert (Hin : In y l) by (apply elem_of_list_In, elem_of_list_lookup; eauto).
    pose proof (find_none _ _ Ef y Hin) as Hf. cbn beta in Hf. lia.
Qed.

Lemma find_absent (l : window) t : (forall q y, l !! q = Some y -> y.1 <> t) ->
  find (fun x => x.1 =? t) l = None.
Proof.
  intros Hno. destruct (find (fun x => x.1 =? t) l) as [z|] eqn:Ef; [|reflexivity].
  apply find_some in Ef as [Hin Hz]. apply elem_of_list_In, elem_of_list_lookup in Hin as [q' Hq'].
  exfalso. apply (Hno q' z Hq'). lia.
Qed.

Lemma increasing_take (w : window) k : increasing w -> increasing (take k w).
Proof.
  intros Hinc i j a b Ha Hb Hij. apply lookup_take_Some in Ha as [Ha _]. apply lookup_take_Some in Hb as [Hb _].
  exact (Hinc i j a b Ha Hb Hij).
Qed.

(* every answer of the concrete chain is the abstract window's answer *)
Lemma query_refines c w e : Inv c w ->
  match e with EAnc _ _ => increasing w | _ => True end ->
  match e with EReset _ _ | EPush _ _ | EDump => False | _ => True end ->
  Some (query c e) = aquery w e.
Proof.
  intros HI Hinc He. pose proof (inv_mem _ _ HI) as HM.
  destruct e as [| | | | |k t|]; try contradiction; cbn [query aquery]; do 2 f_equal.
  - (* Back *)
    rewrite (back_ptr_inv c w HI). unfold aback. rewrite last_lookup.
    destruct (length w) as [|k] eqn:El.
    + apply nil_length_inv in El. subst w. reflexivity.
    + cbn [pred]. destruct (lookup_lt_is_Some_2 w k ltac:(lia)) as [x Hx]. rewrite Hx.
      exact (view_win _ _ _ w k x HM Hx).
  - (* Front *)
    rewrite (front_ptr_inv c w HI). unfold afront. rewrite head_lookup.
    destruct w as [|x w']; [reflexivity|]. exact (view_win _ _ _ (x :: w') 0%nat x HM eq_refl).
  - (* Prev chain *)
    rewrite (back_ptr_inv c w HI). unfold aprevs.
    destruct (length w) as [|k] eqn:El.
    + apply nil_length_inv in El. subst w. reflexivity.
    + rewrite (prev_chain_win _ _ _ w HM k) by (unfold fuel_of; pose proof (inv_len _ _ HI); pose proof (inv_n _ _ HI); lia).
      rewrite <- El, firstn_all. reflexivity.
  - (* Ancestor from k steps behind the back *)
    rewrite (back_ptr_inv c w HI). unfold aanc, aprefix.
    destruct (length w) as [|m] eqn:El.
    + apply nil_length_inv in El. subst w. cbn. destruct k; reflexivity.
    + rewrite (prev_n_win _ _ _ w HM k m) by lia.
      destruct (Nat.leb_spec k m) as [Hkm|Hkm].
      * replace (S m - k)%nat with (S (m - k)) by lia. set (p := (m - k)%nat).
        destruct (lookup_lt_is_Some_2 w p ltac:(lia)) as [x Hx].
        assert (Hlast : last (take (S p) w) = Some x).
        { rewrite (take_S_r _ _ _ Hx). apply last_snoc. }
        rewrite Hlast. unfold ancestor.
        destruct (HM p x Hx) as (Hh & _). rewrite Hh.
        destruct (t >? x.1); [reflexivity|].
        assert (Hfuel : (p + 2 <= fuel_of (slots c))%nat).
        { unfold fuel_of. pose proof (inv_len _ _ HI). pose proof (inv_n _ _ HI). lia. }
        destruct (walk_exact _ _ _ w HM Hinc _ p x t Hx Hfuel) as [(q & y & Hq & Hy & Hyt & ->)|(Hno & ->)].
        -- cbn [wres_view]. rewrite (view_win _ _ _ w q y HM Hy). f_equal.
           symmetry. apply (find_unique _ q y t); [apply increasing_take; exact Hinc| |exact Hyt].
           apply lookup_take_Some. split; [exact Hy|lia].
        -- cbn [wres_view]. f_equal. symmetry. apply find_absent.
           intros q y Hy. apply lookup_take_Some in Hy as [Hy Hq]. apply (Hno q y); [lia|exact Hy].
      * replace (S m - k)%nat with 0%nat by lia. reflexivity.
Qed.

Definition is_dump (e : event) : bool := match e with EDump => true | _ => false end.

Lemma step_obs c w e : Inv c w ->
  match e with EPush h _ => match last w with Some b => b.1 < h | None => True end | _ => True end ->
  increasing w -> is_dump e = false ->
  Some (snd (step c e)) = aquery (astep (maxSize c) w e) e.
Proof.
  intros HI Hwf Hinc Hd.
  destruct (step_state_inv c w e HI Hwf Hinc) as (HI' & Hinc' & _).
  destruct e as [h tok|h tok| | | | |]; try discriminate Hd;
    try (unfold step; rewrite (inv_bad _ _ HI); cbn [Z.eqb negb snd astep];
         apply query_refines; [exact HI| |exact I]; try exact I; exact Hinc).
  - unfold step in *. rewrite (inv_bad _ _ HI) in *. cbn [Z.eqb negb snd fst] in *.
    rewrite (inv_bad _ _ HI'). cbn [Z.eqb].
    exact (query_refines _ _ EBack HI' I I).
  - unfold step in *. rewrite (inv_bad _ _ HI) in *. cbn [Z.eqb negb snd fst] in *.
    rewrite (inv_bad _ _ HI'). cbn [Z.eqb].
    exact (query_refines _ _ EBack HI' I I).
Qed.

Lemma wf_incr_app cap : forall es1 es2 w,
  wf_incr cap w (es1 ++ es2) <-> wf_incr cap w es1 /\ wf_incr cap (arun cap w es1) es2.
Proof.
  induction es1 as [|e es1 IH]; intros es2 w; cbn [app wf_incr arun fold_left]; [tauto|].
  rewrite IH. tauto.
Qed.

Lemma arun_app cap es1 es2 w : arun cap w (es1 ++ es2) = arun cap (arun cap w es1) es2.
Proof. unfold arun. apply fold_left_app. Qed.

Lemma run_app es1 es2 c : run c (es1 ++ es2) = run (run c es1) es2.
Proof. unfold run. apply fold_left_app. Qed.

(* main refinement statement: after any well-formed history, the next event
   is answered as the abstract window answers it *)
Lemma refines cap c0 es e : 1 <= cap -> fresh c0 cap -> wf_incr cap [] (es ++ [e]) ->
  is_dump e = false ->
  Some (snd (step (run c0 es) e)) = aquery (arun cap [] (es ++ [e])) e.
Proof.
  intros Hc Hf Hwf Hd. apply wf_incr_app in Hwf as [Hwf1 [Hwf2 _]].
  pose proof (fresh_inv c0 cap Hc Hf) as HI0.
  assert (Hm0 : maxSize c0 = cap) by (destruct Hf; assumption).
  destruct (run_inv es c0 [] cap Hm0 HI0 increasing_nil Hwf1) as (HI & Hinc & Hm).
  rewrite arun_app. cbn [arun fold_left].
  pose proof (step_obs (run c0 es) (arun cap [] es) e HI Hwf2 Hinc Hd) as H.
  rewrite Hm in H. exact H.
Qed.

Lemma reachable_inv cap c0 es : 1 <= cap -> fresh c0 cap -> wf_incr cap [] es ->
  Inv (run c0 es) (arun cap [] es) /\ increasing (arun cap [] es).
Proof.
  intros Hc Hf Hwf. pose proof (fresh_inv c0 cap Hc Hf) as HI0.
  assert (Hm0 : maxSize c0 = cap) by (destruct Hf; assumption).
  destruct (run_inv es c0 [] cap Hm0 HI0 increasing_nil Hwf) as (HI & Hinc & Hm). auto.
Qed.

(* ---------------- consecutive heights: Ancestor by arithmetic ---------------- *)
Definition anc_consec (w : window) (k : nat) (t : Z) : option (Z * Z) :=
  match head w with
  | Some f =>
    if (f.1 <=? t) && (t <=? f.1 + Z.of_nat (length w) - 1 - Z.of_nat k)
    then w !! Z.to_nat (t - f.1) else None
  | None => None
  end.

Lemma aanc_consec (w : window) k t : consecutive w -> aanc w k t = anc_consec w k t.
Proof.
  intros Hc. pose proof (consecutive_increasing w Hc) as Hinc.
  unfold aanc, anc_consec, aprefix. rewrite head_lookup.
  destruct (w !! 0%nat) as [f|] eqn:Hf.
  2:{ apply lookup_ge_None in Hf. assert (length w = 0)%nat as -> by lia. reflexivity. }
  pose proof (lookup_lt_Some _ _ _ Hf) as Hn.
  destruct (Nat.le_gt_cases (length w) k) as [Hk|Hk].
  { replace (length w - k)%nat with 0%nat by lia. cbn.
    replace ((f.1 <=? t) && (t <=? f.1 + Z.of_nat (length w) - 1 - Z.of_nat k)) with false by lia.
    reflexivity. }
  set (p := (length w - 1 - k)%nat). replace (length w - k)%nat with (S p) by lia.
  destruct (lookup_lt_is_Some_2 w p ltac:(lia)) as [x Hx].
  rewrite (take_S_r _ _ _ Hx), last_snoc, <- (take_S_r _ _ _ Hx).
  pose proof (consecutive_nth w Hc p f x Hf Hx) as Hxh.
  destruct (Z.gtb_spec t x.1) as [Hgt|Hle].
  { replace ((f.1 <=? t) && (t <=? f.1 + Z.of_nat (length w) - 1 - Z.of_nat k)) with false by lia.
    reflexivity. }
  destruct (Z.leb_spec f.1 t) as [Hft|Hft]; cbn [andb].
  - replace (t <=? f.1 + Z.of_nat (length w) - 1 - Z.of_nat k) with true by lia.
    set (q := Z.to_nat (t - f.1)).
    destruct (lookup_lt_is_Some_2 w q ltac:(lia)) as [y Hy]. rewrite Hy.
    apply (find_unique _ q y t); [apply increasing_take; exact Hinc| |].
    + apply lookup_take_Some. split; [exact Hy|lia].
    + rewrite (consecutive_nth w Hc q f y Hf Hy). lia.
  - apply find_absent. intros q y Hy. apply lookup_take_Some in Hy as [Hy _].
    rewrite (consecutive_nth w Hc q f y Hf Hy). lia.
Qed.

Lemma ancestor_correct cap c0 es k t : 1 <= cap -> fresh c0 cap -> wf_consec cap [] es ->
  query (run c0 es) (EAnc k t) = ONode (anc_consec (arun cap [] es) k t).
Proof.
  intros Hc Hf Hwf.
  assert (Hc0 : consecutive []) by (intros i a b Ha; destruct i; discriminate Ha).
  pose proof (wf_consec_consecutive cap es [] Hc0 Hwf) as Hcons.
  pose proof (wf_consec_incr cap es [] Hc0 Hwf) as Hwf'.
  destruct (reachable_inv cap c0 es Hc Hf Hwf') as [HI Hinc].
  pose proof (query_refines _ _ (EAnc k t) HI Hinc I) as Hq. cbn [aquery] in Hq.
  injection Hq as Hq. rewrite aanc_consec in Hq by exact Hcons. exact Hq.
Qed.

Lemma anc_consec_height (w : window) k t y : consecutive w -> anc_consec w k t = Some y ->
  y.1 = t /\ exists i, w !! i = Some y /\ (i + k < length w)%nat.
Proof.
  intros Hc. unfold anc_consec. rewrite head_lookup. destruct (w !! 0%nat) as [f|] eqn:Hf; [|discriminate].
  destruct ((f.1 <=? t) && (t <=? f.1 + Z.of_nat (length w) - 1 - Z.of_nat k)) eqn:E; [|discriminate].
  intros Hy. split.
  - rewrite (consecutive_nth w Hc _ f y Hf Hy). lia.
  - exists (Z.to_nat (t - f.1)). split; [exact Hy|lia].
Qed.

(* ---------------- without the height precondition ---------------- *)
Lemma step_bad_sticky c e : bad c <> 0 -> fst (step c e) = c.
Proof. intros Hb. unfold step. replace (negb (bad c =? 0)) with true by lia. reflexivity. Qed.

Lemma run_bad_sticky es : forall c, bad c <> 0 -> run c es = c.
Proof.
  induction es as [|e es IH]; intros c Hb; [reflexivity|].
  cbn [run fold_left]. rewrite (step_bad_sticky c e Hb). apply IH. exact Hb.
Qed.

Lemma step_inv_any c w e : Inv c w -> bad (fst (step c e)) = 0 ->
  Inv (fst (step c e)) (astep (maxSize c) w e) /\ maxSize (fst (step c e)) = maxSize c.
Proof.
  intros HI Hb. unfold step in *. rewrite (inv_bad _ _ HI) in *. cbn [Z.eqb negb] in *.
  destruct e as [h tok|h tok| | | | |]; cbn [fst astep] in *; auto.
  - destruct (reset_push c w h tok HI) as (c0 & E & HI0 & Hm). rewrite E in *.
    pose proof (push_inv c0 [] h tok HI0 Hb) as HI'.
    assert (Ea : apush (maxSize c0) [] (h, tok) = areset (h, tok)).
    { unfold apush, areset. cbn [length]. destruct HI0. replace (Z.of_nat 0 <? maxSize c0) with true by lia. reflexivity. }
    rewrite Ea in HI'. split; [exact HI'|]. rewrite push_maxSize. exact Hm.
  - split; [exact (push_inv c w h tok HI Hb)|apply push_maxSize].
Qed.

(* any heights: as long as the code returns, the pointer structure is the window *)
Lemma run_inv_any : forall es c w cap, maxSize c = cap -> Inv c w -> bad (run c es) = 0 ->
  Inv (run c es) (arun cap w es).
Proof.
  induction es as [|e es IH]; intros c w cap Hcap HI Hb; [exact HI|].
  cbn [run arun fold_left] in *. subst cap.
  destruct (Z.eq_dec (bad (fst (step c e))) 0) as [Hb1|Hb1].
  - destruct (step_inv_any c w e HI Hb1) as [HI' Hm]. exact (IH _ _ _ Hm HI' Hb).
  - exfalso. fold (run (fst (step c e)) es) in Hb. rewrite (run_bad_sticky es _ Hb1) in Hb. contradiction.
Qed.

Lemma anc_sound_any c w k t y : Inv c w -> query c (EAnc k t) = ONode (Some y) ->
  y.1 = t /\ y ∈ w.
Proof.
  intros HI. pose proof (inv_mem _ _ HI) as HM. cbn [query].
  rewrite (back_ptr_inv c w HI).
  destruct (length w) as [|m] eqn:El.
  { destruct k; cbn; discriminate. }
  rewrite (prev_n_win _ _ _ w HM k m) by lia.
  destruct (k <=? m)%nat; [|cbn; discriminate].
  unfold ancestor. destruct (t >? _); [cbn; discriminate|].
  destruct (walk _ _ _ t) as [i| |] eqn:Ew; cbn [wres_view]; try discriminate.
  destruct (walk_in_window _ _ _ w HM _ (m - k)%nat _ _ ltac:(lia) Ew) as (q & Hq & -> & Hh).
  destruct (lookup_lt_is_Some_2 w q Hq) as [z Hz].
  rewrite (view_win _ _ _ w q z HM Hz). intros [= <-].
  destruct (HM q z Hz) as (H1 & _). split; [lia|]. apply elem_of_list_lookup. eauto.
Qed.

(* ---------------- the monitor accepts every trace of the model ---------------- *)
Fixpoint mtrace (c : chain) (es : list event) : list (event * obs) :=
  match es with
  | [] => []
  | e :: r => (e, snd (step c e)) :: mtrace (fst (step c e)) r
  end.

Lemma pair_eqb_refl a : pair_eqb a a = true.
Proof. unfold pair_eqb. lia. Qed.
Lemma plist_eqb_refl l : plist_eqb l l = true.
Proof. induction l as [|a l IH]; [reflexivity|]. cbn. rewrite pair_eqb_refl, IH. reflexivity. Qed.
Lemma qlist_eqb_refl l : qlist_eqb l l = true.
Proof. induction l as [|a l IH]; [reflexivity|]. cbn. rewrite IH. unfold quad_eqb. lia. Qed.
Lemma obs_eqb_refl o : obs_eqb o o = true.
Proof.
  destruct o as [[a|]|l|h t n s| |]; cbn; auto using pair_eqb_refl, plist_eqb_refl.
  rewrite qlist_eqb_refl. lia.
Qed.

Lemma wf_event_spec w e : wf_event w e = true ->
  match e with EPush h _ => match last w with Some b => b.1 < h | None => True end | _ => True end.
Proof. destruct e; cbn; auto. destruct (last w); [lia|auto]. Qed.

Lemma first_bad_model : forall es c w i cap, maxSize c = cap -> Inv c w -> increasing w ->
  first_bad cap w i (mtrace c es) = None.
Proof.
  induction es as [|e es IH]; intros c w i cap Hcap HI Hinc; [reflexivity|]. subst cap.
  cbn [mtrace first_bad]. destruct (wf_event w e) eqn:Hwf; [|reflexivity]. cbn [negb].
  apply wf_event_spec in Hwf.
  destruct (step_state_inv c w e HI Hwf Hinc) as (HI' & Hinc' & Hm).
  destruct (is_dump e) eqn:Hd.
  - destruct e; try discriminate Hd. cbn [aquery]. apply IH; assumption.
  - rewrite <- (step_obs c w e HI Hwf Hinc Hd). rewrite obs_eqb_refl. apply IH; assumption.
Qed.

Lemma holds_model cap c0 es : fresh c0 cap -> holds cap (mtrace c0 es) = true.
Proof.
  intros Hf. unfold holds. destruct (Z.ltb_spec cap 1); [reflexivity|].
  assert (Hm0 : maxSize c0 = cap) by (destruct Hf; assumption).
  rewrite (first_bad_model es c0 [] 0 cap Hm0); [reflexivity| |apply increasing_nil].
  apply (fresh_inv c0 cap); [lia|exact Hf].
Qed.

Lemma no_bad cap c0 es : 1 <= cap -> fresh c0 cap -> wf_incr cap [] es -> bad (run c0 es) = 0.
Proof. intros Hc Hf Hwf. exact (inv_bad _ _ (proj1 (reachable_inv cap c0 es Hc Hf Hwf))). Qed.

Definition is_struct_query (e : event) : bool :=
  match e with EBack | EFront | EPrevs => true | _ => false end.

Lemma structure_any cap c0 es e : 1 <= cap -> fresh c0 cap -> bad (run c0 es) = 0 ->
  is_struct_query e = true ->
  Some (query (run c0 es) e) = aquery (arun cap [] es) e.
Proof.
  intros Hc Hf Hb He. pose proof (fresh_inv c0 cap Hc Hf) as HI0.
  assert (Hm0 : maxSize c0 = cap) by (destruct Hf; assumption).
  pose proof (run_inv_any es c0 [] cap Hm0 HI0 Hb) as HI.
  destruct e; try discriminate He; apply query_refines; auto.
Qed.

Lemma ancestor_sound_any cap c0 es k t y : 1 <= cap -> fresh c0 cap -> bad (run c0 es) = 0 ->
  query (run c0 es) (EAnc k t) = ONode (Some y) -> y.1 = t /\ y ∈ arun cap [] es.
Proof.
  intros Hc Hf Hb. pose proof (fresh_inv c0 cap Hc Hf) as HI0.
  assert (Hm0 : maxSize c0 = cap) by (destruct Hf; assumption).
  pose proof (run_inv_any es c0 [] cap Hm0 HI0 Hb) as HI.
  apply anc_sound_any. exact HI.
Qed.

Lemma window_bounds cap c0 es : 1 <= cap -> fresh c0 cap -> wf_incr cap [] es ->
  Z.of_nat (length (arun cap [] es)) <= cap /\ clen (run c0 es) = Z.of_nat (length (arun cap [] es)).
Proof.
  intros Hc Hf Hwf. destruct (reachable_inv cap c0 es Hc Hf Hwf) as [HI _].
  pose proof (inv_n _ _ HI) as H1. pose proof (inv_clen _ _ HI) as H2.
  assert (Hm : maxSize (run c0 es) = cap).
  { pose proof (fresh_inv c0 cap Hc Hf) as HI0. assert (Hm0 : maxSize c0 = cap) by (destruct Hf; assumption).
    exact (proj2 (proj2 (run_inv es c0 [] cap Hm0 HI0 increasing_nil Hwf))). }
  rewrite Hm in H1. auto.
Qed.

Lemma consecutive_nil : consecutive [].
Proof. intros i a b Ha. destruct i; discriminate Ha. Qed.

Lemma ancestor_exact_height cap es k t y :
  wf_consec cap [] es -> anc_consec (arun cap [] es) k t = Some y ->
  y.1 = t /\ exists i, arun cap [] es !! i = Some y /\ (i + k < length (arun cap [] es))%nat.
Proof.
  intros Hwf. apply anc_consec_height.
  exact (wf_consec_consecutive cap es [] consecutive_nil Hwf).
Qed.

Lemma consec_is_incr cap es : wf_consec cap [] es ->
  wf_incr cap [] es /\ consecutive (arun cap [] es).
Proof.
  intros Hwf.
  split; [exact (wf_consec_incr cap es [] consecutive_nil Hwf)|exact (wf_consec_consecutive cap es [] consecutive_nil Hwf)].
Qed.
