(* HL (S2b) — replay of implementation traces against the model (kind 1) and
   of the abstract-window monitor on the implementation trace (kind 2), plus
   the getAncestorHeight table (kind 3). *)
From stdpp Require Import list.
From Coq Require Import ZArith.
From Verif Require Import HL.Model HL.Spec.
Open Scope Z_scope.

(* a case: capacity and the list of (event, observation on the real code) *)
Definition case := (Z * list (event * obs))%type.

Fixpoint first_mismatch (c : chain) (i : Z) (tr : list (event * obs)) : option Z :=
  match tr with
  | [] => None
  | (e, o) :: rest =>
    let '(c', mo) := step c e in
    if obs_eqb mo o then first_mismatch c' (i + 1) rest else Some i
  end.

Definition verdict (x : Z * case) : list (Z * Z * Z * Z) :=
  let '(id, (cap, tr)) := x in
  (match first_mismatch (new_chain cap) 0 tr with Some i => [(id, 1, i, 0)] | None => [] end) ++
  (if cap <? 1 then [] else
   match first_bad cap [] 0 tr with Some i => [(id, 2, i, 0)] | None => [] end).

Definition run_cases (cs : list (Z * case)) : list (Z * Z * Z * Z) := flat_map verdict cs.

(* getAncestorHeight table: (height, value computed by the Go code) *)
Fixpoint index_false (i : Z) (l : list bool) : list Z :=
  match l with
  | [] => []
  | b :: r => (if b then [] else [i]) ++ index_false (i + 1) r
  end.
Definition anc_height_mismatches (t : list (Z * Z)) : list Z :=
  index_false 0 (map (fun p => getAncestorHeight p.1 =? p.2) t).
