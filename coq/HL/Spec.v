(* HL (S2b) — the abstract header window used by the block-manager model:
   a list of (height, header token), oldest first, of length <= capacity.
   This is the vocabulary C01's model talks in; Proofs.v shows that the ring
   buffer with prev/skip pointers of Model.v implements exactly this. *)
From stdpp Require Import list.
From Coq Require Import ZArith Lia.
From Verif Require Import HL.Model.
Open Scope Z_scope.

Notation window := (list (Z * Z)) (only parsing).

(* PushBack: append, drop the oldest when over capacity *)
Definition apush (cap : Z) (w : window) (x : Z * Z) : window :=
  if Z.of_nat (length w) <? cap then w ++ [x] else drop 1 (w ++ [x]).
(* ResetHeaderState: exactly one node *)
Definition areset (x : Z * Z) : window := [x].

Definition aback (w : window) : option (Z * Z) := last w.
Definition afront (w : window) : option (Z * Z) := head w.
(* Back, Back.Prev, ...: newest first *)
Definition aprevs (w : window) : list (Z * Z) := reverse w.

(* the part of the window reachable from the node k steps behind the back *)
Definition aprefix (w : window) (k : nat) : window := take (length w - k) w.

(* Ancestor(t) on the node k steps behind the back: the element of height t
   at or behind that node; none if t is above that node, pruned, or absent *)
Definition aanc (w : window) (k : nat) (t : Z) : option (Z * Z) :=
  match last (aprefix w k) with
  | None => None
  | Some top => if t >? top.1 then None else find (fun x => x.1 =? t) (aprefix w k)
  end.

(* abstract run *)
Definition astep (cap : Z) (w : window) (e : event) : window :=
  match e with
  | EReset h tok => areset (h, tok)
  | EPush h tok => apush cap w (h, tok)
  | _ => w
  end.
Definition arun (cap : Z) (w : window) (es : list event) : window := fold_left (astep cap) es w.

(* what the abstract window answers; None = not specified (state dump) *)
Definition aquery (w : window) (e : event) : option obs :=
  match e with
  | EReset _ _ | EPush _ _ => Some (ONode (aback w))     (* asked after the step *)
  | EBack => Some (ONode (aback w))
  | EFront => Some (ONode (afront w))
  | EPrevs => Some (OList (aprevs w))
  | EAnc k t => Some (ONode (aanc w k t))
  | EDump => None
  end.

(* ---------------- well-formed use ---------------- *)
(* every PushBack is above the current back (strictly increasing heights
   after each reset) ... *)
Fixpoint wf_incr (cap : Z) (w : window) (es : list event) : Prop :=
  match es with
  | [] => True
  | e :: r =>
    match e with
    | EPush h _ => match last w with Some b => b.1 < h | None => True end
    | _ => True
    end /\ wf_incr cap (astep cap w e) r
  end.
(* ... which is how the block manager uses it: height = Back().Height + 1 *)
Fixpoint wf_consec (cap : Z) (w : window) (es : list event) : Prop :=
  match es with
  | [] => True
  | e :: r =>
    match e with
    | EPush h _ => match last w with Some b => h = b.1 + 1 | None => True end
    | _ => True
    end /\ wf_consec cap (astep cap w e) r
  end.

Definition increasing (w : window) : Prop :=
  forall (i j : nat) x y, w !! i = Some x -> w !! j = Some y -> (i < j)%nat -> x.1 < y.1.
Definition consecutive (w : window) : Prop :=
  forall (i : nat) x y, w !! i = Some x -> w !! (S i) = Some y -> y.1 = x.1 + 1.

(* ---------------- monitor over implementation traces ---------------- *)
Definition pair_eqb (a b : Z * Z) : bool := (a.1 =? b.1) && (a.2 =? b.2).
Definition opair_eqb (a b : option (Z * Z)) : bool :=
  match a, b with
  | Some x, Some y => pair_eqb x y
  | None, None => true
  | _, _ => false
  end.
Fixpoint plist_eqb (a b : list (Z * Z)) : bool :=
  match a, b with
  | [], [] => true
  | x :: a', y :: b' => pair_eqb x y && plist_eqb a' b'
  | _, _ => false
  end.
Definition quad_eqb (a b : Z * Z * Z * Z) : bool :=
  (a.1.1.1 =? b.1.1.1) && (a.1.1.2 =? b.1.1.2) && (a.1.2 =? b.1.2) && (a.2 =? b.2).
Fixpoint qlist_eqb (a b : list (Z * Z * Z * Z)) : bool :=
  match a, b with
  | [], [] => true
  | x :: a', y :: b' => quad_eqb x y && qlist_eqb a' b'
  | _, _ => false
  end.
Definition obs_eqb (a b : obs) : bool :=
  match a, b with
  | ONode x, ONode y => opair_eqb x y
  | OList x, OList y => plist_eqb x y
  | ODump h1 t1 l1 s1, ODump h2 t2 l2 s2 => (h1 =? h2) && (t1 =? t2) && (l1 =? l2) && qlist_eqb s1 s2
  | OPanic, OPanic => true
  | OHang, OHang => true
  | _, _ => false
  end.

(* boolean version of the increasing-heights precondition for one event *)
Definition wf_event (w : window) (e : event) : bool :=
  match e with
  | EPush h _ => match last w with Some b => b.1 <? h | None => true end
  | _ => true
  end.

(* The monitor: for capacity >= 1 and as long as the pushes are increasing,
   every observation is the abstract window's answer.  Returns the index of
   the first event whose observation is not; None = the trace is fine.  After
   the first ill-formed push (or for capacity < 1) nothing is required. *)
Fixpoint first_bad (cap : Z) (w : window) (i : Z) (tr : list (event * obs)) : option Z :=
  match tr with
  | [] => None
  | (e, o) :: rest =>
    if negb (wf_event w e) then None else
    let w' := astep cap w e in
    match aquery w' e with
    | Some a => if obs_eqb a o then first_bad cap w' (i + 1) rest else Some i
    | None => first_bad cap w' (i + 1) rest
    end
  end.

Definition holds (cap : Z) (tr : list (event * obs)) : bool :=
  if cap <? 1 then true else
  match first_bad cap [] 0 tr with None => true | Some _ => false end.
