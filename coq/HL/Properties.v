(* HL (S2b) — the theorems about headerlist.BoundedMemoryChain, and nothing
   else.  [fresh c0 cap]: c0 is what NewBoundedMemoryChain(cap) returns (the
   slot contents are arbitrary: stale nodes are never reached).  [wf_incr]:
   every PushBack is above Back().Height; [wf_consec]: every PushBack is
   Back().Height + 1 (the block manager's use). *)
From stdpp Require Import list.
From Coq Require Import ZArith Lia.
From Verif Require Import HL.Model HL.Spec HL.Proofs.
Open Scope Z_scope.

(* For EVERY capacity >= 1 and EVERY history of ResetHeaderState / PushBack /
   queries with increasing heights after each reset, the next call - Reset,
   PushBack (observed: the returned node), Back, Front, the whole Prev() chain
   from the back, Ancestor(t) on the node k Prev-steps behind the back, any k,
   any t - is answered by the ring buffer exactly as by the abstract window
   (append; drop the oldest when over capacity; reset = singleton; Ancestor =
   the element of that height at or behind the start node, none if above,
   pruned, absent or negative).  Includes wrap-around and capacity 1. *)
Theorem HL_refines : forall cap c0 es e,
  1 <= cap -> fresh c0 cap -> wf_incr cap [] (es ++ [e]) -> is_dump e = false ->
  Some (snd (step (run c0 es) e)) = aquery (arun cap [] (es ++ [e])) e.
Proof. exact refines. Qed.
Print Assumptions HL_refines.

(* The lookup the block-manager model relies on, in arithmetic form: with
   consecutive heights, Ancestor(t) from the node k steps behind the back is
   the window element number t - front.Height if front.Height <= t <= that
   node's height, and nil otherwise (pruned, above, negative). *)
Theorem HL_ancestor_correct : forall cap c0 es k t,
  1 <= cap -> fresh c0 cap -> wf_consec cap [] es ->
  query (run c0 es) (EAnc k t) = ONode (anc_consec (arun cap [] es) k t).
Proof. exact ancestor_correct. Qed.
Print Assumptions HL_ancestor_correct.

(* ... and that element has exactly the requested height and lies at or
   behind the start node *)
Theorem HL_ancestor_exact_height : forall cap es k t y,
  wf_consec cap [] es -> anc_consec (arun cap [] es) k t = Some y ->
  y.1 = t /\ exists i, arun cap [] es !! i = Some y /\ (i + k < length (arun cap [] es))%nat.
Proof. exact ancestor_exact_height. Qed.
Print Assumptions HL_ancestor_exact_height.

(* PushBack never panics and always returns (the loop of Ancestor inside
   buildAncestor terminates within maxSize+2 tests); the window never exceeds
   the capacity and b.len is its length. *)
Theorem HL_no_panic_no_hang : forall cap c0 es,
  1 <= cap -> fresh c0 cap -> wf_incr cap [] es -> bad (run c0 es) = 0.
Proof. exact no_bad. Qed.
Print Assumptions HL_no_panic_no_hang.

Theorem HL_window_bounds : forall cap c0 es,
  1 <= cap -> fresh c0 cap -> wf_incr cap [] es ->
  Z.of_nat (length (arun cap [] es)) <= cap /\ clen (run c0 es) = Z.of_nat (length (arun cap [] es)).
Proof. exact window_bounds. Qed.
Print Assumptions HL_window_bounds.

(* consecutive use is increasing use, and keeps the window consecutive *)
Theorem HL_consec_is_incr : forall cap es, wf_consec cap [] es ->
  wf_incr cap [] es /\ consecutive (arun cap [] es).
Proof. exact consec_is_incr. Qed.
Print Assumptions HL_consec_is_incr.

(* NewBoundedMemoryChain(cap) of the model is fresh *)
Theorem HL_new_chain_fresh : forall cap, 0 <= cap < 100000 -> fresh (new_chain cap) cap.
Proof. exact new_chain_fresh. Qed.
Print Assumptions HL_new_chain_fresh.

(* WITHOUT the height precondition (any heights, also decreasing or equal):
   as long as every call returned, Back / Front / the Prev() chain are still
   exactly the abstract window, and a non-nil Ancestor(t) result is a window
   element of height t ... *)
Theorem HL_any_heights_structure : forall cap c0 es e,
  1 <= cap -> fresh c0 cap -> bad (run c0 es) = 0 -> is_struct_query e = true ->
  Some (query (run c0 es) e) = aquery (arun cap [] es) e.
Proof. exact structure_any. Qed.
Print Assumptions HL_any_heights_structure.

Theorem HL_any_heights_ancestor_sound : forall cap c0 es k t y,
  1 <= cap -> fresh c0 cap -> bad (run c0 es) = 0 ->
  query (run c0 es) (EAnc k t) = ONode (Some y) -> y.1 = t /\ y ∈ arun cap [] es.
Proof. exact ancestor_sound_any. Qed.
Print Assumptions HL_any_heights_ancestor_sound.

(* ... but the precondition is needed for termination: with non-increasing
   heights a stale skip pointer into an overwritten slot can close a cycle
   and PushBack does not return (observed on the real code: capacity 3,
   heights 4, 7, 6, 5). *)
Theorem HL_nonincreasing_push_hangs :
  exists es, bad (run (new_chain 3) es) = 2.
Proof. exists [EPush 4 1; EPush 7 2; EPush 6 3; EPush 5 4]. vm_compute. reflexivity. Qed.
Print Assumptions HL_nonincreasing_push_hangs.

(* The trace monitor used on implementation traces accepts every trace of the
   model (all histories, all capacities). *)
Theorem HL_monitor_accepts_model : forall cap c0 es,
  fresh c0 cap -> holds cap (mtrace c0 es) = true.
Proof. exact holds_model. Qed.
Print Assumptions HL_monitor_accepts_model.

(* Non-vacuity: capacity 4, reset at 100, ten consecutive pushes (the ring
   wraps twice): the hypotheses hold, the window is 107..110, Ancestor finds
   108 from the back, reports 106 as pruned, 111 as above, -1 as absent. *)
Example HL_nonvacuous :
  let es := EReset 100 0 :: map (fun i => EPush (100 + i) i) [1;2;3;4;5;6;7;8;9;10] in
  wf_consec 4 [] es /\ fresh (new_chain 4) 4 /\
  arun 4 [] es = [(107, 7); (108, 8); (109, 9); (110, 10)] /\
  query (run (new_chain 4) es) (EAnc 0 108) = ONode (Some (108, 8)) /\
  query (run (new_chain 4) es) (EAnc 0 106) = ONode None /\
  query (run (new_chain 4) es) (EAnc 0 111) = ONode None /\
  query (run (new_chain 4) es) (EAnc 1 110) = ONode None /\
  query (run (new_chain 4) es) (EAnc 0 (-1)) = ONode None /\
  query (run (new_chain 4) es) EPrevs = OList [(110, 10); (109, 9); (108, 8); (107, 7)].
Proof.
  cbn zeta. split; [|split; [apply new_chain_fresh; lia|]].
  - cbn. repeat split; lia.
  - vm_compute. repeat split; reflexivity.
Qed.
