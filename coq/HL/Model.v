(* HL (S2b) — executable model of headerlist.BoundedMemoryChain and
   headerlist.Node (bounded_header_list.go, header_list.go).  No proofs here.

   The Go pointers *Node all point into the backing array b.chain, so a
   pointer is a slot index (Z), nil is None.  A node is (Height, header token,
   prev, ancestor).  Slots that are not part of the current window keep their
   stale contents (ResetHeaderState does not clear the array), stale skip
   pointers into overwritten slots are kept exactly as in the code: Ancestor
   guards against them with the height test only.

   Heights are int32 in the code; the model uses Z (no arithmetic on heights
   is done by this package except the bit tricks of getAncestorHeight, which
   for positive int32 values coincide with Z.land).

   [bad]: 0 = fine, 1 = the Go code panicked (maxSize = 0: integer divide by
   zero in PushBack), 2 = the Go code does not return (Ancestor loops forever
   inside buildAncestor; the model runs out of fuel, which is exact: more
   loop iterations than slots means a (slot, target) pair repeats).  Both are
   sticky and never happen for capacity >= 1 and increasing heights
   (Proofs.v). *)
From stdpp Require Import list.
From Coq Require Import ZArith Lia.
Open Scope Z_scope.

Record node := { nh : Z; ntok : Z; nprev : option Z; nanc : option Z }.
Definition dnode : node := {| nh := 0; ntok := 0; nprev := None; nanc := None |}.

Record chain := {
  maxSize : Z; headPtr : Z; tailPtr : Z; clen : Z;
  slots : list node;
  bad : Z
}.

(* slot access; an out-of-range index would be a Go panic, it never happens
   (Proofs.v: every access is in range) *)
Definition inb (l : list node) (i : Z) : bool := (0 <=? i) && (i <? Z.of_nat (length l)).
Definition getz (l : list node) (i : Z) : node :=
  if inb l i then nth (Z.to_nat i) l dnode else dnode.
Definition setz (l : list node) (i : Z) (x : node) : list node :=
  if inb l i then <[Z.to_nat i := x]> l else l.

(* NewBoundedMemoryChain(maxNodes); capacities are small (guarded) *)
Definition new_chain (cap : Z) : chain :=
  {| maxSize := cap; headPtr := -1; tailPtr := -1; clen := 0;
     slots := if (0 <=? cap) && (cap <? 100000) then replicate (Z.to_nat cap) dnode else [];
     bad := 0 |}.

(* invertLowestOne / getAncestorHeight *)
Definition invertLowestOne (n : Z) : Z := Z.land n (n - 1).
Definition getAncestorHeight (h : Z) : Z :=
  if h <=? 0 then 0 else invertLowestOne (invertLowestOne h).

Inductive wres := WFound (i : Z) | WNil | WFuel.

(* the loop of Node.Ancestor: one unit of fuel per loop test *)
Fixpoint walk (sl : list node) (fuel : nat) (cur : option Z) (t : Z) : wres :=
  match fuel with
  | O => WFuel
  | S f =>
    match cur with
    | None => WNil
    | Some i =>
      let n := getz sl i in
      if nh n =? t then WFound i else
      let skip :=
        match nanc n with
        | Some j => (getAncestorHeight (nh n) >=? t) && (nh (getz sl j) >=? t) && (nh (getz sl j) <? nh n)
        | None => false
        end in
      if skip then walk sl f (nanc n) t else walk sl f (nprev n) t
    end
  end.

(* Node.Ancestor(height) on receiver [cur] *)
Definition ancestor (sl : list node) (fuel : nat) (cur : option Z) (t : Z) : wres :=
  match cur with
  | None => WNil
  | Some i => if t >? nh (getz sl i) then WNil else walk sl fuel cur t
  end.

Definition fuel_of (sl : list node) : nat := S (S (length sl)).

Definition set_prev (n : node) (p : option Z) : node :=
  {| nh := nh n; ntok := ntok n; nprev := p; nanc := nanc n |}.
Definition set_anc (n : node) (a : option Z) : node :=
  {| nh := nh n; ntok := ntok n; nprev := nprev n; nanc := a |}.

Definition with_bad (c : chain) (b : Z) : chain :=
  {| maxSize := maxSize c; headPtr := headPtr c; tailPtr := tailPtr c; clen := clen c;
     slots := slots c; bad := b |}.

(* PushBack(Node{Height: h, Header: tok}); prev/ancestor of the argument are
   overwritten unconditionally, so they are not part of the model *)
Definition push (c : chain) (h tok : Z) : chain :=
  if negb (bad c =? 0) then c else
  if maxSize c <=? 0 then with_bad c 1 else
  let prevElem := if tailPtr c =? -1 then None else Some (tailPtr c) in
  let prevElem := if maxSize c =? 1 then None else prevElem in
  let tail' := Z.rem (tailPtr c + 1) (maxSize c) in
  let '(head', sl1) :=
    if (tail' <=? headPtr c) || (headPtr c =? -1) then
      let h' := Z.rem (headPtr c + 1) (maxSize c) in
      (h', setz (slots c) h' (set_prev (getz (slots c) h') None))
    else (headPtr c, slots c) in
  let sl2 := setz sl1 tail' {| nh := h; ntok := tok; nprev := prevElem; nanc := None |} in
  (* buildAncestor *)
  let r := match prevElem with
           | None => WNil
           | Some _ => ancestor sl2 (fuel_of sl2) prevElem (getAncestorHeight h)
           end in
  let len' := if clen c + 1 >? maxSize c then maxSize c else clen c + 1 in
  match r with
  | WFuel => {| maxSize := maxSize c; headPtr := head'; tailPtr := tail'; clen := clen c;
                slots := sl2; bad := 2 |}
  | WNil => {| maxSize := maxSize c; headPtr := head'; tailPtr := tail'; clen := len';
               slots := sl2; bad := 0 |}
  | WFound j => {| maxSize := maxSize c; headPtr := head'; tailPtr := tail'; clen := len';
                   slots := setz sl2 tail' (set_anc (getz sl2 tail') (Some j)); bad := 0 |}
  end.

(* ResetHeaderState(Node{h, tok}) *)
Definition reset (c : chain) (h tok : Z) : chain :=
  if negb (bad c =? 0) then c else
  push {| maxSize := maxSize c; headPtr := -1; tailPtr := -1; clen := 0;
          slots := slots c; bad := 0 |} h tok.

Definition is_empty (c : chain) : bool := (tailPtr c =? -1) && (headPtr c =? -1).

(* Back() / Front() as pointers *)
Definition back_ptr (c : chain) : option Z := if is_empty c then None else Some (tailPtr c).
Definition front_ptr (c : chain) : option Z := if is_empty c then None else Some (headPtr c).

Definition view (sl : list node) (p : option Z) : option (Z * Z) :=
  match p with Some i => Some (nh (getz sl i), ntok (getz sl i)) | None => None end.

(* n, n.Prev(), n.Prev().Prev(), ... : at most [fuel] nodes *)
Fixpoint prev_chain (sl : list node) (fuel : nat) (cur : option Z) : list (Z * Z) :=
  match fuel with
  | O => []
  | S f =>
    match cur with
    | None => []
    | Some i => (nh (getz sl i), ntok (getz sl i)) :: prev_chain sl f (nprev (getz sl i))
    end
  end.

(* k times Prev(), stopping at nil *)
Fixpoint prev_n (sl : list node) (k : nat) (cur : option Z) : option Z :=
  match k with
  | O => cur
  | S k' => match cur with None => None | Some i => prev_n sl k' (nprev (getz sl i)) end
  end.

(* ---------------- events and observations ---------------- *)
Inductive event :=
| EReset (h tok : Z)
| EPush (h tok : Z)
| EBack
| EFront
| EPrevs                       (* Back(), then Prev() until nil (at most maxSize+2 nodes) *)
| EAnc (k : nat) (t : Z)       (* n := Back(); k times n = n.Prev() (while non-nil); n.Ancestor(t) *)
| EDump.                       (* internal state (verif hook) *)

Inductive obs :=
| ONode (o : option (Z * Z))
| OList (l : list (Z * Z))
| ODump (head tail len : Z) (sl : list (Z * Z * Z * Z))   (* height, token, prev slot or -1, ancestor slot or -1 *)
| OPanic
| OHang.

Definition optz (o : option Z) : Z := match o with Some i => i | None => -1 end.

Definition wres_view (sl : list node) (r : wres) : obs :=
  match r with
  | WFound i => ONode (view sl (Some i))
  | WNil => ONode None
  | WFuel => OHang
  end.

Definition bad_obs (c : chain) : obs := if bad c =? 1 then OPanic else OHang.

Definition query (c : chain) (e : event) : obs :=
  match e with
  | EBack => ONode (view (slots c) (back_ptr c))
  | EFront => ONode (view (slots c) (front_ptr c))
  | EPrevs => OList (prev_chain (slots c) (fuel_of (slots c)) (back_ptr c))
  | EAnc k t => wres_view (slots c)
      (ancestor (slots c) (fuel_of (slots c)) (prev_n (slots c) k (back_ptr c)) t)
  | _ => ODump (headPtr c) (tailPtr c) (clen c)
      (map (fun n => (nh n, ntok n, optz (nprev n), optz (nanc n))) (slots c))
  end.

(* one event: new state and what the caller sees (for PushBack/Reset: the
   returned node, resp. Back(), after the call) *)
Definition step (c : chain) (e : event) : chain * obs :=
  if negb (bad c =? 0) then (c, bad_obs c) else
  match e with
  | EReset h tok => let c' := reset c h tok in
      (c', if bad c' =? 0 then ONode (view (slots c') (back_ptr c')) else bad_obs c')
  | EPush h tok => let c' := push c h tok in
      (c', if bad c' =? 0 then ONode (view (slots c') (back_ptr c')) else bad_obs c')
  | _ => (c, query c e)
  end.

Definition run (c : chain) (es : list event) : chain := fold_left (fun c e => fst (step c e)) es c.
