(* C06 on the full service — the property theorems about the retry / timeout
   path, and nothing else.  The model composes C06.Model with the query layer
   as NewChainService wires it, reduced to a batch of one request: attempts
   (one peer holding the job, its messages, ending by an accepted response,
   the job timer or a disconnect), the retry counter, the retry limit.  All
   statements hold for every interpretation of the external functions, every
   cache capacity, every history of calls, every NumRetries value, every
   sequence of attempts (any peers, any messages, any endings). *)
From Coq Require Import ZArith List Bool Lia.
From Verif Require Import C06.Model C06.Spec C06.Proofs C06.FModel C06.FSpec C06.FProofs.
Import ListNotations.
Open Scope Z_scope.

(* A PEER IS BANNED IFF IT OFFENDED, also when attempts end by timeout, by
   disconnect or by retry exhaustion: p is banned after a history iff in some
   call that went to the network, in one of the attempts that were made, p
   held the job and sent a response carrying the requested header that fails
   the sanity or the witness check.  How any attempt ended, how many were
   made, and who held the attempt that reached the retry limit do not enter. *)
Theorem C06_full_banned_iff_offended : forall hash_of sanity_ok witness_ok size_of cap cs p,
  In p (bans (ffinal hash_of sanity_ok witness_ok size_of cap g0 cs)) <->
  exists c o, In (c, o) (combine cs (frun hash_of sanity_ok witness_ok size_of cap g0 cs)) /\
              offender hash_of sanity_ok witness_ok c o p.
Proof. exact fbans_exact. Qed.
Print Assumptions C06_full_banned_iff_offended.

(* A bystander is never banned: a peer none of whose handled responses is
   offending -- it answered with another block, a notfound, a transaction,
   nothing at all, or hung up, on any attempt including the one that exhausted
   the retries -- is not in the ban set after the history. *)
Theorem C06_full_bystander_never_banned : forall hash_of sanity_ok witness_ok size_of cap cs p,
  (forall c o a r,
     In (c, o) (combine cs (frun hash_of sanity_ok witness_ok size_of cap g0 cs)) ->
     In a (attempts_made c o) -> a_peer a = p ->
     In r (handled_in hash_of sanity_ok witness_ok (f_blk c) a) ->
     offending hash_of sanity_ok witness_ok (f_blk c) r = false) ->
  ~ In p (bans (ffinal hash_of sanity_ok witness_ok size_of cap g0 cs)).
Proof.
  intros hash_of sanity_ok witness_ok size_of cap cs p H Hin.
  apply fbans_exact in Hin as (c & o & Hco & _ & a & r & Ha & Hr & Hp & Ho).
  rewrite (H c o a r Hco Ha Hp Hr) in Ho. discriminate.
Qed.
Print Assumptions C06_full_bystander_never_banned.

(* One call, from any state: the ban set grows by exactly the call's
   offenders; a call without offender (e.g. every attempt timed out) leaves it
   as it was. *)
Theorem C06_full_call_bans_exactly_offenders : forall hash_of sanity_ok witness_ok size_of cap st c p,
  In p (bans (fst (fget_block hash_of sanity_ok witness_ok size_of cap st c))) <->
  In p (bans st) \/
  offender hash_of sanity_ok witness_ok c (snd (fget_block hash_of sanity_ok witness_ok size_of cap st c)) p.
Proof. exact fget_block_bans. Qed.
Print Assumptions C06_full_call_bans_exactly_offenders.

(* Whatever a call returns has the requested header and passes both checks. *)
Theorem C06_full_returned_valid : forall hash_of sanity_ok witness_ok size_of cap cs c o v,
  In (c, o) (combine cs (frun hash_of sanity_ok witness_ok size_of cap g0 cs)) ->
  o_res (fo_obs o) = RBlock v ->
  valid hash_of sanity_ok witness_ok (f_blk c) v = true.
Proof. exact freturned_valid. Qed.
Print Assumptions C06_full_returned_valid.

(* A call that goes to the network makes at most max(1, NumRetries) attempts;
   it succeeds iff an acceptable response reached the handler in one of them;
   a call that fails has used every attempt it was allowed and reports how the
   last one ended (or is still waiting for a peer). *)
Theorem C06_full_retry_outcome : forall hash_of sanity_ok witness_ok size_of cap st c,
  let o := snd (fget_block hash_of sanity_ok witness_ok size_of cap st c) in
  o_queried (fo_obs o) = true ->
  0 <= fo_used o <= budget c /\
  (is_err (o_res (fo_obs o)) = false <->
   existsb (acceptable hash_of sanity_ok witness_ok (f_blk c)) (seen hash_of sanity_ok witness_ok c o) = true) /\
  (is_err (o_res (fo_obs o)) = true ->
   match fo_class o with
   | FCTimeout => fo_used o = budget c /\ last_end (attempts_made c o) = Some ETimeout
   | FCDisconnected => fo_used o = budget c /\ last_end (attempts_made c o) = Some EDisconnect
   | FCStarved => fo_used o = Z.of_nat (length (f_atts c)) /\ fo_used o < budget c
   | _ => False
   end).
Proof. exact fget_block_outcome. Qed.
Print Assumptions C06_full_retry_outcome.

(* The full-service model IS C06.Model on the stream of HandleResp calls the
   query layer makes: observations and final state of every history are those
   of C06.Model on the compiled calls, so every theorem of C06.Properties
   holds of them. *)
Theorem C06_full_is_a_response_stream : forall hash_of sanity_ok witness_ok size_of cap cs st,
  map fo_obs (frun hash_of sanity_ok witness_ok size_of cap st cs) =
    run hash_of sanity_ok witness_ok size_of cap st (map (compile hash_of sanity_ok witness_ok) cs) /\
  ffinal hash_of sanity_ok witness_ok size_of cap st cs =
    final hash_of sanity_ok witness_ok size_of cap st (map (compile hash_of sanity_ok witness_ok) cs).
Proof. intros. apply frun_compile. Qed.
Print Assumptions C06_full_is_a_response_stream.

(* Every trace of the model satisfies the monitor that the correspondence run
   evaluates on traces of the real service. *)
Theorem C06_full_model_holds : forall hash_of sanity_ok witness_ok size_of cap cs,
  fholds hash_of sanity_ok witness_ok
    (combine cs (frun hash_of sanity_ok witness_ok size_of cap g0 cs)) = true.
Proof. exact fmodel_holds. Qed.
Print Assumptions C06_full_model_holds.

(* Non-vacuity.  Block 7.  (1) NumRetries 1, the only peer (1) answers with
   another block and the job timer fires: error "timeout", nobody banned.
   (2) NumRetries 3: peer 2 serves the requested header with a bad merkle root
   (banned, disconnected), peer 3 a notfound and hangs up, peer 4 nothing
   until the timer fires: error "timeout" after 3 attempts, only 2 banned.
   (3) NumRetries 2: peer 5 lies (banned), peer 6 serves the block: returned. *)
Definition exf_hash (t : Z) : Z := if t =? 10 then 8 else 7.
Definition exf_sanity (t : Z) : bool := negb (t =? 11).
Definition exf_witness (_ : Z) : bool := true.
Definition exf_size (_ : Z) : Z := 100.
Definition exf_call n atts := {| f_blk := 7; f_known := true; f_enc := 0; f_retries := n; f_atts := atts |}.
Definition exf_att p ms e := {| a_peer := p; a_msgs := ms; a_end := e |}.
Definition exf_calls : list fcall :=
  [ exf_call 1 [exf_att 1 [(true, 10)] ETimeout];
    exf_call 3 [exf_att 2 [(true, 11)] EDisconnect; exf_att 3 [(false, 0)] EDisconnect; exf_att 4 [] ETimeout];
    exf_call 2 [exf_att 5 [(true, 11)] EDisconnect; exf_att 6 [(true, 13)] ETimeout] ].
Example C06_full_nonvacuous :
  map (fun o => (o_res (fo_obs o), o_bans (fo_obs o), fo_class o, fo_used o, fo_disc o))
      (frun exf_hash exf_sanity exf_witness exf_size 1000 g0 exf_calls) =
  [ (RErrQuery, [], FCTimeout, 1, []);
    (RErrQuery, [2], FCTimeout, 3, [2]);
    (RBlock 13, [5; 2], FCBlock, 2, [5]) ].
Proof. vm_compute. reflexivity. Qed.
