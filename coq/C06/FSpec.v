(* C06 on the full service — the property in its own vocabulary and the
   boolean monitor evaluated on traces of the real service. *)
From Coq Require Import ZArith List Bool.
From Verif Require Import C06.Model C06.Spec C06.FModel.
Import ListNotations.
Open Scope Z_scope.

Section FSpec.
  Variable hash_of : Z -> Z.
  Variable sanity_ok witness_ok : Z -> bool.

  Notation acceptable := (acceptable hash_of sanity_ok witness_ok).
  Notation offending := (offending hash_of sanity_ok witness_ok).

  (* the messages of a peer that reach the request's handler while it holds
     the job: everything up to and including the first acceptable one *)
  Fixpoint upto_accept (target : Z) (rs : list resp) : list resp :=
    match rs with
    | [] => []
    | r :: rest => if acceptable target r then [r] else r :: upto_accept target rest
    end.

  Definition handled_in (target : Z) (a : attempt) : list resp :=
    upto_accept target (map (msg_resp (a_peer a)) (a_msgs a)).

  Definition attempts_made (c : fcall) (o : fobs) : list attempt :=
    firstn (Z.to_nat (fo_used o)) (f_atts c).

  (* an OFFENDER of a call: a peer that, while it held the job, sent a
     response with the requested header that fails the checks *)
  Definition offender (c : fcall) (o : fobs) (p : Z) : Prop :=
    o_queried (fo_obs o) = true /\
    exists a r, In a (attempts_made c o) /\ In r (handled_in (f_blk c) a) /\
                a_peer a = p /\ offending (f_blk c) r = true.

  Definition ftrace := list (fcall * fobs).

  (* ---------------- boolean monitor ---------------- *)
  Definition seen (c : fcall) (o : fobs) : list resp :=
    flat_map (handled_in (f_blk c)) (attempts_made c o).

  Definition offenders (c : fcall) (o : fobs) : list Z :=
    map r_peer (filter (offending (f_blk c)) (seen c o)).

  Definition budget (c : fcall) : Z := Z.max 1 (f_retries c).

  Definition last_end (l : list attempt) : option ending :=
    match rev l with [] => None | a :: _ => Some (a_end a) end.

  Definition class_eqb (a b : fclass) : bool :=
    match a, b with
    | FCBlock, FCBlock | FCTimeout, FCTimeout | FCDisconnected, FCDisconnected
    | FCOther, FCOther | FCStarved, FCStarved => true
    | _, _ => false
    end.

  (* the call of C06.Spec this service-level call amounts to, by the spec's
     own reading of the trace: the batch succeeds iff an acceptable response
     reached the handler *)
  Definition spec_call (c : fcall) (o : fobs) : call :=
    {| c_blk := f_blk c; c_known := f_known c; c_enc := f_enc c; c_resps := seen c o;
       c_verdict := if existsb (acceptable (f_blk c)) (seen c o) then VOk else VErr |}.

  (* o_prog is not observable on the full service *)
  Definition with_prog (o : obs) (c : call) : obs :=
    {| o_res := o_res o; o_queried := o_queried o;
       o_prog := if o_queried o
                 then map (fun r => if acceptable (c_blk c) r then Finished else NoProgress) (c_resps c)
                 else [];
       o_cache := o_cache o; o_bans := o_bans o |}.

  Definition fstep_ok (pc : list (key * Z)) (pb : list Z) (c : fcall) (o : fobs) : bool :=
    let ob := fo_obs o in
    let q := o_queried ob in
    (* everything C06.Spec demands of the call: returned block valid and
       served in this call or cached, banned = senders of offending
       responses (banned <= offenders and offenders <= banned; a bystander --
       other block, notfound, nothing, hang-up -- is never banned, whichever
       attempt it held), cache gains only the returned block *)
    step_ok hash_of sanity_ok witness_ok pc pb (spec_call c o) (with_prog ob (spec_call c o)) &&
    (* an acceptable response that reached the handler is returned *)
    (if q && existsb (acceptable (f_blk c)) (seen c o) then negb (is_err (o_res ob)) else true) &&
    (* the service disconnects exactly the peers it bans in this call *)
    set_eqb (fo_disc o) (if q then offenders c o else []) &&
    (* retry budget: never more attempts than NumRetries (at least one); a
       failed call used all of them and reports how the last one ended *)
    (if q then fo_used o <=? budget c else fo_used o =? 0) &&
    (if q && is_err (o_res ob)
     then match fo_class o, last_end (attempts_made c o) with
          | FCTimeout, Some ETimeout | FCDisconnected, Some EDisconnect => fo_used o =? budget c
          (* no verdict yet: the batch is waiting for a peer (such a call has
             not returned; never part of an implementation trace) *)
          | FCStarved, _ => fo_used o <? budget c
          | _, _ => false
          end
     else true).

  Fixpoint fholds_from (pc : list (key * Z)) (pb : list Z) (tr : ftrace) : bool :=
    match tr with
    | [] => true
    | (c, o) :: rest =>
      fstep_ok pc pb c o && fholds_from (o_cache (fo_obs o)) (o_bans (fo_obs o)) rest
    end.

  Definition fholds (tr : ftrace) : bool := fholds_from [] [] tr.

  Fixpoint ffirst_bad (i : Z) (pc : list (key * Z)) (pb : list Z) (tr : ftrace) : option Z :=
    match tr with
    | [] => None
    | (c, o) :: rest =>
      if fstep_ok pc pb c o then ffirst_bad (i + 1) (o_cache (fo_obs o)) (o_bans (fo_obs o)) rest
      else Some i
    end.
End FSpec.
