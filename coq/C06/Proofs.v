(* C06 — lemmas. *)
From Coq Require Import ZArith List Bool Lia.
From Verif Require Import C06.Model C06.Spec.
Import ListNotations.
Open Scope Z_scope.

Lemma key_eqb_eq (a b : key) : key_eqb a b = true <-> a = b.
Proof.
  destruct a as [a1 a2], b as [b1 b2]. unfold key_eqb. cbn [fst snd].
  rewrite andb_true_iff, !Z.eqb_eq. split.
  - intros [-> ->]. reflexivity.
  - intros [= -> ->]. split; reflexivity.
Qed.

Lemma key_eqb_refl (a : key) : key_eqb a a = true.
Proof. apply key_eqb_eq. reflexivity. Qed.

(* ------------------------------------------------------------------ *)
Section LruLemmas.
  Context {K : Type}.
  Variable keqb : K -> K -> bool.

  Lemma lru_remove_In c k (e : @entry K) : In e (lru_remove keqb c k) -> In e c.
  Proof. unfold lru_remove. intros H. apply filter_In in H. tauto. Qed.

  Lemma trim_rev_In cap n r (e : @entry K) : In e (trim_rev cap n r) -> In e r.
  Proof.
    induction r as [|a r IH]; cbn [trim_rev]; [tauto|].
    destruct (cap - lru_size (a :: r) <? n); [|tauto].
    intros H. right. apply IH, H.
  Qed.

  Lemma lru_put_In cap c k v sz (e : @entry K) :
    In e (lru_put keqb cap c k v sz) -> e = (k, v, sz) \/ In e c.
  Proof.
    unfold lru_put. destruct (cap <? sz); [tauto|].
    intros [H|H]; [left; symmetry; exact H|right].
    apply in_rev in H. apply trim_rev_In in H. apply in_rev in H.
    eapply lru_remove_In; eauto.
  Qed.

  Lemma lru_get_some c k v c' :
    lru_get keqb c k = (Some v, c') ->
    exists e, In e c /\ keqb (ekey e) k = true /\ eval e = v /\
              c' = e :: lru_remove keqb c k.
  Proof.
    unfold lru_get, lru_find. destruct (find _ c) as [e|] eqn:F; [|discriminate].
    intros [= <- <-]. apply find_some in F as [Hin Hk]. exists e. auto.
  Qed.

  Lemma lru_get_none c k c' :
    lru_get keqb c k = (None, c') ->
    c' = c /\ forall e, In e c -> keqb (ekey e) k = false.
  Proof.
    unfold lru_get, lru_find. destruct (find _ c) as [e|] eqn:F; [discriminate|].
    intros [= <-]. split; [reflexivity|]. intros e He.
    exact (find_none _ _ F e He).
  Qed.

  Lemma lru_get_hit c k e :
    In e c -> keqb (ekey e) k = true ->
    exists e', In e' c /\ keqb (ekey e') k = true /\
               lru_get keqb c k = (Some (eval e'), e' :: lru_remove keqb c k).
  Proof.
    intros Hin Hk. unfold lru_get, lru_find.
    destruct (find _ c) as [e'|] eqn:F.
    - apply find_some in F as [Hin' Hk']. exists e'. auto.
    - exfalso. pose proof (find_none _ _ F e Hin) as H. cbv beta in H. congruence.
  Qed.
End LruLemmas.

(* ------------------------------------------------------------------ *)
Section Oracles.
  Variable hash_of : Z -> Z.
  Variable sanity_ok witness_ok : Z -> bool.
  Variable size_of : Z -> Z.

  Notation handle := (handle hash_of sanity_ok witness_ok).
  Notation feed := (feed hash_of sanity_ok witness_ok).
  Notation get_block := (get_block hash_of sanity_ok witness_ok size_of).
  Notation run := (run hash_of sanity_ok witness_ok size_of).
  Notation final := (final hash_of sanity_ok witness_ok size_of).
  Notation valid := (valid hash_of sanity_ok witness_ok).
  Notation addressed := (addressed hash_of).
  Notation acceptable := (acceptable hash_of sanity_ok witness_ok).
  Notation offending := (offending hash_of sanity_ok witness_ok).
  Notation holds := (holds hash_of sanity_ok witness_ok).
  Notation holds_from := (holds_from hash_of sanity_ok witness_ok).
  Notation step_ok := (step_ok hash_of sanity_ok witness_ok).

  (* the three, mutually exclusive, behaviours of the response closure *)
  Lemma handle_cases target s r :
    (addressed target r = false /\ handle target s r = (s, NoProgress)) \/
    (offending target r = true /\
     handle target s r = ({| found := found s; qbans := r_peer r :: qbans s |}, NoProgress)) \/
    (acceptable target r = true /\
     handle target s r = ({| found := Some (r_tok r); qbans := qbans s |}, Finished)).
  Proof.
    unfold Model.handle, Spec.offending, Spec.acceptable, Spec.addressed.
    destruct (r_req_ok r), (r_is_block r), (hash_of (r_tok r) =? target),
      (sanity_ok (r_tok r)), (witness_ok (r_tok r)); cbn;
      first [left; split; reflexivity | right; left; split; reflexivity
            | right; right; split; reflexivity].
  Qed.

  Lemma classes_exclusive target r :
    (addressed target r = false -> offending target r = false /\ acceptable target r = false) /\
    (offending target r = true -> acceptable target r = false) /\
    (acceptable target r = true -> offending target r = false).
  Proof.
    unfold Spec.offending, Spec.acceptable.
    destruct (addressed target r), (sanity_ok (r_tok r) && witness_ok (r_tok r)); cbn; auto.
  Qed.

  Lemma acceptable_valid target r :
    acceptable target r = true -> valid target (r_tok r) = true.
  Proof.
    unfold Spec.acceptable, Spec.addressed, Spec.valid.
    destruct (r_req_ok r), (r_is_block r), (hash_of (r_tok r) =? target),
      (sanity_ok (r_tok r)), (witness_ok (r_tok r)); cbn; congruence.
  Qed.

  Definition feed_from (target : Z) (s : qstate) (rs : list resp) : qstate :=
    fold_left (fun s r => fst (handle target s r)) rs s.

  Lemma feed_from_spec target rs : forall s,
    let q := feed_from target s rs in
    (forall p, In p (qbans q) <->
               In p (qbans s) \/ exists r, In r rs /\ r_peer r = p /\ offending target r = true) /\
    (forall v, found q = Some v ->
               found s = Some v \/ exists r, In r rs /\ acceptable target r = true /\ r_tok r = v) /\
    ((forall r, In r rs -> acceptable target r = false) -> found q = found s).
  Proof.
    induction rs as [|r rs IH]; intros s; cbn [feed_from fold_left].
    - repeat split.
      + intros H; left; exact H.
      + intros [H|[r [[] _]]]; exact H.
      + intros v H; left; exact H.
    - specialize (IH (fst (handle target s r))).
      destruct IH as (IHb & IHf & IHn).
      destruct (handle_cases target s r) as [[Ha E]|[[Ho E]|[Hc E]]]; rewrite E in *; cbn [fst found qbans] in *.
      + destruct (classes_exclusive target r) as (X & _ & _). destruct (X Ha) as [Xo Xa].
        repeat split.
        * intros H. apply IHb in H as [H|(r' & Hin & Hp & Hoff)]; [left; exact H|].
          right; exists r'; split; [right; exact Hin|split; assumption].
        * intros [H|(r' & [<-|Hin] & Hp & Hoff)].
          -- apply IHb; left; exact H.
          -- congruence.
          -- apply IHb; right; exists r'; auto.
        * intros v H. apply IHf in H as [H|(r' & Hin & Hacc & Ht)]; [left; exact H|].
          right; exists r'; split; [right; exact Hin|split; assumption].
        * intros H. apply IHn. intros r' Hin. apply H. right; exact Hin.
      + repeat split.
        * intros H. apply IHb in H as [[<-|H]|(r' & Hin & Hp & Hoff)].
          -- right; exists r; split; [left; reflexivity|split; [reflexivity|exact Ho]].
          -- left; exact H.
          -- right; exists r'; split; [right; exact Hin|split; assumption].
        * intros [H|(r' & [<-|Hin] & Hp & Hoff)].
          -- apply IHb; left; right; exact H.
          -- apply IHb; left; left; exact Hp.
          -- apply IHb; right; exists r'; auto.
        * intros v H. apply IHf in H as [H|(r' & Hin & Hacc & Ht)]; [left; exact H|].
          right; exists r'; split; [right; exact Hin|split; assumption].
        * intros H. apply IHn. intros r' Hin. apply H. right; exact Hin.
      + destruct (classes_exclusive target r) as (_ & _ & X). specialize (X Hc).
        repeat split.
        * intros H. apply IHb in H as [H|(r' & Hin & Hp & Hoff)]; [left; exact H|].
          right; exists r'; split; [right; exact Hin|split; assumption].
        * intros [H|(r' & [<-|Hin] & Hp & Hoff)].
          -- apply IHb; left; exact H.
          -- congruence.
          -- apply IHb; right; exists r'; auto.
        * intros v H. apply IHf in H as [[= <-]|(r' & Hin & Hacc & Ht)].
          -- right; exists r; split; [left; reflexivity|split; [exact Hc|reflexivity]].
          -- right; exists r'; split; [right; exact Hin|split; assumption].
        * intros H. exfalso. specialize (H r (or_introl eq_refl)). congruence.
  Qed.

  Lemma feed_spec target rs :
    let q := feed target rs in
    (forall p, In p (qbans q) <-> exists r, In r rs /\ r_peer r = p /\ offending target r = true) /\
    (forall v, found q = Some v -> exists r, In r rs /\ acceptable target r = true /\ r_tok r = v) /\
    ((forall r, In r rs -> acceptable target r = false) -> found q = None).
  Proof.
    destruct (feed_from_spec target rs q0) as (Hb & Hf & Hn).
    change (feed_from target q0 rs) with (feed target rs) in *. cbn [q0 qbans found] in *.
    repeat split.
    - intros H. apply Hb in H as [[]|H]; exact H.
    - intros H. apply Hb. right; exact H.
    - intros v H. apply Hf in H as [H|H]; [discriminate|exact H].
    - exact Hn.
  Qed.

  Lemma add_ban_In p q l : In p (add_ban q l) <-> p = q \/ In p l.
  Proof.
    unfold add_ban. destruct (existsb (Z.eqb q) l) eqn:E.
    - split; [intros H; right; exact H|]. intros [->|H]; [|exact H].
      apply existsb_exists in E as (x & Hin & Hx). apply Z.eqb_eq in Hx. subst. exact Hin.
    - cbn. split; intros [H|H]; auto.
  Qed.

  Lemma fold_add_ban_In p l0 l : In p (fold_right add_ban l0 l) <-> In p l \/ In p l0.
  Proof.
    induction l as [|a l IH]; cbn [fold_right].
    - cbn. tauto.
    - rewrite add_ban_In, IH. cbn. intuition.
  Qed.

  (* ---------------------------------------------------------------- *)
  (* one call *)

  Definition cache_inv (st : gstate) : Prop :=
    forall e, In e (bcache st) -> valid (snd (ekey e)) (eval e) = true.

  Definition queried_offender (c : call) (o : obs) (p : Z) : Prop :=
    o_queried o = true /\ exists r, In r (c_resps c) /\ r_peer r = p /\ offending (c_blk c) r = true.

  Ltac gb c st :=
    unfold Model.get_block;
    destruct (c_known c) eqn:Hknown; cbn [negb];
    [ destruct (lru_get key_eqb (bcache st) (c_enc c, c_blk c)) as [[hv|] hc] eqn:Hget;
      [ | destruct (c_verdict c) eqn:Hverd;
          [ destruct (found (feed (c_blk c) (c_resps c))) as [fv|] eqn:Hfound | | ] ]
    | ]; cbn [fst snd mk_obs o_res o_queried o_prog o_cache o_bans bcache bans].

  Lemma get_block_inv cap st c : cache_inv st -> cache_inv (fst (get_block cap st c)).
  Proof.
    intros Hinv. gb c st; try exact Hinv.
    - apply lru_get_some in Hget as (e & Hin & Hk & Hv & ->).
      intros x [<-|Hx]; [apply Hinv, Hin|]. apply Hinv. eapply lru_remove_In; eauto.
    - intros x Hx. apply lru_put_In in Hx as [->|Hx]; [|apply Hinv, Hx].
      cbn [ekey eval fst snd].
      destruct (feed_spec (c_blk c) (c_resps c)) as (_ & Hf & _).
      apply Hf in Hfound as (r & _ & Hacc & <-). apply acceptable_valid, Hacc.
  Qed.

  Lemma get_block_valid cap st c v :
    cache_inv st -> o_res (snd (get_block cap st c)) = RBlock v -> valid (c_blk c) v = true.
  Proof.
    intros Hinv. gb c st; try discriminate.
    - intros [= <-]. apply lru_get_some in Hget as (e & Hin & Hk & Hv & _).
      apply key_eqb_eq in Hk. specialize (Hinv e Hin). rewrite Hk, Hv in Hinv. exact Hinv.
    - intros [= <-].
      destruct (feed_spec (c_blk c) (c_resps c)) as (_ & Hf & _).
      apply Hf in Hfound as (r & _ & Hacc & <-). apply acceptable_valid, Hacc.
  Qed.

  (* banned exactly the senders of offending responses of a call that went
     to the network *)
  Lemma get_block_bans cap st c p :
    In p (bans (fst (get_block cap st c))) <->
    In p (bans st) \/ queried_offender c (snd (get_block cap st c)) p.
  Proof.
    unfold queried_offender.
    destruct (feed_spec (c_blk c) (c_resps c)) as (Hb & _ & _).
    gb c st; try rewrite fold_add_ban_In, Hb; intuition congruence.
  Qed.

  (* o_bans of the observation is the state's ban list *)
  Lemma get_block_obs cap st c :
    o_bans (snd (get_block cap st c)) = bans (fst (get_block cap st c)) /\
    o_cache (snd (get_block cap st c)) = cache_view (bcache (fst (get_block cap st c))).
  Proof. gb c st; split; reflexivity. Qed.

  (* a response stream without an acceptable response ends in an error;
     so does any batch the dispatcher reports failed, and an unknown header *)
  Lemma get_block_error cap st c :
    (forall e, In e (bcache st) -> key_eqb (ekey e) (c_enc c, c_blk c) = false) ->
    (forall r, In r (c_resps c) -> acceptable (c_blk c) r = false) \/ c_verdict c <> VOk
      \/ c_known c = false ->
    is_err (o_res (snd (get_block cap st c))) = true /\
    bcache (fst (get_block cap st c)) = bcache st.
  Proof.
    intros Hmiss H. gb c st; try (split; reflexivity).
    - exfalso. apply lru_get_some in Hget as (e & Hin & Hk & _). rewrite (Hmiss e Hin) in Hk. discriminate.
    - exfalso. destruct H as [H|[H|H]]; try congruence.
      destruct (feed_spec (c_blk c) (c_resps c)) as (_ & _ & Hn). rewrite (Hn H) in Hfound. discriminate.
  Qed.

  (* a block obtained from the network is carried by an acceptable response
     of this very call, and the batch verdict was success *)
  Lemma get_block_from_network cap st c v :
    o_res (snd (get_block cap st c)) = RBlock v ->
    o_queried (snd (get_block cap st c)) = true ->
    c_verdict c = VOk /\ exists r, In r (c_resps c) /\ acceptable (c_blk c) r = true /\ r_tok r = v.
  Proof.
    gb c st; try discriminate. intros [= <-] _. split; [reflexivity|].
    destruct (feed_spec (c_blk c) (c_resps c)) as (_ & Hf & _). apply Hf, Hfound.
  Qed.

  (* a cached block is returned without the network, nobody gets banned *)
  Lemma get_block_cached cap st c e :
    c_known c = true -> In e (bcache st) -> ekey e = (c_enc c, c_blk c) ->
    exists e', In e' (bcache st) /\ ekey e' = (c_enc c, c_blk c) /\
      o_res (snd (get_block cap st c)) = RBlock (eval e') /\
      o_queried (snd (get_block cap st c)) = false /\
      bans (fst (get_block cap st c)) = bans st.
  Proof.
    intros Hk Hin He.
    destruct (lru_get_hit key_eqb (bcache st) (c_enc c, c_blk c) e Hin) as (e' & Hin' & Hk' & Hg).
    { rewrite He. apply key_eqb_refl. }
    exists e'. unfold Model.get_block. rewrite Hk, Hg. cbn.
    apply key_eqb_eq in Hk'. auto.
  Qed.

  (* the cache gains nothing but the block just returned *)
  Lemma get_block_cache_growth cap st c e :
    In e (bcache (fst (get_block cap st c))) ->
    In e (bcache st) \/
    (ekey e = (c_enc c, c_blk c) /\ o_res (snd (get_block cap st c)) = RBlock (eval e)).
  Proof.
    gb c st; try (intros H; left; exact H).
    - apply lru_get_some in Hget as (e0 & Hin & Hk & Hv & ->).
      intros [<-|H]; [left; exact Hin|]. left. eapply lru_remove_In; eauto.
    - intros H. apply lru_put_In in H as [->|H]; [right|left; exact H]. split; reflexivity.
  Qed.

  (* ---------------------------------------------------------------- *)
  (* every history of calls *)

  Lemma run_cons cap st c cs :
    run cap st (c :: cs) = snd (get_block cap st c) :: run cap (fst (get_block cap st c)) cs.
  Proof. cbn [Model.run]. destruct (get_block cap st c). reflexivity. Qed.

  Lemma final_cons cap st c cs :
    final cap st (c :: cs) = final cap (fst (get_block cap st c)) cs.
  Proof. reflexivity. Qed.

  Lemma returned_valid_from cap cs : forall st, cache_inv st ->
    forall c o v, In (c, o) (combine cs (run cap st cs)) -> o_res o = RBlock v ->
    valid (c_blk c) v = true.
  Proof.
    induction cs as [|c0 cs IH]; intros st Hinv c o v Hin Hres; [destruct Hin|].
    rewrite run_cons in Hin. cbn [combine] in Hin. destruct Hin as [[= <- <-]|Hin].
    - eapply get_block_valid; eauto.
    - eapply (IH (fst (get_block cap st c0))); [apply get_block_inv, Hinv | exact Hin | exact Hres].
  Qed.

  Lemma cache_inv_g0 : cache_inv g0.
  Proof. intros e []. Qed.

  Lemma returned_valid cap cs c o v :
    In (c, o) (combine cs (run cap g0 cs)) -> o_res o = RBlock v -> valid (c_blk c) v = true.
  Proof. apply returned_valid_from, cache_inv_g0. Qed.

  Lemma final_cache_valid cap cs : forall st, cache_inv st -> cache_inv (final cap st cs).
  Proof.
    induction cs as [|c cs IH]; intros st H; [exact H|]. rewrite final_cons. apply IH, get_block_inv, H.
  Qed.

  Lemma bans_exact_from cap cs : forall st p,
    In p (bans (final cap st cs)) <->
    In p (bans st) \/ exists c o, In (c, o) (combine cs (run cap st cs)) /\ queried_offender c o p.
  Proof.
    induction cs as [|c0 cs IH]; intros st p.
    - cbn. split; [intros H; left; exact H|]. intros [H|(c & o & [] & _)]; exact H.
    - rewrite final_cons, run_cons, IH, get_block_bans. cbn [combine]. split.
      + intros [[H|H]|(c & o & Hin & Hq)].
        * left; exact H.
        * right. exists c0, (snd (get_block cap st c0)). split; [left; reflexivity|exact H].
        * right. exists c, o. split; [right; exact Hin|exact Hq].
      + intros [H|(c & o & [[= <- <-]|Hin] & Hq)].
        * left; left; exact H.
        * left; right; exact Hq.
        * right. exists c, o. split; assumption.
  Qed.

  Lemma bans_exact cap cs p :
    In p (bans (final cap g0 cs)) <->
    exists c o, In (c, o) (combine cs (run cap g0 cs)) /\ queried_offender c o p.
  Proof. rewrite bans_exact_from. cbn. intuition. Qed.

  Lemma cache_only_returned_from cap cs : forall st e,
    In e (bcache (final cap st cs)) ->
    In e (bcache st) \/
    returned_before (combine cs (run cap st cs)) (ekey e) (eval e).
  Proof.
    induction cs as [|c0 cs IH]; intros st e H; [left; exact H|].
    rewrite final_cons in H. rewrite run_cons. cbn [combine].
    apply IH in H as [H|(c & o & Hin & Hk & Hr)].
    - apply get_block_cache_growth in H as [H|[Hk Hr]]; [left; exact H|right].
      exists c0, (snd (get_block cap st c0)). split; [left; reflexivity|]. split; [symmetry; exact Hk|exact Hr].
    - right. exists c, o. split; [right; exact Hin|]. split; assumption.
  Qed.

  Lemma cache_only_returned cap cs e :
    In e (bcache (final cap g0 cs)) ->
    returned_before (combine cs (run cap g0 cs)) (ekey e) (eval e) /\
    valid (snd (ekey e)) (eval e) = true.
  Proof.
    intros H. split.
    - apply cache_only_returned_from in H as [[]|H]. exact H.
    - exact (final_cache_valid cap cs g0 cache_inv_g0 e H).
  Qed.

  Lemma ignored target s r : addressed target r = false -> handle target s r = (s, NoProgress).
  Proof.
    intros Ha. destruct (handle_cases target s r) as [[_ E]|[[Ho _]|[Hc _]]]; [exact E| |];
      destruct (classes_exclusive target r) as (X & _ & _); destruct (X Ha); congruence.
  Qed.
  (* ---------------------------------------------------------------- *)
  (* the monitor accepts every trace of the model *)

  Lemma kv_eqb_refl x : kv_eqb x x = true.
  Proof. unfold kv_eqb. rewrite key_eqb_refl, Z.eqb_refl. reflexivity. Qed.

  Lemma kv_mem_view (c : list (@entry key)) e : In e c -> kv_mem (ekey e, eval e) (cache_view c) = true.
  Proof.
    intros H. unfold kv_mem. apply existsb_exists. exists (ekey e, eval e). split.
    - unfold cache_view. apply in_map_iff. exists e. auto.
    - apply kv_eqb_refl.
  Qed.

  Lemma hit_view_false (c : list (@entry key)) k :
    (forall e, In e c -> key_eqb (ekey e) k = false) ->
    existsb (fun e : key * Z => key_eqb (fst e) k) (cache_view c) = false.
  Proof.
    intros H. destruct (existsb _ (cache_view c)) eqn:E; [|reflexivity].
    apply existsb_exists in E as (x & Hin & Hx). unfold cache_view in Hin.
    apply in_map_iff in Hin as (e & <- & He). cbn [fst] in Hx. rewrite (H e He) in Hx. discriminate.
  Qed.

  Lemma set_eqb_of_iff a b : (forall p : Z, In p a <-> In p b) -> set_eqb a b = true.
  Proof.
    intros H. unfold set_eqb, subset. apply andb_true_iff. split; apply forallb_forall; intros x Hx;
      unfold zmem; apply existsb_exists; exists x; (split; [apply H, Hx|apply Z.eqb_refl]).
  Qed.

  Lemma prog_eqb_refl l : prog_eqb l l = true.
  Proof. induction l as [|[] l IH]; cbn; auto. Qed.

  Lemma progs_spec c :
    prog_eqb (progs hash_of sanity_ok witness_ok c)
      (map (fun r => if acceptable (c_blk c) r then Finished else NoProgress) (c_resps c)) = true.
  Proof.
    unfold progs. induction (c_resps c) as [|r rs IH]; [reflexivity|]. cbn [map prog_eqb].
    rewrite IH, andb_true_r.
    destruct (handle_cases (c_blk c) q0 r) as [[Ha E]|[[Ho E]|[Hc E]]]; rewrite E; cbn [snd].
    - destruct (classes_exclusive (c_blk c) r) as (X & _ & _). destruct (X Ha) as [_ ->]. reflexivity.
    - destruct (classes_exclusive (c_blk c) r) as (_ & X & _). rewrite (X Ho). reflexivity.
    - rewrite Hc. reflexivity.
  Qed.

  Lemma step_ok_model cap st c :
    step_ok (cache_view (bcache st)) (bans st) c (snd (get_block cap st c)) = true.
  Proof.
    unfold Spec.step_ok. rewrite !andb_true_iff. repeat split.
    - gb c st; reflexivity.
    - gb c st; try reflexivity; cbn [andb]; unfold Spec.call_key;
        try (apply lru_get_none in Hget as [_ Hn];
             rewrite (hit_view_false _ _ Hn); reflexivity).
      destruct (existsb _ _); reflexivity.
    - destruct (o_res (snd (get_block cap st c))) as [v| | |] eqn:Hres; try reflexivity.
      destruct (o_queried (snd (get_block cap st c))) eqn:Hq.
      + destruct (get_block_from_network cap st c v Hres Hq) as (Hv & r & Hin & Hacc & Ht).
        rewrite Hv. cbn [andb]. apply existsb_exists. exists r. split; [exact Hin|].
        rewrite Hacc, Ht, Z.eqb_refl. reflexivity.
      + revert Hres Hq. gb c st; try discriminate. intros [= <-] _.
        apply lru_get_some in Hget as (e & Hin & Hk & Hv & _).
        apply key_eqb_eq in Hk. unfold Spec.call_key. rewrite <- Hk, <- Hv. apply kv_mem_view, Hin.
    - gb c st; try reflexivity; apply progs_spec.
    - destruct (get_block_obs cap st c) as [-> _].
      apply set_eqb_of_iff. intros p. rewrite get_block_bans. unfold queried_offender.
      destruct (o_queried (snd (get_block cap st c))).
      + rewrite in_app_iff, in_map_iff. split.
        * intros [H|(_ & r & Hin & Hp & Ho)]; [right; exact H|left].
          exists r. split; [exact Hp|]. apply filter_In. split; assumption.
        * intros [(r & Hp & Hf)|H]; [right|left; exact H]. apply filter_In in Hf as [Hin Ho].
          split; [reflexivity|]. exists r. auto.
      + split; [intros [H|[H _]]; [exact H|discriminate]|intros H; left; exact H].
    - destruct (get_block_obs cap st c) as [_ ->].
      apply forallb_forall. intros x Hx. unfold cache_view in Hx. apply in_map_iff in Hx as (e & <- & He).
      apply get_block_cache_growth in He as [He|[Hk Hr]].
      + rewrite (kv_mem_view _ _ He). reflexivity.
      + rewrite Hr. unfold Spec.call_key. rewrite <- Hk, kv_eqb_refl. apply orb_true_r.
  Qed.

  Lemma holds_from_model cap cs : forall st,
    holds_from (cache_view (bcache st)) (bans st) (combine cs (run cap st cs)) = true.
  Proof.
    induction cs as [|c cs IH]; intros st; [reflexivity|].
    rewrite run_cons. cbn [combine Spec.holds_from]. rewrite step_ok_model. cbn [andb].
    destruct (get_block_obs cap st c) as [-> ->]. apply IH.
  Qed.

  Lemma model_holds cap cs : holds (combine cs (run cap g0 cs)) = true.
  Proof. exact (holds_from_model cap cs g0). Qed.
End Oracles.
