(* C06 with time — the property theorems about bans that LAPSE, and nothing
   else.  The ban state is the timed ban store of C13 (C13.Model.store behind
   ChainService.BanPeer / IsBanned); every response carries the clock reading
   at which it is handled.  All statements hold for every interpretation of
   the external functions, every assignment of addresses to peers, every cache
   capacity, every history of calls and response streams; clock readings are
   only required to be non-decreasing where stated. *)
From Coq Require Import ZArith List Bool Lia.
From Verif Require Import C06.Model C06.Spec C06.Proofs C06.TModel C06.TSpec C06.TProofs.
From Verif Require C13.Model C13.Spec C13.Proofs.
Import ListNotations.
Open Scope Z_scope.

(* AFTER EVERY OFFENCE THE OFFENDER IS BANNED, WHATEVER HAPPENED BEFORE: in
   any state of the ban store and of the call (records of earlier bans of that
   peer, lapsed or not, forgotten or not), handling at clock reading t a
   response that carries the requested header and fails a check leaves its
   sender banned at t and until the recorded expiry (t + BanDuration rounded
   down to a whole second) -- provided the sender's address denotes a network
   (BanPeer fails otherwise).  With BanDuration >= 1 s that window is not
   empty. *)
Theorem C06_timed_offence_bans_at_once :
  forall paddr hash_of sanity_ok witness_ok target dur s r,
  toffending hash_of sanity_ok witness_ok target r = true ->
  pkey paddr (r_peer (t_resp r)) <> None ->
  (forall q, t_now r <= q < lapse_at (t_now r) dur ->
     snd (is_banned paddr
            (snd (fst (thandle paddr hash_of sanity_ok witness_ok target dur s r)))
            (r_peer (t_resp r)) q) = true) /\
  (B.ns <= dur -> t_now r < lapse_at (t_now r) dur).
Proof.
  intros. split.
  - intros q Hq. now apply toffence_bans.
  - intros Hd. unfold lapse_at. pose proof (BP.expiry_bracket (t_now r) dur). lia.
Qed.
Print Assumptions C06_timed_offence_bans_at_once.

(* Every other response leaves the ban store exactly as it was. *)
Theorem C06_timed_other_response_keeps_store :
  forall paddr hash_of sanity_ok witness_ok target dur s r,
  toffending hash_of sanity_ok witness_ok target r = false ->
  snd (fst (thandle paddr hash_of sanity_ok witness_ok target dur s r)) = snd s.
Proof. exact tnon_offence_keeps_store. Qed.
Print Assumptions C06_timed_other_response_keeps_store.

(* A peer is banned iff it offended, over histories with time: after ANY
   history whose clock readings are non-decreasing, IsBanned(p) at clock
   reading q answers true iff the most recent offence from p's network (an
   offending response handled at t in a call that went to the network, under
   ban duration d) has not lapsed: q < (t + d rounded down to a second).  No
   memory of earlier bans, lapsed or lifted, enters the answer. *)
Theorem C06_timed_banned_iff_offended :
  forall paddr hash_of sanity_ok witness_ok size_of cap peers cs p q,
  BS.monotone (readings cs ++ [q]) ->
  let tr := combine cs (trun paddr hash_of sanity_ok witness_ok size_of cap peers ts0 cs) in
  snd (is_banned paddr (tstore (tfinal paddr hash_of sanity_ok witness_ok size_of cap peers ts0 cs)) p q) = true
  <-> exists t d, last_of None (offences paddr hash_of sanity_ok witness_ok p tr) = Some (t, d) /\
                  q < lapse_at t d.
Proof.
  intros paddr hash_of sanity_ok witness_ok size_of cap peers cs p q Hm tr.
  rewrite (tbanned_iff paddr hash_of sanity_ok witness_ok size_of cap peers cs p q Hm).
  fold tr. unfold must_be_banned, banned_at.
  destruct (last_of None (offences paddr hash_of sanity_ok witness_ok p tr)) as [[t d]|].
  - rewrite Z.ltb_lt. split; [intros H; exists t, d; auto|intros (t' & d' & [= <- <-] & H); exact H].
  - split; [discriminate|intros (t & d & [=] & _)].
Qed.
Print Assumptions C06_timed_banned_iff_offended.

(* The ban sets observed after every call of every such history are exactly
   what the history of offences demands at that moment (the monitor that the
   correspondence run evaluates on traces of the real GetBlock). *)
Theorem C06_timed_model_holds :
  forall paddr hash_of sanity_ok witness_ok size_of cap peers cs,
  BS.monotone (readings cs) ->
  tholds paddr hash_of sanity_ok witness_ok peers
    (combine cs (trun paddr hash_of sanity_ok witness_ok size_of cap peers ts0 cs)) = true.
Proof. exact tmodel_holds. Qed.
Print Assumptions C06_timed_model_holds.

(* With the clock erased the timed model IS the model of C06.Model: results,
   network use, Progress values and cache contents of every history are those
   of the untimed run, so every theorem of C06.Properties about them holds
   for the timed histories as well. *)
Theorem C06_timed_refines_untimed :
  forall paddr hash_of sanity_ok witness_ok size_of cap peers cs,
  map untimed_view (trun paddr hash_of sanity_ok witness_ok size_of cap peers ts0 cs) =
  map untimed_view (C06.Model.run hash_of sanity_ok witness_ok size_of cap g0 (map untime cs)).
Proof. intros. now apply trun_untimed. Qed.
Print Assumptions C06_timed_refines_untimed.

(* The addresses of the harness's scripted peers all denote networks. *)
Theorem C06_timed_std_addresses : forall p, pkey paddr_std p <> None.
Proof. exact paddr_std_ok. Qed.
Print Assumptions C06_timed_std_addresses.

(* Non-vacuity: block 7, ban duration 2 s.  Peer 2 serves the requested
   header with a bad merkle root at 1.0 s (banned: seen at 1.5 s); at 4.0 s
   the ban has lapsed (expiry 3 s: not banned, the store forgets the record);
   at 5.0 s the same peer offends again and IS banned again (seen at 5.5 s),
   while peer 3, which only sent another block, never is. *)
Definition ext_hash (t : Z) : Z := if t =? 10 then 8 else 7.
Definition ext_sanity (t : Z) : bool := negb (t =? 11).
Definition ext_witness (_ : Z) : bool := true.
Definition ext_size (_ : Z) : Z := 100.
Definition ext_r p tok now := {| t_resp := {| r_req_ok := true; r_is_block := true; r_peer := p; r_tok := tok |}; t_now := now |}.
Definition ext_call rs obs_now :=
  {| tc_blk := 7; tc_known := true; tc_enc := 0; tc_resps := rs; tc_verdict := VErr;
     tc_dur := 2 * B.ns; tc_obs_now := obs_now |}.
Definition ext_calls : list tcall :=
  [ ext_call [ext_r 3 10 (B.ns - 1); ext_r 2 11 B.ns] (B.ns + B.ns / 2);
    ext_call [] (4 * B.ns);
    ext_call [ext_r 2 11 (5 * B.ns); ext_r 3 10 (5 * B.ns)] (5 * B.ns + B.ns / 2) ].
Example C06_timed_nonvacuous :
  BS.monotone (readings ext_calls) /\
  map o_bans (trun paddr_std ext_hash ext_sanity ext_witness ext_size 1000 [1; 2; 3] ts0 ext_calls) =
  [ [2]; []; [2] ].
Proof. split; [cbn; unfold B.ns; lia|vm_compute; reflexivity]. Qed.
