(* C06 — the property in its own vocabulary, and the boolean monitor that the
   correspondence run evaluates on traces of the real GetBlock. *)
From Coq Require Import ZArith List Bool.
From Verif Require Import C06.Model.
Import ListNotations.
Open Scope Z_scope.

Section Spec.
  Variable hash_of : Z -> Z.
  Variable sanity_ok witness_ok : Z -> bool.

  (* "the requested, internally valid block" *)
  Definition valid (target tok : Z) : bool :=
    (hash_of tok =? target) && sanity_ok tok && witness_ok tok.

  (* a block response that carries the requested header *)
  Definition addressed (target : Z) (r : resp) : bool :=
    r_req_ok r && r_is_block r && (hash_of (r_tok r) =? target).

  Definition acceptable (target : Z) (r : resp) : bool :=
    addressed target r && (sanity_ok (r_tok r) && witness_ok (r_tok r)).

  (* carries the requested header but fails the checks: sender must be banned *)
  Definition offending (target : Z) (r : resp) : bool :=
    addressed target r && negb (sanity_ok (r_tok r) && witness_ok (r_tok r)).

  Definition is_err (r : result) : bool :=
    match r with RBlock _ => false | _ => true end.

  Definition call_key (c : call) : key := (c_enc c, c_blk c).

  (* a trace: calls with the observation made after each *)
  Definition trace := list (call * obs).

  Definition returned_before (tr : trace) (k : key) (v : Z) : Prop :=
    exists c o, In (c, o) tr /\ call_key c = k /\ o_res o = RBlock v.

  (* -------- boolean monitor -------- *)
  Definition kv_eqb (a b : key * Z) : bool := key_eqb (fst a) (fst b) && (snd a =? snd b).
  Definition kv_mem (x : key * Z) (l : list (key * Z)) : bool := existsb (kv_eqb x) l.
  Definition zmem (x : Z) (l : list Z) : bool := existsb (Z.eqb x) l.
  Definition subset (a b : list Z) : bool := forallb (fun x => zmem x b) a.
  Definition set_eqb (a b : list Z) : bool := subset a b && subset b a.

  Definition progress_eqb (a b : progress) : bool :=
    match a, b with NoProgress, NoProgress | Finished, Finished => true | _, _ => false end.
  Fixpoint prog_eqb (a b : list progress) : bool :=
    match a, b with
    | [], [] => true
    | x :: a', y :: b' => progress_eqb x y && prog_eqb a' b'
    | _, _ => false
    end.

  (* pc, pb: cache contents and ban set observed before the call *)
  Definition step_ok (pc : list (key * Z)) (pb : list Z) (c : call) (o : obs) : bool :=
    let k := call_key c in
    let hit := existsb (fun e => key_eqb (fst e) k) pc in
    (* an unknown header is never requested from the network *)
    (if negb (c_known c) then negb (o_queried o) && is_err (o_res o) else true) &&
    (* a cached block is returned without the network *)
    (if c_known c && hit then negb (o_queried o) && negb (is_err (o_res o)) else true) &&
    (* whatever is returned is the cached block, or a valid response of this
       call whose batch the dispatcher reported successful *)
    (match o_res o with
     | RBlock v =>
       if o_queried o
       then (match c_verdict c with VOk => true | _ => false end) &&
            existsb (fun r => acceptable (c_blk c) r && (r_tok r =? v)) (c_resps c)
       else kv_mem (k, v) pc
     | _ => true
     end) &&
    (* HandleResp reports Finished exactly for acceptable responses, no
       progress for everything else *)
    (if o_queried o
     then prog_eqb (o_prog o)
            (map (fun r => if acceptable (c_blk c) r then Finished else NoProgress) (c_resps c))
     else match o_prog o with [] => true | _ => false end) &&
    (* exactly the senders of offending responses get banned *)
    set_eqb (o_bans o)
      (if o_queried o then map r_peer (filter (offending (c_blk c)) (c_resps c)) ++ pb else pb) &&
    (* the cache gains nothing but the returned block *)
    forallb (fun e => kv_mem e pc ||
                      match o_res o with RBlock v => kv_eqb e (k, v) | _ => false end)
            (o_cache o).

  Fixpoint holds_from (pc : list (key * Z)) (pb : list Z) (tr : trace) : bool :=
    match tr with
    | [] => true
    | (c, o) :: rest => step_ok pc pb c o && holds_from (o_cache o) (o_bans o) rest
    end.

  Definition holds (tr : trace) : bool := holds_from [] [] tr.

  (* first failing step, for the replay report *)
  Fixpoint first_bad (i : Z) (pc : list (key * Z)) (pb : list Z) (tr : trace) : option Z :=
    match tr with
    | [] => None
    | (c, o) :: rest =>
      if step_ok pc pb c o then first_bad (i + 1) (o_cache o) (o_bans o) rest else Some i
    end.
End Spec.
