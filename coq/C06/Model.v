(* C06 — GetBlock (query.go) : executable model of the code that exists.
   No proofs here.

   Tokens: a block id (Z) stands for a header hash (the harness uses the
   height for blocks of the committed chain and fresh numbers for any other
   header hash); a block content token (Z) stands for one serialized
   MsgBlock (header + transactions + witness data).  The external functions
     hash_of    : content token -> id of its header hash   (MsgBlock.BlockHash)
     sanity_ok  : blockchain.CheckBlockSanity = nil        (btcd)
     witness_ok : blockchain.ValidateWitnessCommitment = nil (btcd)
     size_of    : MsgBlock.SerializeSize                   (cache accounting)
   are Section variables (oracle tables in the replay).  Peers are numbers. *)
From Coq Require Import ZArith List Bool.
Import ListNotations.
Open Scope Z_scope.

(* ------------------------------------------------------------------ *)
(* cache/lru used sequentially: front of the list = most recently used.
   An entry is (key, value token, size in bytes). *)
Section Lru.
  Context {K : Type}.
  Variable keqb : K -> K -> bool.

  Definition entry : Type := (K * Z * Z)%type.
  Definition ekey (e : entry) : K := fst (fst e).
  Definition eval (e : entry) : Z := snd (fst e).
  Definition esize (e : entry) : Z := snd e.

  Definition lru_size (c : list entry) : Z := fold_right (fun e a => esize e + a) 0 c.
  Definition lru_find (c : list entry) (k : K) : option entry :=
    find (fun e => keqb (ekey e) k) c.
  Definition lru_remove (c : list entry) (k : K) : list entry :=
    filter (fun e => negb (keqb (ekey e) k)) c.

  (* Cache.Get: the value, and the element moved to the front *)
  Definition lru_get (c : list entry) (k : K) : option Z * list entry :=
    match lru_find c k with
    | Some e => (Some (eval e), e :: lru_remove c k)
    | None => (None, c)
    end.

  (* Cache.evict, on the reversed list (head = least recently used): drop
     elements while capacity - size < needed *)
  Fixpoint trim_rev (cap needed : Z) (r : list entry) : list entry :=
    match r with
    | [] => []
    | e :: r' => if cap - lru_size r <? needed then trim_rev cap needed r' else r
    end.

  (* Cache.Put: refuses a value larger than the capacity (error, cache
     unchanged); otherwise removes an existing element of that key, evicts
     from the back until the value fits, pushes to the front *)
  Definition lru_put (cap : Z) (c : list entry) (k : K) (v sz : Z) : list entry :=
    if cap <? sz then c
    else (k, v, sz) :: rev (trim_rev cap sz (rev (lru_remove c k))).
End Lru.

(* ------------------------------------------------------------------ *)
(* one response handed to the request's HandleResp *)
Record resp := {
  r_req_ok : bool;     (* the req argument is the *wire.MsgGetData of the request *)
  r_is_block : bool;   (* the response is a *wire.MsgBlock *)
  r_peer : Z;
  r_tok : Z            (* content token (meaningful when r_is_block) *)
}.

Inductive progress := NoProgress | Finished.

(* what the closure mutates: foundBlock, and (through BanPeer) the ban store *)
Record qstate := { found : option Z; qbans : list Z }.

Definition q0 : qstate := {| found := None; qbans := [] |}.

Inductive verdict := VOk | VErr | VQuit.

(* cache key = wire.InvVect{Type, Hash}: (0 = witness block | 1 = block, id) *)
Definition key : Type := (Z * Z)%type.
Definition key_eqb (a b : key) : bool := (fst a =? fst b) && (snd a =? snd b).

Record call := {
  c_blk : Z;                (* requested block id *)
  c_known : bool;           (* BlockHeaders.FetchHeader finds it (and the header hashes to it) *)
  c_enc : Z;                (* 0 = WitnessEncoding (default), 1 = BaseEncoding *)
  c_resps : list resp;      (* everything the work manager feeds to HandleResp, in order *)
  c_verdict : verdict       (* what arrives on errChan / quit *)
}.

Inductive result :=
| RBlock (tok : Z)
| RErrQuery          (* the dispatcher's error *)
| RErrQuit           (* ErrShuttingDown *)
| RErrOther.         (* header unknown / "couldn't retrieve block" *)

Record gstate := { bcache : list (@entry key); bans : list Z }.
Definition g0 : gstate := {| bcache := []; bans := [] |}.

(* observation of one call: result, whether the work manager was queried,
   the query.Progress HandleResp returned for each response, cache contents
   (most recent first), ban set *)
Record obs := { o_res : result; o_queried : bool; o_prog : list progress;
                o_cache : list (key * Z); o_bans : list Z }.

Definition add_ban (p : Z) (l : list Z) : list Z :=
  if existsb (Z.eqb p) l then l else p :: l.

Section Oracles.
  Variable hash_of : Z -> Z.
  Variable sanity_ok witness_ok : Z -> bool.
  Variable size_of : Z -> Z.

  (* the handleResp closure of GetBlock, branch by branch *)
  Definition handle (target : Z) (s : qstate) (r : resp) : qstate * progress :=
    if negb (r_req_ok r) then (s, NoProgress) else
    if negb (r_is_block r) then (s, NoProgress) else
    if negb (hash_of (r_tok r) =? target) then (s, NoProgress) else
    if negb (sanity_ok (r_tok r)) then
      ({| found := found s; qbans := r_peer r :: qbans s |}, NoProgress) else
    if negb (witness_ok (r_tok r)) then
      ({| found := found s; qbans := r_peer r :: qbans s |}, NoProgress) else
    ({| found := Some (r_tok r); qbans := qbans s |}, Finished).

  Definition feed (target : Z) (rs : list resp) : qstate :=
    fold_left (fun s r => fst (handle target s r)) rs q0.

  Definition cache_view (c : list (@entry key)) : list (key * Z) :=
    map (fun e => (ekey e, eval e)) c.

  (* the Progress value does not depend on the closure's state *)
  Definition progs (c : call) : list progress :=
    map (fun r => snd (handle (c_blk c) q0 r)) (c_resps c).

  Definition mk_obs (st : gstate) (r : result) (q : bool) (pg : list progress) : obs :=
    {| o_res := r; o_queried := q; o_prog := pg;
       o_cache := cache_view (bcache st); o_bans := bans st |}.

  Definition get_block (cap : Z) (st : gstate) (c : call) : gstate * obs :=
    if negb (c_known c) then (st, mk_obs st RErrOther false []) else
    let k := (c_enc c, c_blk c) in
    match lru_get key_eqb (bcache st) k with
    | (Some v, c') =>
      let st' := {| bcache := c'; bans := bans st |} in (st', mk_obs st' (RBlock v) false [])
    | (None, _) =>
      let q := feed (c_blk c) (c_resps c) in
      (* BanPeer calls happen while the responses are handled *)
      let st1 := {| bcache := bcache st; bans := fold_right add_ban (bans st) (qbans q) |} in
      match c_verdict c with
      | VErr => (st1, mk_obs st1 RErrQuery true (progs c))
      | VQuit => (st1, mk_obs st1 RErrQuit true (progs c))
      | VOk =>
        match found q with
        | None => (st1, mk_obs st1 RErrOther true (progs c))
        | Some v =>
          let st2 := {| bcache := lru_put key_eqb cap (bcache st1) k v (size_of v); bans := bans st1 |} in
          (st2, mk_obs st2 (RBlock v) true (progs c))
        end
      end
    end.

  Fixpoint run (cap : Z) (st : gstate) (cs : list call) : list obs :=
    match cs with
    | [] => []
    | c :: rest => let '(st', o) := get_block cap st c in o :: run cap st' rest
    end.

  Definition final (cap : Z) (st : gstate) (cs : list call) : gstate :=
    fold_left (fun s c => fst (get_block cap s c)) cs st.
End Oracles.
