(* C06 — GetBlock with a ban store that forgets: the executable model of
   C06.Model with the ban SET replaced by the timed ban store of C13
   (C13.Model: store, pstep = ChainService.BanPeer / IsBanned on top of
   banman).  Every response carries the clock reading of the moment it is
   handled (BanPeer reads time.Now() in banman), every call the ban duration
   in force (neutrino.BanDuration) and the clock reading at which the ban
   status of the peers is observed after it.  No proofs here. *)
From Coq Require Import ZArith List Bool.
From Verif Require Import C06.Model.
From Verif Require C13.Model.
Import ListNotations.
Open Scope Z_scope.

Module B := Verif.C13.Model.

(* banman.InvalidBlock *)
Definition reason_invalid_block : Z := 5.

Record tresp := { t_resp : resp; t_now : Z }.

Record tcall := {
  tc_blk : Z; tc_known : bool; tc_enc : Z;
  tc_resps : list tresp; tc_verdict : verdict;
  tc_dur : Z;          (* neutrino.BanDuration during the call, ns *)
  tc_obs_now : Z       (* clock reading of the IsBanned sweep after the call *)
}.

Record tstate := { tcache : list (@entry key); tstore : B.store }.
Definition ts0 : tstate := {| tcache := []; tstore := [] |}.

(* the call with the clock erased *)
Definition untime (c : tcall) : call :=
  {| c_blk := tc_blk c; c_known := tc_known c; c_enc := tc_enc c;
     c_resps := map t_resp (tc_resps c); c_verdict := tc_verdict c |}.

Section Timed.
  (* net.ParseIP of the host part of scripted peer p's address *)
  Variable paddr : Z -> B.bytes.
  Variable hash_of : Z -> Z.
  Variable sanity_ok witness_ok : Z -> bool.
  Variable size_of : Z -> Z.

  (* ChainService.BanPeer(addr, InvalidBlock): its error is logged and
     dropped by the closure *)
  Definition ban_peer (bs : B.store) (p now dur : Z) : B.store :=
    fst (B.pstep bs (B.PBan (paddr p) reason_invalid_block now dur)).

  (* ChainService.IsBanned(addr): the store forgets a lapsed record here *)
  Definition is_banned (bs : B.store) (p now : Z) : B.store * bool :=
    let '(bs', ob) := B.pstep bs (B.PIsBanned (paddr p) now) in
    (bs', match ob with B.PAns b => b | _ => false end).

  (* the handleResp closure of GetBlock, branch by branch; state = foundBlock
     and the ban store *)
  Definition thandle (target dur : Z) (s : option Z * B.store) (r : tresp)
    : (option Z * B.store) * progress :=
    let m := t_resp r in
    if negb (r_req_ok m) then (s, NoProgress) else
    if negb (r_is_block m) then (s, NoProgress) else
    if negb (hash_of (r_tok m) =? target) then (s, NoProgress) else
    if negb (sanity_ok (r_tok m)) then
      ((fst s, ban_peer (snd s) (r_peer m) (t_now r) dur), NoProgress) else
    if negb (witness_ok (r_tok m)) then
      ((fst s, ban_peer (snd s) (r_peer m) (t_now r) dur), NoProgress) else
    ((Some (r_tok m), snd s), Finished).

  Definition tfeed_from (target dur : Z) (s : option Z * B.store) (rs : list tresp)
    : option Z * B.store :=
    fold_left (fun s r => fst (thandle target dur s r)) rs s.

  Definition tfeed (target dur : Z) (bs : B.store) (rs : list tresp) : option Z * B.store :=
    tfeed_from target dur (None, bs) rs.

  (* the harness asks IsBanned for every scripted peer, in order *)
  Fixpoint sweep (bs : B.store) (now : Z) (ps : list Z) : B.store * list Z :=
    match ps with
    | [] => (bs, [])
    | p :: rest =>
      let '(bs1, b) := is_banned bs p now in
      let '(bs2, l) := sweep bs1 now rest in
      (bs2, if b then p :: l else l)
    end.

  Definition tfinish (peers : list Z) (c : tcall) (st1 : tstate) (r : result) (q : bool)
      (pg : list progress) : tstate * obs :=
    let '(bs2, bl) := sweep (tstore st1) (tc_obs_now c) peers in
    ({| tcache := tcache st1; tstore := bs2 |},
     {| o_res := r; o_queried := q; o_prog := pg;
        o_cache := cache_view (tcache st1); o_bans := bl |}).

  Definition tget_block (cap : Z) (peers : list Z) (st : tstate) (c : tcall) : tstate * obs :=
    if negb (tc_known c) then tfinish peers c st RErrOther false [] else
    let k := (tc_enc c, tc_blk c) in
    match lru_get key_eqb (tcache st) k with
    | (Some v, c') =>
      tfinish peers c {| tcache := c'; tstore := tstore st |} (RBlock v) false []
    | (None, _) =>
      let q := tfeed (tc_blk c) (tc_dur c) (tstore st) (tc_resps c) in
      let st1 := {| tcache := tcache st; tstore := snd q |} in
      let pg := progs hash_of sanity_ok witness_ok (untime c) in
      match tc_verdict c with
      | VErr => tfinish peers c st1 RErrQuery true pg
      | VQuit => tfinish peers c st1 RErrQuit true pg
      | VOk =>
        match fst q with
        | None => tfinish peers c st1 RErrOther true pg
        | Some v =>
          tfinish peers c
            {| tcache := lru_put key_eqb cap (tcache st) k v (size_of v); tstore := snd q |}
            (RBlock v) true pg
        end
      end
    end.

  Fixpoint trun (cap : Z) (peers : list Z) (st : tstate) (cs : list tcall) : list obs :=
    match cs with
    | [] => []
    | c :: rest => let '(st', o) := tget_block cap peers st c in o :: trun cap peers st' rest
    end.

  Definition tfinal (cap : Z) (peers : list Z) (st : tstate) (cs : list tcall) : tstate :=
    fold_left (fun s c => fst (tget_block cap peers s c)) cs st.
End Timed.

(* the address of scripted peer p of the harness: 10.7.(p/200).(1 + p mod 200),
   as net.ParseIP returns it (16 bytes, IPv4-mapped) *)
Definition paddr_std (p : Z) : B.bytes := B.v4prefix ++ [10; 7; p / 200; 1 + p mod 200].
