(* C06 — GetBlock on the full service: the query layer between GetBlock and
   the peers as NewChainService wires it (query.NewWorkManager with
   query.NewWorker, the default ranking and NO OnMaxTries hook), reduced to
   what a batch of ONE request sees.  The work manager hands the job to one
   peer at a time (an ATTEMPT); the worker feeds every message of that peer
   to the request's HandleResp until one finishes the job, or the job's timer
   fires, or the peer disconnects; a failed attempt is counted and the job
   handed out again until the retry limit.  Which peer gets which attempt
   (ranking, map order) is an input: the model takes the sequence of attempts
   as it happened.  No proofs here. *)
From Coq Require Import ZArith List Bool.
From Verif Require Import C06.Model.
Import ListNotations.
Open Scope Z_scope.

(* how an attempt ends when no message finished the job *)
Inductive ending := ETimeout | EDisconnect.

Record attempt := {
  a_peer : Z;
  a_msgs : list (bool * Z);   (* what the peer sends while it holds the job:
                                 (is a block message, content token) *)
  a_end : ending
}.

Record fcall := {
  f_blk : Z; f_known : bool; f_enc : Z;
  f_retries : Z;              (* the NumRetries option (QueryNumRetries by default) *)
  f_atts : list attempt       (* the attempts the environment offers, in order *)
}.

(* what the batch's error channel delivers *)
Inductive fverdict := FOk | FTimeout | FDisconnected | FStarved.

(* error class seen by the caller *)
Inductive fclass := FCBlock | FCTimeout | FCDisconnected | FCOther | FCStarved.

Record fobs := {
  fo_obs : obs;               (* as in C06.Model (o_prog: what HandleResp answered) *)
  fo_class : fclass;
  fo_used : Z;                (* attempts made *)
  fo_disc : list Z            (* peers the service disconnected during the call *)
}.

Definition msg_resp (p : Z) (m : bool * Z) : resp :=
  {| r_req_ok := true; r_is_block := fst m; r_peer := p; r_tok := snd m |}.

Section Dispatch.
  (* HandleResp answers Finished *)
  Variable fin : resp -> bool.

  (* worker.Run on one job: the HandleResp calls it makes, and whether the
     job finished *)
  Fixpoint serve (p : Z) (ms : list (bool * Z)) : list resp * bool :=
    match ms with
    | [] => ([], false)
    | m :: rest =>
      let r := msg_resp p m in
      if fin r then ([r], true)
      else let '(l, f) := serve p rest in (r :: l, f)
    end.

  Definition end_verdict (e : ending) : fverdict :=
    match e with ETimeout => FTimeout | EDisconnect => FDisconnected end.

  (* workDispatcher for a batch of one request: tries = failed attempts so
     far; result: all HandleResp calls, the verdict, attempts made *)
  Fixpoint dispatch (maxr tries : Z) (atts : list attempt) : list resp * fverdict * Z :=
    match atts with
    | [] => ([], FStarved, 0)
    | a :: rest =>
      let '(l, f) := serve (a_peer a) (a_msgs a) in
      if f then (l, FOk, 1)
      else if maxr <=? tries + 1 then (l, end_verdict (a_end a), 1)
      else let '(l', v, u) := dispatch maxr (tries + 1) rest in (l ++ l', v, 1 + u)
    end.
End Dispatch.

Section Oracles.
  Variable hash_of : Z -> Z.
  Variable sanity_ok witness_ok : Z -> bool.
  Variable size_of : Z -> Z.

  Definition finishes (target : Z) (r : resp) : bool :=
    match snd (handle hash_of sanity_ok witness_ok target q0 r) with
    | Finished => true
    | NoProgress => false
    end.

  Definition dispatched (c : fcall) : list resp * fverdict * Z :=
    dispatch (finishes (f_blk c)) (f_retries c) 0 (f_atts c).

  (* the call GetBlock makes, as C06.Model sees it: the response stream is
     the HandleResp calls of the workers, the verdict what the dispatcher
     sends on the error channel *)
  Definition compile (c : fcall) : call :=
    let '(l, v, _) := dispatched c in
    {| c_blk := f_blk c; c_known := f_known c; c_enc := f_enc c; c_resps := l;
       c_verdict := match v with FOk => VOk | _ => VErr end |}.

  Definition class_of (o : obs) (v : fverdict) : fclass :=
    match o_res o with
    | RBlock _ => FCBlock
    | _ =>
      if o_queried o
      then match v with
           | FTimeout => FCTimeout | FDisconnected => FCDisconnected
           | FStarved => FCStarved | FOk => FCOther
           end
      else FCOther
    end.

  Definition fget_block (cap : Z) (st : gstate) (c : fcall) : gstate * fobs :=
    let '(l, v, u) := dispatched c in
    let '(st', o) := get_block hash_of sanity_ok witness_ok size_of cap st (compile c) in
    (st', {| fo_obs := o; fo_class := class_of o v;
             fo_used := if o_queried o then u else 0;
             (* BanPeer disconnects the peer it bans *)
             fo_disc := if o_queried o
                        then qbans (feed hash_of sanity_ok witness_ok (f_blk c) l) else [] |}).

  Fixpoint frun (cap : Z) (st : gstate) (cs : list fcall) : list fobs :=
    match cs with
    | [] => []
    | c :: rest => let '(st', o) := fget_block cap st c in o :: frun cap st' rest
    end.

  Definition ffinal (cap : Z) (st : gstate) (cs : list fcall) : gstate :=
    fold_left (fun s c => fst (fget_block cap s c)) cs st.
End Oracles.
