(* C06 — the property theorems, and nothing else.
   All statements hold for EVERY interpretation of the external functions
   (hash_of, sanity_ok = btcd CheckBlockSanity verdict, witness_ok = btcd
   ValidateWitnessCommitment verdict, size_of), every cache capacity, every
   sequence of GetBlock calls and every response stream (any messages, from
   any peers, in any order, with duplicates) and dispatcher verdict. *)
From Coq Require Import ZArith List Bool Lia.
From Verif Require Import C06.Model C06.Spec C06.Proofs.
Import ListNotations.
Open Scope Z_scope.

(* Whatever a call returns — from the network or from the cache, at any point
   of any history — has the requested header hash, passes the sanity check
   (merkle root etc.) and the witness-commitment check. *)
Theorem C06_returned_valid : forall hash_of sanity_ok witness_ok size_of cap cs c o v,
  In (c, o) (combine cs (run hash_of sanity_ok witness_ok size_of cap g0 cs)) ->
  o_res o = RBlock v ->
  valid hash_of sanity_ok witness_ok (c_blk c) v = true.
Proof. exact returned_valid. Qed.
Print Assumptions C06_returned_valid.

(* A peer is banned after a history iff, in some call that went to the
   network, it served a response carrying the requested header that fails
   the sanity or the witness check. *)
Theorem C06_banned_iff_offended : forall hash_of sanity_ok witness_ok size_of cap cs p,
  In p (bans (final hash_of sanity_ok witness_ok size_of cap g0 cs)) <->
  exists c o, In (c, o) (combine cs (run hash_of sanity_ok witness_ok size_of cap g0 cs)) /\
    o_queried o = true /\
    exists r, In r (c_resps c) /\ r_peer r = p /\
              offending hash_of sanity_ok witness_ok (c_blk c) r = true.
Proof. exact bans_exact. Qed.
Print Assumptions C06_banned_iff_offended.

(* Every response is handled in exactly one of three ways: not a block
   response with the requested header -> no state change at all; offending
   -> sender banned, nothing else; acceptable -> becomes the found block. *)
Theorem C06_response_classes : forall hash_of sanity_ok witness_ok target s r,
  (addressed hash_of target r = false /\
   handle hash_of sanity_ok witness_ok target s r = (s, NoProgress)) \/
  (offending hash_of sanity_ok witness_ok target r = true /\
   handle hash_of sanity_ok witness_ok target s r =
     ({| found := found s; qbans := r_peer r :: qbans s |}, NoProgress)) \/
  (acceptable hash_of sanity_ok witness_ok target r = true /\
   handle hash_of sanity_ok witness_ok target s r =
     ({| found := Some (r_tok r); qbans := qbans s |}, Finished)).
Proof. exact handle_cases. Qed.
Print Assumptions C06_response_classes.

(* If the block is not cached and the stream has no acceptable response (or
   the dispatcher reports failure, or the header is unknown), the call
   returns an error and caches nothing. *)
Theorem C06_no_accept_error : forall hash_of sanity_ok witness_ok size_of cap st c,
  (forall e, In e (bcache st) -> key_eqb (ekey e) (c_enc c, c_blk c) = false) ->
  (forall r, In r (c_resps c) -> acceptable hash_of sanity_ok witness_ok (c_blk c) r = false)
    \/ c_verdict c <> VOk \/ c_known c = false ->
  is_err (o_res (snd (get_block hash_of sanity_ok witness_ok size_of cap st c))) = true /\
  bcache (fst (get_block hash_of sanity_ok witness_ok size_of cap st c)) = bcache st.
Proof. exact get_block_error. Qed.
Print Assumptions C06_no_accept_error.

(* A block that came from the network was carried by an acceptable response
   of that very call and the batch verdict was success. *)
Theorem C06_network_block_was_served : forall hash_of sanity_ok witness_ok size_of cap st c v,
  o_res (snd (get_block hash_of sanity_ok witness_ok size_of cap st c)) = RBlock v ->
  o_queried (snd (get_block hash_of sanity_ok witness_ok size_of cap st c)) = true ->
  c_verdict c = VOk /\
  exists r, In r (c_resps c) /\ acceptable hash_of sanity_ok witness_ok (c_blk c) r = true /\ r_tok r = v.
Proof. exact get_block_from_network. Qed.
Print Assumptions C06_network_block_was_served.

(* The cache holds only blocks that an earlier call returned for that very
   key, and they are valid for it. *)
Theorem C06_cache_only_returned : forall hash_of sanity_ok witness_ok size_of cap cs e,
  In e (bcache (final hash_of sanity_ok witness_ok size_of cap g0 cs)) ->
  returned_before (combine cs (run hash_of sanity_ok witness_ok size_of cap g0 cs)) (ekey e) (eval e) /\
  valid hash_of sanity_ok witness_ok (snd (ekey e)) (eval e) = true.
Proof. exact cache_only_returned. Qed.
Print Assumptions C06_cache_only_returned.

(* A cached block is returned without the network and nobody is banned. *)
Theorem C06_cached_without_network : forall hash_of sanity_ok witness_ok size_of cap st c e,
  c_known c = true -> In e (bcache st) -> ekey e = (c_enc c, c_blk c) ->
  exists e', In e' (bcache st) /\ ekey e' = (c_enc c, c_blk c) /\
    o_res (snd (get_block hash_of sanity_ok witness_ok size_of cap st c)) = RBlock (eval e') /\
    o_queried (snd (get_block hash_of sanity_ok witness_ok size_of cap st c)) = false /\
    bans (fst (get_block hash_of sanity_ok witness_ok size_of cap st c)) = bans st.
Proof. exact get_block_cached. Qed.
Print Assumptions C06_cached_without_network.

(* Every trace of the model satisfies the monitor that the correspondence
   run evaluates on traces of the real GetBlock. *)
Theorem C06_model_holds : forall hash_of sanity_ok witness_ok size_of cap cs,
  holds hash_of sanity_ok witness_ok
    (combine cs (run hash_of sanity_ok witness_ok size_of cap g0 cs)) = true.
Proof. exact model_holds. Qed.
Print Assumptions C06_model_holds.

(* Non-vacuity: block 7; peer 1 serves another block (ignored), peer 2 the
   right header with a bad merkle root (banned), peer 3 a block whose witness
   commitment is wrong (banned), peer 4 the valid block (returned, cached);
   a second call is served from the cache; a call with only bad responses
   fails. *)
Definition ex_hash (t : Z) : Z := if t =? 10 then 8 else if t <? 20 then 7 else 9.
Definition ex_sanity (t : Z) : bool := negb (t =? 11).
Definition ex_witness (t : Z) : bool := negb (t =? 12).
Definition ex_size (_ : Z) : Z := 100.
Definition ex_r p t := {| r_req_ok := true; r_is_block := true; r_peer := p; r_tok := t |}.
Definition ex_calls : list call :=
  [ {| c_blk := 7; c_known := true; c_enc := 0;
       c_resps := [ex_r 1 10; ex_r 2 11; ex_r 3 12; ex_r 4 13; ex_r 4 13]; c_verdict := VOk |};
    {| c_blk := 7; c_known := true; c_enc := 0; c_resps := [ex_r 5 11]; c_verdict := VOk |};
    {| c_blk := 9; c_known := true; c_enc := 0; c_resps := [ex_r 6 13]; c_verdict := VOk |} ].
Example C06_nonvacuous :
  map (fun o => (o_res o, o_queried o, o_bans o)) (run ex_hash ex_sanity ex_witness ex_size 1000 g0 ex_calls) =
  [ (RBlock 13, true, [3; 2]); (RBlock 13, false, [3; 2]); (RErrOther, true, [3; 2]) ].
Proof. vm_compute. reflexivity. Qed.
