(* C06 with time — replay of implementation traces of the timed family (real
   bbolt ban store, short neutrino.BanDuration, re-offences after the ban
   lapsed) against C06.TModel and the monitor of C06.TSpec.  A case = (cache
   capacity, oracle table, scripted peers in the order their ban status is
   read after each call, list of (timed call, observation)). *)
From Coq Require Import ZArith List Bool.
From Verif Require Import C06.Model C06.Spec C06.Replay C06.TModel C06.TSpec.
Import ListNotations.
Open Scope Z_scope.

Definition tcase : Type := (Z * list orow * list Z * list (tcall * obs))%type.

Fixpoint first_tmismatch (t : list orow) (cap : Z) (peers : list Z) (st : tstate) (i : Z)
    (tr : list (tcall * obs)) : option Z :=
  match tr with
  | [] => None
  | (c, ob) :: rest =>
    let '(st', mo) :=
      tget_block paddr_std (t_hash t) (t_sanity t) (t_witness t) (t_size t) cap peers st c in
    if obs_eqb mo ob then first_tmismatch t cap peers st' (i + 1) rest else Some i
  end.

(* rows (case id, kind, step, tag): kind 1 = model and implementation differ
   at step; kind 2 = the monitor rejects the implementation trace at step *)
Definition tverdict_of (c : Z * tcase) : list (Z * Z * Z * Z) :=
  let '(id, (cap, t, peers, tr)) := c in
  (match first_tmismatch t cap peers ts0 0 tr with Some i => [(id, 1, i, 0)] | None => [] end) ++
  (match tfirst_bad paddr_std (t_hash t) (t_sanity t) (t_witness t) peers 0 [] tr with
   | Some i => [(id, 2, i, 0)] | None => [] end).

Definition run_tcases (cs : list (Z * tcase)) : list (Z * Z * Z * Z) := flat_map tverdict_of cs.

(* constructors used by the generated files *)
Definition TR_ (ok blk : bool) (peer tok now : Z) : tresp :=
  {| t_resp := R_ ok blk peer tok; t_now := now |}.
Definition TC_ (blk : Z) (known : bool) (enc : Z) (rs : list tresp) (v : verdict) (dur obs_now : Z) : tcall :=
  {| tc_blk := blk; tc_known := known; tc_enc := enc; tc_resps := rs; tc_verdict := v;
     tc_dur := dur; tc_obs_now := obs_now |}.
