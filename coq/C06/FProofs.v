(* C06 on the full service — lemmas. *)
From Coq Require Import ZArith List Bool Lia.
From Verif Require Import C06.Model C06.Spec C06.Proofs C06.FModel C06.FSpec.
Import ListNotations.
Open Scope Z_scope.

Lemma last_end_cons a l e : last_end l = Some e -> last_end (a :: l) = Some e.
Proof.
  unfold last_end. cbn [rev]. destruct (rev l) as [|x r]; [discriminate|]. intros H. exact H.
Qed.

Lemma combine_map2 {A B C D} (f : A -> C) (g : B -> D) l : forall l',
  combine (map f l) (map g l') = map (fun p => (f (fst p), g (snd p))) (combine l l').
Proof.
  induction l as [|x l IH]; intros [|y l']; cbn; try reflexivity. rewrite IH. reflexivity.
Qed.

Section Oracles.
  Variable hash_of : Z -> Z.
  Variable sanity_ok witness_ok : Z -> bool.
  Variable size_of : Z -> Z.

  Notation handle := (handle hash_of sanity_ok witness_ok).
  Notation feed := (feed hash_of sanity_ok witness_ok).
  Notation get_block := (get_block hash_of sanity_ok witness_ok size_of).
  Notation run := (run hash_of sanity_ok witness_ok size_of).
  Notation final := (final hash_of sanity_ok witness_ok size_of).
  Notation acceptable := (acceptable hash_of sanity_ok witness_ok).
  Notation offending := (offending hash_of sanity_ok witness_ok).
  Notation valid := (valid hash_of sanity_ok witness_ok).
  Notation finishes := (finishes hash_of sanity_ok witness_ok).
  Notation dispatched := (dispatched hash_of sanity_ok witness_ok).
  Notation compile := (compile hash_of sanity_ok witness_ok).
  Notation fget_block := (fget_block hash_of sanity_ok witness_ok size_of).
  Notation frun := (frun hash_of sanity_ok witness_ok size_of).
  Notation ffinal := (ffinal hash_of sanity_ok witness_ok size_of).
  Notation upto_accept := (upto_accept hash_of sanity_ok witness_ok).
  Notation handled_in := (handled_in hash_of sanity_ok witness_ok).
  Notation offender := (offender hash_of sanity_ok witness_ok).
  Notation seen := (seen hash_of sanity_ok witness_ok).
  Notation offenders := (offenders hash_of sanity_ok witness_ok).
  Notation spec_call := (spec_call hash_of sanity_ok witness_ok).
  Notation with_prog := (with_prog hash_of sanity_ok witness_ok).
  Notation fstep_ok := (fstep_ok hash_of sanity_ok witness_ok).
  Notation fholds_from := (fholds_from hash_of sanity_ok witness_ok).
  Notation fholds := (fholds hash_of sanity_ok witness_ok).
  Notation step_ok := (step_ok hash_of sanity_ok witness_ok).

  (* HandleResp answers Finished exactly for acceptable responses *)
  Lemma finishes_acceptable target r : finishes target r = acceptable target r.
  Proof.
    unfold FModel.finishes.
    destruct (handle_cases hash_of sanity_ok witness_ok target q0 r) as [[Ha E]|[[Ho E]|[Hc E]]];
      rewrite E; cbn [snd].
    - destruct (classes_exclusive hash_of sanity_ok witness_ok target r) as (X & _ & _).
      destruct (X Ha) as [_ ->]. reflexivity.
    - destruct (classes_exclusive hash_of sanity_ok witness_ok target r) as (_ & X & _).
      rewrite (X Ho). reflexivity.
    - rewrite Hc. reflexivity.
  Qed.

  Lemma serve_spec target p ms :
    serve (finishes target) p ms =
    (upto_accept target (map (msg_resp p) ms),
     existsb (acceptable target) (upto_accept target (map (msg_resp p) ms))).
  Proof.
    induction ms as [|m ms IH]; [reflexivity|].
    cbn [serve map FSpec.upto_accept]. rewrite finishes_acceptable.
    destruct (acceptable target (msg_resp p m)) eqn:E.
    - cbn [existsb]. rewrite E. reflexivity.
    - rewrite IH. cbn [existsb]. rewrite E. reflexivity.
  Qed.

  Lemma upto_accept_In target rs r : In r (upto_accept target rs) -> In r rs.
  Proof.
    induction rs as [|x rs IH]; cbn [FSpec.upto_accept]; [tauto|].
    destruct (acceptable target x); cbn; intuition.
  Qed.

  Lemma handled_in_peer target a r : In r (handled_in target a) -> r_peer r = a_peer a.
  Proof.
    unfold FSpec.handled_in. intros H. apply upto_accept_In in H.
    apply in_map_iff in H as (m & <- & _). reflexivity.
  Qed.

  Lemma end_verdict_not_ok e : end_verdict e <> FOk.
  Proof. destruct e; discriminate. Qed.

  (* the dispatcher, attempt by attempt *)
  Lemma dispatch_spec target maxr atts : forall tries l v u,
    dispatch (finishes target) maxr tries atts = (l, v, u) ->
    0 <= u /\ (Z.to_nat u <= length atts)%nat /\
    l = flat_map (handled_in target) (firstn (Z.to_nat u) atts) /\
    (v = FOk <-> existsb (acceptable target) l = true) /\
    u <= Z.max 1 (maxr - tries) /\
    match v with
    | FOk => 1 <= u
    | FStarved => u = Z.of_nat (length atts) /\ u < Z.max 1 (maxr - tries)
    | _ => u = Z.max 1 (maxr - tries) /\
           exists e, last_end (firstn (Z.to_nat u) atts) = Some e /\ v = end_verdict e
    end.
  Proof.
    induction atts as [|a rest IH]; intros tries l v u; cbn [dispatch].
    - intros [= <- <- <-]. cbn. repeat split; try lia; try discriminate.
    - rewrite serve_spec. fold (handled_in target a).
      destruct (existsb (acceptable target) (handled_in target a)) eqn:Ef.
      + intros [= <- <- <-]. change (Z.to_nat 1) with 1%nat. cbn [firstn flat_map length].
        rewrite app_nil_r. repeat split; try lia; auto.
      + destruct (maxr <=? tries + 1) eqn:Em.
        * intros [= <- <- <-]. apply Z.leb_le in Em.
          change (Z.to_nat 1) with 1%nat. cbn [firstn flat_map length].
          rewrite app_nil_r.
          split; [lia|]. split; [lia|]. split; [reflexivity|].
          split; [split; [intros H; exfalso; exact (end_verdict_not_ok _ H)|intros H; congruence]|].
          split; [lia|].
          destruct (a_end a) eqn:Ee; cbn [end_verdict]; (split; [lia|]);
            [exists ETimeout|exists EDisconnect];
            (split; [unfold last_end; cbn [rev app]; rewrite Ee; reflexivity|reflexivity]).
        * destruct (dispatch (finishes target) maxr (tries + 1) rest) as [[l' v'] u'] eqn:Ed.
          intros E. assert (El : l = handled_in target a ++ l') by congruence.
          assert (Ev : v = v') by congruence. assert (Eu : u = 1 + u') by congruence.
          clear E. subst l v u. apply Z.leb_gt in Em.
          destruct (IH (tries + 1) l' v' u' Ed) as (H0 & Hlen & Hl & Hv & Hb & Hm).
          assert (Hn : Z.to_nat (1 + u') = S (Z.to_nat u')) by lia.
          rewrite Hn. cbn [firstn flat_map length].
          repeat split; try lia.
          -- rewrite Hl. reflexivity.
          -- intros H. rewrite existsb_app, Ef. cbn [orb]. apply Hv, H.
          -- intros H. rewrite existsb_app, Ef in H. cbn [orb] in H. apply Hv, H.
          -- destruct v'.
             ++ lia.
             ++ destruct Hm as [Hu (e & He & Hv')]. split; [lia|]. exists e. split; [|exact Hv'].
                apply last_end_cons, He.
             ++ destruct Hm as [Hu (e & He & Hv')]. split; [lia|]. exists e. split; [|exact Hv'].
                apply last_end_cons, He.
             ++ destruct Hm as [Hu Hlt]. split; [|lia]. rewrite Hu. lia.
  Qed.

  Lemma dispatched_spec c l v u : dispatched c = (l, v, u) ->
    0 <= u /\ (Z.to_nat u <= length (f_atts c))%nat /\
    l = flat_map (handled_in (f_blk c)) (firstn (Z.to_nat u) (f_atts c)) /\
    (v = FOk <-> existsb (acceptable (f_blk c)) l = true) /\
    u <= budget c /\
    match v with
    | FOk => 1 <= u
    | FStarved => u = Z.of_nat (length (f_atts c)) /\ u < budget c
    | _ => u = budget c /\
           exists e, last_end (firstn (Z.to_nat u) (f_atts c)) = Some e /\ v = end_verdict e
    end.
  Proof.
    unfold FModel.dispatched, budget. intros H. apply dispatch_spec in H.
    rewrite Z.sub_0_r in H. exact H.
  Qed.

  (* ---- the call, through C06.Model ---- *)
  Lemma fget_block_compile cap st c :
    fst (fget_block cap st c) = fst (get_block cap st (compile c)) /\
    fo_obs (snd (fget_block cap st c)) = snd (get_block cap st (compile c)).
  Proof.
    unfold FModel.fget_block. destruct (dispatched c) as [[l v] u].
    destruct (get_block cap st (compile c)). split; reflexivity.
  Qed.

  Lemma compile_fields c l v u : dispatched c = (l, v, u) ->
    compile c = {| c_blk := f_blk c; c_known := f_known c; c_enc := f_enc c; c_resps := l;
                   c_verdict := match v with FOk => VOk | _ => VErr end |}.
  Proof. unfold FModel.compile. intros ->. reflexivity. Qed.

  Lemma fget_block_fields cap st c l v u : dispatched c = (l, v, u) ->
    let o := snd (fget_block cap st c) in
    fo_used o = (if o_queried (fo_obs o) then u else 0) /\
    fo_class o = class_of (fo_obs o) v /\
    fo_disc o = (if o_queried (fo_obs o) then qbans (feed (f_blk c) l) else []).
  Proof.
    intros H. unfold FModel.fget_block. rewrite H.
    destruct (get_block cap st (compile c)). cbn. repeat split.
  Qed.

  Lemma seen_model cap st c l v u : dispatched c = (l, v, u) ->
    o_queried (fo_obs (snd (fget_block cap st c))) = true ->
    seen c (snd (fget_block cap st c)) = l.
  Proof.
    intros H Hq. destruct (fget_block_fields cap st c l v u H) as (Hu & _ & _).
    cbv zeta in Hu. rewrite Hq in Hu.
    unfold FSpec.seen, attempts_made. rewrite Hu.
    destruct (dispatched_spec c l v u H) as (_ & _ & -> & _). reflexivity.
  Qed.

  (* banned by a call: exactly its offenders *)
  Lemma fget_block_bans cap st c p :
    In p (bans (fst (fget_block cap st c))) <->
    In p (bans st) \/ offender c (snd (fget_block cap st c)) p.
  Proof.
    destruct (dispatched c) as [[l v] u] eqn:Hd.
    destruct (fget_block_compile cap st c) as [E1 E2]. rewrite E1.
    rewrite (get_block_bans hash_of sanity_ok witness_ok size_of). unfold queried_offender.
    rewrite <- E2. rewrite (compile_fields c l v u Hd). cbn [c_resps c_blk].
    unfold FSpec.offender.
    split; (intros [H|[Hq H]]; [left; exact H|right; split; [exact Hq|]]).
    - destruct H as (r & Hin & Hp & Ho).
      pose proof (seen_model cap st c l v u Hd Hq) as Hs. unfold FSpec.seen in Hs. rewrite <- Hs in Hin.
      apply in_flat_map in Hin as (a & Ha & Hr).
      exists a, r. repeat split; try assumption.
      rewrite <- Hp. symmetry. eapply handled_in_peer; eauto.
    - destruct H as (a & r & Ha & Hr & Hp & Ho).
      exists r. repeat split; try assumption.
      + rewrite <- (seen_model cap st c l v u Hd Hq). unfold FSpec.seen.
        apply in_flat_map. exists a. split; assumption.
      + rewrite <- Hp. eapply handled_in_peer; eauto.
  Qed.

  (* ---- histories ---- *)
  Lemma frun_cons cap st c cs :
    frun cap st (c :: cs) = snd (fget_block cap st c) :: frun cap (fst (fget_block cap st c)) cs.
  Proof. cbn [FModel.frun]. destruct (fget_block cap st c). reflexivity. Qed.

  Lemma ffinal_cons cap st c cs :
    ffinal cap st (c :: cs) = ffinal cap (fst (fget_block cap st c)) cs.
  Proof. reflexivity. Qed.

  Lemma frun_compile cap cs : forall st,
    map fo_obs (frun cap st cs) = run cap st (map compile cs) /\
    ffinal cap st cs = final cap st (map compile cs).
  Proof.
    induction cs as [|c cs IH]; intros st; [split; reflexivity|].
    rewrite frun_cons, ffinal_cons. cbn [map].
    rewrite (run_cons hash_of sanity_ok witness_ok size_of), (final_cons hash_of sanity_ok witness_ok size_of).
    destruct (fget_block_compile cap st c) as [E1 E2]. rewrite E1, E2.
    destruct (IH (fst (get_block cap st (compile c)))) as [-> ->]. split; reflexivity.
  Qed.

  Lemma fbans_exact_from cap cs : forall st p,
    In p (bans (ffinal cap st cs)) <->
    In p (bans st) \/ exists c o, In (c, o) (combine cs (frun cap st cs)) /\ offender c o p.
  Proof.
    induction cs as [|c0 cs IH]; intros st p.
    - cbn. split; [intros H; left; exact H|]. intros [H|(c & o & [] & _)]; exact H.
    - rewrite ffinal_cons, frun_cons, IH, fget_block_bans. cbn [combine]. split.
      + intros [[H|H]|(c & o & Hin & Hq)].
        * left; exact H.
        * right. exists c0, (snd (fget_block cap st c0)). split; [left; reflexivity|exact H].
        * right. exists c, o. split; [right; exact Hin|exact Hq].
      + intros [H|(c & o & [[= <- <-]|Hin] & Hq)].
        * left; left; exact H.
        * left; right; exact Hq.
        * right. exists c, o. split; assumption.
  Qed.

  Lemma fbans_exact cap cs p :
    In p (bans (ffinal cap g0 cs)) <->
    exists c o, In (c, o) (combine cs (frun cap g0 cs)) /\ offender c o p.
  Proof. rewrite fbans_exact_from. cbn. intuition. Qed.

  (* whatever is returned is valid *)
  Lemma freturned_valid cap cs c o v :
    In (c, o) (combine cs (frun cap g0 cs)) -> o_res (fo_obs o) = RBlock v ->
    valid (f_blk c) v = true.
  Proof.
    intros Hin Hres.
    assert (In (compile c, fo_obs o) (combine (map compile cs) (run cap g0 (map compile cs)))).
    { destruct (frun_compile cap cs g0) as [<- _].
      rewrite combine_map2. apply in_map_iff. exists (c, o). split; [reflexivity|exact Hin]. }
    pose proof (returned_valid hash_of sanity_ok witness_ok size_of cap (map compile cs) (compile c) (fo_obs o) v H Hres) as Hv.
    unfold FModel.compile in Hv. destruct (dispatched c) as [[l vd] u]. exact Hv.
  Qed.

  (* an acceptable response sets foundBlock, and nothing unsets it *)
  Lemma found_sticky target rs : forall s, found s <> None ->
    found (fold_left (fun s r => fst (handle target s r)) rs s) <> None.
  Proof.
    induction rs as [|x rs IH]; intros s H; cbn [fold_left]; [exact H|]. apply IH.
    destruct (handle_cases hash_of sanity_ok witness_ok target s x) as [[_ E]|[[_ E]|[_ E]]];
      rewrite E; cbn [fst found]; try exact H; discriminate.
  Qed.

  Lemma found_after_acceptable target rs : forall s,
    (exists x, In x rs /\ acceptable target x = true) ->
    found (fold_left (fun s r => fst (handle target s r)) rs s) <> None.
  Proof.
    induction rs as [|x rs IH]; intros s (y & Hin & Hacc); [destruct Hin|].
    cbn [fold_left]. destruct Hin as [->|Hin].
    - apply found_sticky.
      destruct (handle_cases hash_of sanity_ok witness_ok target s y) as [[Ha E]|[[Ho E]|[_ E]]].
      + destruct (classes_exclusive hash_of sanity_ok witness_ok target y) as (X & _ & _).
        destruct (X Ha). congruence.
      + destruct (classes_exclusive hash_of sanity_ok witness_ok target y) as (_ & X & _).
        rewrite (X Ho) in Hacc. discriminate.
      + rewrite E. cbn [fst found]. discriminate.
    - apply IH. exists y. split; assumption.
  Qed.

  (* ---- outcome of one call that goes to the network ---- *)
  Lemma fget_block_outcome cap st c :
    let o := snd (fget_block cap st c) in
    o_queried (fo_obs o) = true ->
    0 <= fo_used o <= budget c /\
    (* success iff an acceptable response reached the handler *)
    (is_err (o_res (fo_obs o)) = false <-> existsb (acceptable (f_blk c)) (seen c o) = true) /\
    (* a failed call *)
    (is_err (o_res (fo_obs o)) = true ->
     match fo_class o with
     | FCTimeout => fo_used o = budget c /\ last_end (attempts_made c o) = Some ETimeout
     | FCDisconnected => fo_used o = budget c /\ last_end (attempts_made c o) = Some EDisconnect
     | FCStarved => fo_used o = Z.of_nat (length (f_atts c)) /\ fo_used o < budget c
     | _ => False
     end).
  Proof.
    cbv zeta. intros Hq.
    destruct (dispatched c) as [[l v] u] eqn:Hd.
    destruct (fget_block_fields cap st c l v u Hd) as (Hu & Hc & _). cbv zeta in Hu, Hc.
    rewrite Hq in Hu.
    pose proof (seen_model cap st c l v u Hd Hq) as Hs.
    destruct (dispatched_spec c l v u Hd) as (H0 & _ & _ & Hv & Hb & Hm).
    destruct (fget_block_compile cap st c) as [_ E2].
    rewrite Hs, Hu, Hc. unfold attempts_made. rewrite Hu.
    (* the result of the underlying call *)
    assert (Hres : is_err (o_res (fo_obs (snd (fget_block cap st c)))) = false <-> v = FOk).
    { rewrite E2 in *. rewrite (compile_fields c l v u Hd) in *.
      revert Hq. unfold Model.get_block. cbn [c_known c_enc c_blk c_resps c_verdict].
      destruct (f_known c); cbn [negb]; [|discriminate].
      destruct (lru_get key_eqb (bcache st) (f_enc c, f_blk c)) as [[hv|] hc]; [discriminate|].
      destruct (feed_spec hash_of sanity_ok witness_ok (f_blk c) l) as (_ & Hf & Hn).
      destruct v; cbn [mk_obs o_res o_queried is_err]; intros _.
      - destruct (found (feed (f_blk c) l)) as [fv|] eqn:Ef; cbn [o_res is_err].
        + tauto.
        + exfalso. assert (Hx : existsb (acceptable (f_blk c)) l = true) by (apply Hv; reflexivity).
          apply existsb_exists in Hx as (r & Hin & Hacc).
          apply (found_after_acceptable (f_blk c) l q0); [exists r; split; assumption|exact Ef].
      - split; [discriminate|]. intros H; discriminate.
      - split; [discriminate|]. intros H; discriminate.
      - split; [discriminate|]. intros H; discriminate. }
    split; [lia|]. split.
    - rewrite Hres. exact Hv.
    - intros Herr. unfold class_of. rewrite Hq.
      destruct (o_res (fo_obs (snd (fget_block cap st c)))) as [bv| | |] eqn:Er; [discriminate| | |];
        (destruct v;
         [ exfalso; destruct Hres as [_ X]; specialize (X eq_refl); discriminate
         | destruct Hm as [Hu' (e & He & Hve)]; destruct e; try discriminate; split; assumption
         | destruct Hm as [Hu' (e & He & Hve)]; destruct e; try discriminate; split; assumption
         | exact Hm ]).
  Qed.

  (* ---------------------------------------------------------------- *)
  (* the monitor accepts every trace of the model *)

  Lemma step_ok_unqueried pc pb c c' o :
    o_queried o = false -> c_known c = c_known c' -> c_enc c = c_enc c' -> c_blk c = c_blk c' ->
    step_ok pc pb c o = step_ok pc pb c' o.
  Proof.
    intros Hq Hk He Hb. unfold Spec.step_ok, call_key. rewrite Hq, Hk, He, Hb. reflexivity.
  Qed.

  Lemma step_ok_with_prog pc pb c o :
    step_ok pc pb c o = true -> step_ok pc pb c (with_prog o c) = true.
  Proof.
    unfold Spec.step_ok, FSpec.with_prog. cbn [o_res o_queried o_prog o_cache o_bans].
    rewrite !andb_true_iff. intros (((((H1 & H2) & H3) & H4) & H5) & H6).
    repeat split; try assumption.
    destruct (o_queried o); [apply prog_eqb_refl|reflexivity].
  Qed.

  Lemma offenders_qbans target l p :
    In p (qbans (feed target l)) <-> In p (map r_peer (filter (offending target) l)).
  Proof.
    destruct (feed_spec hash_of sanity_ok witness_ok target l) as (Hb & _ & _).
    rewrite Hb, in_map_iff. split.
    - intros (r & Hin & Hp & Ho). exists r. split; [exact Hp|]. apply filter_In. split; assumption.
    - intros (r & Hp & Hf). apply filter_In in Hf as [Hin Ho]. exists r. auto.
  Qed.

  Lemma fstep_ok_model cap st c :
    fstep_ok (cache_view (bcache st)) (bans st) c (snd (fget_block cap st c)) = true.
  Proof.
    destruct (dispatched c) as [[l v] u] eqn:Hd.
    destruct (fget_block_compile cap st c) as [_ E2].
    destruct (fget_block_fields cap st c l v u Hd) as (Hu & Hc & Hdisc). cbv zeta in Hu, Hc, Hdisc.
    pose proof (step_ok_model hash_of sanity_ok witness_ok size_of cap st (compile c)) as Hstep.
    rewrite <- E2 in Hstep.
    pose proof (fget_block_outcome cap st c) as Hout. cbv zeta in Hout.
    destruct (dispatched_spec c l v u Hd) as (_ & _ & _ & Hv & _ & _).
    set (o := snd (fget_block cap st c)) in *.
    unfold FSpec.fstep_ok. rewrite !andb_true_iff.
    destruct (o_queried (fo_obs o)) eqn:Hq.
    - pose proof (seen_model cap st c l v u Hd Hq) as Hs. fold o in Hs.
      destruct (Hout eq_refl) as (Hrange & Hsucc & Hfail).
      assert (Hcall : spec_call c o = compile c).
      { rewrite (compile_fields c l v u Hd). unfold FSpec.spec_call. rewrite Hs. f_equal.
        destruct (existsb (acceptable (f_blk c)) l) eqn:Ex.
        - assert (v = FOk) as -> by (apply Hv; reflexivity). reflexivity.
        - destruct v; try reflexivity. exfalso. assert (false = true) by (apply Hv; reflexivity). discriminate. }
      split; [split; [split; [split|]|]|].
      + rewrite Hcall. apply step_ok_with_prog, Hstep.
      + cbn [andb]. destruct (existsb (acceptable (f_blk c)) (seen c o)) eqn:Ex; [|reflexivity].
        assert (X : is_err (o_res (fo_obs o)) = false) by (apply Hsucc; reflexivity). rewrite X. reflexivity.
      + rewrite Hdisc. apply set_eqb_of_iff. intros p. unfold FSpec.offenders. rewrite Hs.
        apply offenders_qbans.
      + apply Z.leb_le. lia.
      + cbn [andb]. destruct (is_err (o_res (fo_obs o))) eqn:Herr; [|reflexivity].
        specialize (Hfail eq_refl).
        destruct (fo_class o); try contradiction.
        * destruct Hfail as [-> ->]. apply Z.eqb_refl.
        * destruct Hfail as [-> ->]. apply Z.eqb_refl.
        * destruct Hfail as [_ Hlt]. destruct (last_end (attempts_made c o)); apply Z.ltb_lt; exact Hlt.
    - split; [split; [split; [split|]|]|].
      + apply step_ok_with_prog.
        rewrite (step_ok_unqueried _ _ (spec_call c o) (compile c)); [exact Hstep|exact Hq| | | ];
          rewrite (compile_fields c l v u Hd); reflexivity.
      + reflexivity.
      + rewrite Hdisc. reflexivity.
      + rewrite Hu. reflexivity.
      + reflexivity.
  Qed.

  Lemma fholds_from_model cap cs : forall st,
    fholds_from (cache_view (bcache st)) (bans st) (combine cs (frun cap st cs)) = true.
  Proof.
    induction cs as [|c cs IH]; intros st; [reflexivity|].
    rewrite frun_cons. cbn [combine FSpec.fholds_from]. rewrite fstep_ok_model. cbn [andb].
    destruct (fget_block_compile cap st c) as [E1 E2]. rewrite E2.
    destruct (get_block_obs hash_of sanity_ok witness_ok size_of cap st (compile c)) as [-> ->].
    rewrite <- E1. apply IH.
  Qed.

  Lemma fmodel_holds cap cs : fholds (combine cs (frun cap g0 cs)) = true.
  Proof. exact (fholds_from_model cap cs g0). Qed.
End Oracles.
