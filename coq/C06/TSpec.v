(* C06 with time — the property in its own vocabulary: who must be banned at
   a clock reading is a function of the HISTORY of offences alone (no store),
   and the boolean monitor evaluated on traces of the real GetBlock. *)
From Coq Require Import ZArith List Bool.
From Verif Require Import C06.Model C06.Spec C06.TModel.
From Verif Require C13.Model C13.Spec.
Import ListNotations.
Open Scope Z_scope.

Module BS := Verif.C13.Spec.

(* the instant a ban requested at clock reading t for duration d lapses:
   banman stores the expiry in whole seconds *)
Definition lapse_at (t d : Z) : Z := ((t + d) / B.ns) * B.ns.

(* the last element of a list, starting from a default *)
Definition last_of {A} (cur : option A) (l : list A) : option A :=
  fold_left (fun _ x => Some x) l cur.

(* banned at clock reading q, given the (time, duration) of the offences of
   one peer in the order they were handled: the most recent one decides *)
Definition banned_at (offs : list (Z * Z)) (q : Z) : bool :=
  match last_of None offs with
  | Some (t, d) => q <? lapse_at t d
  | None => false
  end.

(* the ban-store key of scripted peer p's address (bans are per IP network);
   None: the address does not denote a network and BanPeer fails *)
Definition pkey (paddr : Z -> B.bytes) (p : Z) : option B.bytes :=
  match B.parse_ipnet (paddr p) None with
  | Some n => B.encode n
  | None => None
  end.

(* two peers whose addresses denote one network *)
Definition same_net (paddr : Z -> B.bytes) (a b : Z) : bool :=
  match pkey paddr a, pkey paddr b with
  | Some x, Some y => B.bytes_eqb x y
  | _, _ => false
  end.

Section TSpec.
  Variable paddr : Z -> B.bytes.
  Variable hash_of : Z -> Z.
  Variable sanity_ok witness_ok : Z -> bool.

  Definition toffending (target : Z) (r : tresp) : bool :=
    offending hash_of sanity_ok witness_ok target (t_resp r).

  (* offences against peer p's network in one call (none if the call did not
     go to the network): clock reading and ban duration of each offending
     response sent from that network *)
  Definition offences_of (p : Z) (c : tcall) (queried : bool) : list (Z * Z) :=
    if queried
    then map (fun r => (t_now r, tc_dur c))
             (filter (fun r => toffending (tc_blk c) r && same_net paddr (r_peer (t_resp r)) p) (tc_resps c))
    else [].

  Definition ttrace := list (tcall * obs).

  Definition offences (p : Z) (tr : ttrace) : list (Z * Z) :=
    flat_map (fun co => offences_of p (fst co) (o_queried (snd co))) tr.

  (* THE SPEC of the ban observation made after the last call of tr *)
  Definition must_be_banned (tr : ttrace) (q p : Z) : bool := banned_at (offences p tr) q.

  (* clock readings of a history, in the order the code takes them *)
  Definition readings (cs : list tcall) : list Z :=
    flat_map (fun c => map t_now (tc_resps c) ++ [tc_obs_now c]) cs.

  Definition step_tok (peers : list Z) (hist : ttrace) (c : tcall) (o : obs) : bool :=
    set_eqb (o_bans o)
            (filter (must_be_banned (hist ++ [(c, o)]) (tc_obs_now c)) peers).

  Fixpoint tholds_from (peers : list Z) (hist : ttrace) (tr : ttrace) : bool :=
    match tr with
    | [] => true
    | (c, o) :: rest => step_tok peers hist c o && tholds_from peers (hist ++ [(c, o)]) rest
    end.

  Definition tholds (peers : list Z) (tr : ttrace) : bool := tholds_from peers [] tr.

  Fixpoint tfirst_bad (peers : list Z) (i : Z) (hist : ttrace) (tr : ttrace) : option Z :=
    match tr with
    | [] => None
    | (c, o) :: rest =>
      if step_tok peers hist c o then tfirst_bad peers (i + 1) (hist ++ [(c, o)]) rest else Some i
    end.
End TSpec.

