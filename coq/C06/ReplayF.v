(* C06 on the full service — replay of implementation traces of the
   full-service family (real NewChainService: real work manager, workers,
   header / ban stores; scripted query.Peer objects) against C06.FModel and
   the monitor of C06.FSpec.  A case = (cache capacity, oracle table, list of
   (call with the attempts as they happened, observation)). *)
From Coq Require Import ZArith List Bool.
From Verif Require Import C06.Model C06.Spec C06.Replay C06.FModel C06.FSpec.
Import ListNotations.
Open Scope Z_scope.

Definition fcase : Type := (Z * list orow * list (fcall * fobs))%type.

(* HandleResp's Progress values cannot be observed on the full service *)
Definition fobs_eqb (a b : fobs) : bool :=
  result_eqb (o_res (fo_obs a)) (o_res (fo_obs b)) &&
  Bool.eqb (o_queried (fo_obs a)) (o_queried (fo_obs b)) &&
  kvlist_eqb (o_cache (fo_obs a)) (o_cache (fo_obs b)) &&
  set_eqb (o_bans (fo_obs a)) (o_bans (fo_obs b)) &&
  class_eqb (fo_class a) (fo_class b) && (fo_used a =? fo_used b) &&
  set_eqb (fo_disc a) (fo_disc b).

Fixpoint first_fmismatch (t : list orow) (cap : Z) (st : gstate) (i : Z)
    (tr : list (fcall * fobs)) : option Z :=
  match tr with
  | [] => None
  | (c, ob) :: rest =>
    let '(st', mo) := fget_block (t_hash t) (t_sanity t) (t_witness t) (t_size t) cap st c in
    if fobs_eqb mo ob then first_fmismatch t cap st' (i + 1) rest else Some i
  end.

Definition fverdict_of (c : Z * fcase) : list (Z * Z * Z * Z) :=
  let '(id, (cap, t, tr)) := c in
  (match first_fmismatch t cap g0 0 tr with Some i => [(id, 1, i, 0)] | None => [] end) ++
  (match ffirst_bad (t_hash t) (t_sanity t) (t_witness t) 0 [] [] tr with
   | Some i => [(id, 2, i, 0)] | None => [] end).

Definition run_fcases (cs : list (Z * fcase)) : list (Z * Z * Z * Z) := flat_map fverdict_of cs.

(* constructors used by the generated files *)
Definition A_ (peer : Z) (msgs : list (bool * Z)) (e : ending) : attempt :=
  {| a_peer := peer; a_msgs := msgs; a_end := e |}.
Definition FC_ (blk : Z) (known : bool) (enc retries : Z) (atts : list attempt) : fcall :=
  {| f_blk := blk; f_known := known; f_enc := enc; f_retries := retries; f_atts := atts |}.
Definition FO_ (r : result) (q : bool) (cache : list (key * Z)) (b : list Z) (cl : fclass)
    (used : Z) (disc : list Z) : fobs :=
  {| fo_obs := O_ r q [] cache b; fo_class := cl; fo_used := used; fo_disc := disc |}.
