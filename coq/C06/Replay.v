(* C06 — replay of implementation traces against the model and the monitor.
   A case = (cache capacity, oracle table, list of (call, observation made on
   the real GetBlock)).  The oracle table has one row per block content token:
   (token, (id of its header hash, CheckBlockSanity ok, ValidateWitnessCommitment ok,
   serialized size)), all evaluated by the harness on the real btcd code. *)
From Coq Require Import ZArith List Bool.
From Verif Require Import C06.Model C06.Spec.
Import ListNotations.
Open Scope Z_scope.

Definition orow : Type := (Z * (Z * bool * bool * Z))%type.

Definition olook (t : list orow) (k : Z) : option (Z * bool * bool * Z) :=
  match find (fun r => fst r =? k) t with Some r => Some (snd r) | None => None end.

Definition t_hash (t : list orow) (k : Z) : Z :=
  match olook t k with Some (h, _, _, _) => h | None => -1 end.
Definition t_sanity (t : list orow) (k : Z) : bool :=
  match olook t k with Some (_, s, _, _) => s | None => false end.
Definition t_witness (t : list orow) (k : Z) : bool :=
  match olook t k with Some (_, _, w, _) => w | None => false end.
Definition t_size (t : list orow) (k : Z) : Z :=
  match olook t k with Some (_, _, _, z) => z | None => 0 end.

Definition result_eqb (a b : result) : bool :=
  match a, b with
  | RBlock x, RBlock y => x =? y
  | RErrQuery, RErrQuery | RErrQuit, RErrQuit | RErrOther, RErrOther => true
  | _, _ => false
  end.

Fixpoint kvlist_eqb (a b : list (key * Z)) : bool :=
  match a, b with
  | [], [] => true
  | x :: a', y :: b' => kv_eqb x y && kvlist_eqb a' b'
  | _, _ => false
  end.

(* cache contents are compared in LRU order, ban sets as sets *)
Definition obs_eqb (a b : obs) : bool :=
  result_eqb (o_res a) (o_res b) && Bool.eqb (o_queried a) (o_queried b) &&
  prog_eqb (o_prog a) (o_prog b) &&
  kvlist_eqb (o_cache a) (o_cache b) && set_eqb (o_bans a) (o_bans b).

Definition case : Type := (Z * list orow * list (call * obs))%type.

Fixpoint first_mismatch (t : list orow) (cap : Z) (st : gstate) (i : Z) (tr : list (call * obs)) : option Z :=
  match tr with
  | [] => None
  | (c, ob) :: rest =>
    let '(st', mo) := get_block (t_hash t) (t_sanity t) (t_witness t) (t_size t) cap st c in
    if obs_eqb mo ob then first_mismatch t cap st' (i + 1) rest else Some i
  end.

(* rows (case id, kind, step, tag): kind 1 = model and implementation differ
   at step; kind 2 = the monitor rejects the implementation trace at step
   (no ghost root-cause flags in this model: tag 0) *)
Definition verdict_of (c : Z * case) : list (Z * Z * Z * Z) :=
  let '(id, (cap, t, tr)) := c in
  (match first_mismatch t cap g0 0 tr with Some i => [(id, 1, i, 0)] | None => [] end) ++
  (match first_bad (t_hash t) (t_sanity t) (t_witness t) 0 [] [] tr with
   | Some i => [(id, 2, i, 0)] | None => [] end).

Definition run_cases (cs : list (Z * case)) : list (Z * Z * Z * Z) := flat_map verdict_of cs.

(* constructors used by the generated files *)
Definition R_ (ok blk : bool) (peer tok : Z) : resp :=
  {| r_req_ok := ok; r_is_block := blk; r_peer := peer; r_tok := tok |}.
Definition C_ (blk : Z) (known : bool) (enc : Z) (rs : list resp) (v : verdict) : call :=
  {| c_blk := blk; c_known := known; c_enc := enc; c_resps := rs; c_verdict := v |}.
Definition O_ (r : result) (q : bool) (pg : list progress) (cache : list (key * Z)) (b : list Z) : obs :=
  {| o_res := r; o_queried := q; o_prog := pg; o_cache := cache; o_bans := b |}.
Definition np := NoProgress.
Definition fin := Finished.
