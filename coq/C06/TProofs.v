(* C06 with time — lemmas. *)
From Coq Require Import ZArith List Bool Lia.
From Verif Require Import C06.Model C06.Spec C06.Proofs C06.TModel C06.TSpec.
From Verif Require C13.Model C13.Spec C13.Proofs.
Import ListNotations.
Open Scope Z_scope.

Module BP := Verif.C13.Proofs.

(* ------------------------------------------------------------------ *)
(* lists and clock readings *)

Definition lastZ (t : Z) (l : list Z) : Z := fold_left (fun _ x => x) l t.

Lemma last_of_app {A} (cur : option A) a b : last_of cur (a ++ b) = last_of (last_of cur a) b.
Proof. unfold last_of. apply fold_left_app. Qed.

Lemma lastZ_app t a b : lastZ t (a ++ b) = lastZ (lastZ t a) b.
Proof. unfold lastZ. apply fold_left_app. Qed.

Lemma mono_from_app t a b :
  BS.mono_from t (a ++ b) <-> BS.mono_from t a /\ BS.mono_from (lastZ t a) b.
Proof.
  revert t; induction a as [|x a IH]; intros t; cbn [app BS.mono_from lastZ fold_left].
  - tauto.
  - rewrite IH. unfold lastZ. tauto.
Qed.

Lemma mono_from_le t l : BS.mono_from t l -> t <= lastZ t l.
Proof.
  revert t; induction l as [|x l IH]; intros t; cbn [BS.mono_from lastZ fold_left]; [lia|].
  intros [H1 H2]. specialize (IH x H2). unfold lastZ in IH. lia.
Qed.

Lemma mono_from_weaken t t' l : t' <= t -> BS.mono_from t l -> BS.mono_from t' l.
Proof. destruct l as [|x l]; cbn; [tauto|]. intros H [H1 H2]. split; [lia|exact H2]. Qed.

Lemma monotone_from_any l : BS.monotone l -> exists t, BS.mono_from t l.
Proof.
  destruct l as [|x l]; [exists 0; exact I|]. intros H. exists x. cbn. split; [lia|exact H].
Qed.

(* ------------------------------------------------------------------ *)
Section Timed.
  Variable paddr : Z -> B.bytes.
  Variable hash_of : Z -> Z.
  Variable sanity_ok witness_ok : Z -> bool.
  Variable size_of : Z -> Z.

  Notation ban_peer := (ban_peer paddr).
  Notation is_banned := (is_banned paddr).
  Notation thandle := (thandle paddr hash_of sanity_ok witness_ok).
  Notation tfeed_from := (tfeed_from paddr hash_of sanity_ok witness_ok).
  Notation tfeed := (tfeed paddr hash_of sanity_ok witness_ok).
  Notation sweep := (sweep paddr).
  Notation tfinish := (tfinish paddr).
  Notation tget_block := (tget_block paddr hash_of sanity_ok witness_ok size_of).
  Notation trun := (trun paddr hash_of sanity_ok witness_ok size_of).
  Notation tfinal := (tfinal paddr hash_of sanity_ok witness_ok size_of).
  Notation toffending := (toffending hash_of sanity_ok witness_ok).
  Notation offences_of := (offences_of paddr hash_of sanity_ok witness_ok).
  Notation offences := (offences paddr hash_of sanity_ok witness_ok).
  Notation must_be_banned := (must_be_banned paddr hash_of sanity_ok witness_ok).
  Notation same_net := (same_net paddr).
  Notation handle := (handle hash_of sanity_ok witness_ok).
  Notation get_block := (get_block hash_of sanity_ok witness_ok size_of).
  Notation pkey := (pkey paddr).

  Lemma pkey_parse p k : pkey p = Some k ->
    exists n, B.parse_ipnet (paddr p) None = Some n /\ B.encode n = Some k.
  Proof. unfold TSpec.pkey. destruct (B.parse_ipnet (paddr p) None) as [n|]; [eauto|discriminate]. Qed.

  (* ---- one BanPeer / IsBanned call, seen through the records ---- *)
  Definition ban_rec (now dur : Z) : B.rec :=
    {| B.expiry := (now + dur) / B.ns; B.reason := reason_invalid_block mod 256 |}.

  Lemma ban_peer_get bs p k now dur k' : pkey p = Some k ->
    B.s_get (ban_peer bs p now dur) k' =
    if B.bytes_eqb k k' then Some (ban_rec now dur) else B.s_get bs k'.
  Proof.
    intros Hk. destruct (pkey_parse p k Hk) as (n & Hp & He).
    unfold TModel.ban_peer. rewrite BP.pstep_fst. cbn [BS.lower]. rewrite Hp.
    rewrite BP.run_fst_cons. cbn [B.run fst]. rewrite BP.step_get.
    cbn [BP.lazy_effect BS.write_effect]. rewrite He. reflexivity.
  Qed.

  Definition lazy (now : Z) (cur : option B.rec) : option B.rec :=
    match cur with
    | Some r => if now <? B.expiry r * B.ns then cur else None
    | None => None
    end.

  Definition rec_banned (now : Z) (cur : option B.rec) : bool :=
    match cur with Some r => now <? B.expiry r * B.ns | None => false end.

  Lemma is_banned_get bs p k now k' : pkey p = Some k ->
    B.s_get (fst (is_banned bs p now)) k' =
    if B.bytes_eqb k k' then lazy now (B.s_get bs k') else B.s_get bs k'.
  Proof.
    intros Hk. destruct (pkey_parse p k Hk) as (n & Hp & He).
    unfold TModel.is_banned.
    destruct (B.pstep bs (B.PIsBanned (paddr p) now)) as [bs' ob] eqn:E. cbn [fst].
    replace bs' with (fst (B.pstep bs (B.PIsBanned (paddr p) now))) by (rewrite E; reflexivity).
    rewrite BP.pstep_fst. cbn [BS.lower]. rewrite Hp.
    rewrite BP.run_fst_cons. cbn [B.run fst]. rewrite BP.step_get.
    cbn [BP.lazy_effect]. rewrite He. unfold lazy. reflexivity.
  Qed.

  Lemma is_banned_ans bs p k now : pkey p = Some k ->
    snd (is_banned bs p now) = rec_banned now (B.s_get bs k).
  Proof.
    intros Hk. destruct (pkey_parse p k Hk) as (n & Hp & He).
    unfold TModel.is_banned.
    destruct (B.pstep bs (B.PIsBanned (paddr p) now)) as [bs' ob] eqn:E. cbn [snd].
    replace ob with (snd (B.pstep bs (B.PIsBanned (paddr p) now))) by (rewrite E; reflexivity).
    rewrite BP.pisbanned_obs, Hp, (BP.status_obs _ _ k) by exact He.
    unfold rec_banned, BS.answer. destruct (B.s_get bs k) as [r|]; [|reflexivity].
    destruct (now <? B.expiry r * B.ns); reflexivity.
  Qed.


  Lemma ban_peer_none bs p now dur : pkey p = None -> ban_peer bs p now dur = bs.
  Proof.
    unfold TSpec.pkey, TModel.ban_peer. cbn [B.pstep].
    destruct (B.parse_ipnet (paddr p) None) as [n|]; [|reflexivity].
    intros E. cbn [B.step]. rewrite E. reflexivity.
  Qed.

  Lemma is_banned_none bs p now : pkey p = None -> is_banned bs p now = (bs, false).
  Proof.
    unfold TSpec.pkey, TModel.is_banned. cbn [B.pstep].
    destruct (B.parse_ipnet (paddr p) None) as [n|]; [|reflexivity].
    intros E. cbn [B.step]. rewrite E. reflexivity.
  Qed.

  (* ---- the closure ---- *)
  Lemma thandle_cases target dur s r :
    (toffending target r = false /\ snd (fst (thandle target dur s r)) = snd s) \/
    (toffending target r = true /\
     snd (fst (thandle target dur s r)) = ban_peer (snd s) (r_peer (t_resp r)) (t_now r) dur).
  Proof.
    unfold TModel.thandle, TSpec.toffending, Spec.offending, Spec.addressed.
    destruct (r_req_ok (t_resp r)), (r_is_block (t_resp r)), (hash_of (r_tok (t_resp r)) =? target),
      (sanity_ok (r_tok (t_resp r))), (witness_ok (r_tok (t_resp r))); cbn;
      first [left; split; reflexivity | right; split; reflexivity].
  Qed.

  (* with the clock erased the closure is the closure of C06.Model *)
  Lemma thandle_untimed target dur s r l :
    fst (fst (thandle target dur s r)) =
      found (fst (handle target {| found := fst s; qbans := l |} (t_resp r))) /\
    snd (thandle target dur s r) = snd (handle target {| found := fst s; qbans := l |} (t_resp r)).
  Proof.
    unfold TModel.thandle, Model.handle.
    destruct (r_req_ok (t_resp r)), (r_is_block (t_resp r)), (hash_of (r_tok (t_resp r)) =? target),
      (sanity_ok (r_tok (t_resp r))), (witness_ok (r_tok (t_resp r))); cbn; split; reflexivity.
  Qed.

  Lemma tfeed_from_found target dur rs : forall s q,
    found q = fst s ->
    fst (tfeed_from target dur s rs) =
    found (fold_left (fun s r => fst (handle target s r)) (map t_resp rs) q).
  Proof.
    induction rs as [|r rs IH]; intros s q Hq; cbn [TModel.tfeed_from fold_left map].
    - symmetry; exact Hq.
    - apply IH. destruct q as [f l]. cbn [found] in Hq. subst f.
      destruct (thandle_untimed target dur s r l) as [H _]. symmetry. exact H.
  Qed.

  Lemma tfeed_found target dur bs rs :
    fst (tfeed target dur bs rs) = found (feed hash_of sanity_ok witness_ok target (map t_resp rs)).
  Proof. unfold TModel.tfeed, Model.feed. apply tfeed_from_found. reflexivity. Qed.

  (* ---- the store invariant: per peer, the most recent offence ---- *)
  Definition key_state (bs : B.store) (k : B.bytes) (cur : option (Z * Z)) (T : Z) : Prop :=
    match cur with
    | None => B.s_get bs k = None
    | Some (t, d) =>
      B.s_get bs k = Some (ban_rec t d) \/ (B.s_get bs k = None /\ lapse_at t d <= T)
    end.

  Definition Inv (bs : B.store) (last : Z -> option (Z * Z)) (T : Z) : Prop :=
    (forall p k, pkey p = Some k -> key_state bs k (last p) T) /\
    (forall p, pkey p = None -> last p = None).

  Definition decided (last : Z -> option (Z * Z)) (now p : Z) : bool :=
    match last p with Some (t, d) => now <? lapse_at t d | None => false end.

  Lemma Inv_ext bs last last' T : (forall p, last p = last' p) -> Inv bs last T -> Inv bs last' T.
  Proof.
    intros E [H H0]. split; [intros p k Hk; rewrite <- E; apply H, Hk|intros p Hp; rewrite <- E; apply H0, Hp].
  Qed.

  Lemma Inv_time bs last T T' : T <= T' -> Inv bs last T -> Inv bs last T'.
  Proof.
    intros Hle [H H0]. split; [|exact H0]. intros p k Hk. specialize (H p k Hk). unfold key_state in *.
    destruct (last p) as [[t d]|]; [|exact H]. destruct H as [H|[H1 H2]]; [left; exact H|right; split; [exact H1|lia]].
  Qed.

  Lemma Inv_ban bs last T p now dur :
    Inv bs last T -> T <= now ->
    Inv (ban_peer bs p now dur) (fun q => if same_net p q then Some (now, dur) else last q) now.
  Proof.
    intros H Hle. pose proof (Inv_time bs last T now Hle H) as [H1 H0]. split.
    - intros q k' Hq. unfold TSpec.same_net. rewrite Hq.
      destruct (pkey p) as [k|] eqn:Hk.
      + unfold key_state. rewrite (ban_peer_get bs p k now dur k' Hk).
        destruct (B.bytes_eqb k k'); [left; reflexivity|apply H1, Hq].
      + rewrite ban_peer_none by exact Hk. apply H1, Hq.
    - intros q Hq. unfold TSpec.same_net. rewrite Hq.
      destruct (pkey p); apply H0, Hq.
  Qed.

  Lemma lapse_at_rec t d : B.expiry (ban_rec t d) * B.ns = lapse_at t d.
  Proof. reflexivity. Qed.

  Lemma Inv_status bs last T p now :
    Inv bs last T -> T <= now ->
    Inv (fst (is_banned bs p now)) last now /\ snd (is_banned bs p now) = decided last now p.
  Proof.
    intros H Hle. pose proof (Inv_time bs last T now Hle H) as [H1 H0].
    destruct (pkey p) as [k|] eqn:Hk.
    - split; [split; [|exact H0]|].
      + intros q k' Hq. unfold key_state. rewrite (is_banned_get bs p k now k' Hk).
        pose proof (H1 q k' Hq) as Hs. unfold key_state in Hs.
        destruct (B.bytes_eqb k k') eqn:E; [|exact Hs].
        destruct (last q) as [[t d]|].
        * destruct Hs as [Hs|[Hs1 Hs2]].
          -- rewrite Hs. unfold lazy. rewrite lapse_at_rec.
             destruct (now <? lapse_at t d) eqn:L; [left; reflexivity|].
             right. split; [reflexivity|]. apply Z.ltb_ge in L. exact L.
          -- rewrite Hs1. right. split; [reflexivity|exact Hs2].
        * rewrite Hs. reflexivity.
      + rewrite (is_banned_ans bs p k now Hk). unfold decided.
        pose proof (H1 p k Hk) as Hs. unfold key_state in Hs.
        destruct (last p) as [[t d]|].
        * destruct Hs as [Hs|[Hs1 Hs2]]; rewrite ?Hs, ?Hs1; unfold rec_banned.
          -- rewrite lapse_at_rec. reflexivity.
          -- symmetry. apply Z.ltb_ge. exact Hs2.
        * rewrite Hs. reflexivity.
    - rewrite is_banned_none by exact Hk. cbn [fst snd]. split; [split; assumption|].
      unfold decided. rewrite (H0 p Hk). reflexivity.
  Qed.

  (* offences of peer p among some responses *)
  Definition offs (target dur p : Z) (rs : list tresp) : list (Z * Z) :=
    map (fun r => (t_now r, dur))
        (filter (fun r => toffending target r && same_net (r_peer (t_resp r)) p) rs).

  Lemma tfeed_from_inv target dur rs : forall s last T,
    Inv (snd s) last T -> BS.mono_from T (map t_now rs) ->
    Inv (snd (tfeed_from target dur s rs))
        (fun p => last_of (last p) (offs target dur p rs)) (lastZ T (map t_now rs)).
  Proof.
    induction rs as [|r rs IH]; intros s last T H Hm.
    - exact H.
    - cbn [map BS.mono_from] in Hm. destruct Hm as [Hle Hm].
      cbn [TModel.tfeed_from fold_left map lastZ].
      change (fold_left (fun _ x : Z => x) (map t_now rs) (t_now r)) with (lastZ (t_now r) (map t_now rs)).
      change (fold_left (fun s0 r0 => fst (thandle target dur s0 r0)) rs (fst (thandle target dur s r)))
        with (tfeed_from target dur (fst (thandle target dur s r)) rs).
      destruct (thandle_cases target dur s r) as [[Ho E]|[Ho E]].
      + eapply Inv_ext; [|apply (IH _ last (t_now r)); [rewrite E; apply (Inv_time _ _ T (t_now r)); assumption|exact Hm]].
        intros p. unfold offs. cbn [filter]. rewrite Ho. reflexivity.
      + eapply Inv_ext; [|apply (IH _ (fun q => if same_net (r_peer (t_resp r)) q then Some (t_now r, dur) else last q) (t_now r));
                           [rewrite E; apply (Inv_ban _ _ T); assumption|exact Hm]].
        intros p. unfold offs. cbn [filter]. rewrite Ho. cbn [andb].
        destruct (same_net (r_peer (t_resp r)) p); reflexivity.
  Qed.

  Lemma sweep_inv now ps : forall bs last T,
    Inv bs last T -> T <= now ->
    Inv (fst (sweep bs now ps)) last now /\ snd (sweep bs now ps) = filter (decided last now) ps.
  Proof.
    induction ps as [|p ps IH]; intros bs last T H Hle; cbn [TModel.sweep filter].
    - split; [apply (Inv_time _ _ T now); assumption|reflexivity].
    - destruct (Inv_status bs last T p now H Hle) as [H1 Hb].
      destruct (is_banned bs p now) as [bs1 b] eqn:E. cbn [fst snd] in *.
      destruct (IH bs1 last now H1 (Z.le_refl _)) as [H2 Hl].
      destruct (sweep bs1 now ps) as [bs2 l]. cbn [fst snd] in *. split; [exact H2|].
      rewrite <- Hb. destruct b; rewrite Hl; reflexivity.
  Qed.

  (* ---- one call ---- *)
  Lemma tfinish_spec peers c st1 r q pg last T :
    Inv (tstore st1) last T -> T <= tc_obs_now c ->
    Inv (tstore (fst (tfinish peers c st1 r q pg))) last (tc_obs_now c) /\
    o_bans (snd (tfinish peers c st1 r q pg)) = filter (decided last (tc_obs_now c)) peers /\
    o_queried (snd (tfinish peers c st1 r q pg)) = q /\
    o_res (snd (tfinish peers c st1 r q pg)) = r /\
    o_prog (snd (tfinish peers c st1 r q pg)) = pg /\
    o_cache (snd (tfinish peers c st1 r q pg)) = cache_view (tcache st1) /\
    tcache (fst (tfinish peers c st1 r q pg)) = tcache st1.
  Proof.
    intros H Hle. unfold TModel.tfinish.
    destruct (sweep_inv (tc_obs_now c) peers (tstore st1) last T H Hle) as [H1 H2].
    destruct (sweep (tstore st1) (tc_obs_now c) peers) as [bs2 bl]. cbn [fst snd] in *.
    cbn. split; [exact H1|]. split; [exact H2|]. repeat split.
  Qed.

  Definition last_after (last : Z -> option (Z * Z)) (c : tcall) (queried : bool) (p : Z) :=
    last_of (last p) (offences_of p c queried).

  Lemma offences_of_offs p c : offences_of p c true = offs (tc_blk c) (tc_dur c) p (tc_resps c).
  Proof. reflexivity. Qed.

  Lemma tget_block_inv cap peers st c last T :
    Inv (tstore st) last T -> BS.mono_from T (map t_now (tc_resps c) ++ [tc_obs_now c]) ->
    let o := snd (tget_block cap peers st c) in
    Inv (tstore (fst (tget_block cap peers st c))) (last_after last c (o_queried o)) (tc_obs_now c) /\
    o_bans o = filter (decided (last_after last c (o_queried o)) (tc_obs_now c)) peers.
  Proof.
    intros H Hm. apply mono_from_app in Hm as [Hm1 Hm2].
    pose proof (mono_from_le _ _ Hm1) as Hle1.
    cbn [BS.mono_from] in Hm2. destruct Hm2 as [Hle2 _].
    assert (HleT : T <= tc_obs_now c) by lia.
    assert (Hnq : forall st1 r pg, tstore st1 = tstore st ->
      let o := snd (tfinish peers c st1 r false pg) in
      Inv (tstore (fst (tfinish peers c st1 r false pg))) (last_after last c (o_queried o)) (tc_obs_now c) /\
      o_bans o = filter (decided (last_after last c (o_queried o)) (tc_obs_now c)) peers).
    { intros st1 r pg Hst. cbv zeta.
      destruct (tfinish_spec peers c st1 r false pg last T) as (A & B0 & Q & _); [rewrite Hst; exact H|exact HleT|].
      rewrite Q. split; [exact A|exact B0]. }
    assert (Hq : forall st1 r pg,
      tstore st1 = snd (tfeed (tc_blk c) (tc_dur c) (tstore st) (tc_resps c)) ->
      let o := snd (tfinish peers c st1 r true pg) in
      Inv (tstore (fst (tfinish peers c st1 r true pg))) (last_after last c (o_queried o)) (tc_obs_now c) /\
      o_bans o = filter (decided (last_after last c (o_queried o)) (tc_obs_now c)) peers).
    { intros st1 r pg Hst. cbv zeta.
      pose proof (tfeed_from_inv (tc_blk c) (tc_dur c) (tc_resps c) (None, tstore st) last T H Hm1) as Hf.
      destruct (tfinish_spec peers c st1 r true pg
                  (fun p => last_of (last p) (offs (tc_blk c) (tc_dur c) p (tc_resps c)))
                  (lastZ T (map t_now (tc_resps c)))) as (A & B0 & Q & _).
      - rewrite Hst. exact Hf.
      - exact Hle2.
      - rewrite Q. split; [exact A|exact B0]. }
    unfold TModel.tget_block.
    destruct (tc_known c); cbn [negb]; [|apply Hnq; reflexivity].
    destruct (lru_get key_eqb (tcache st) (tc_enc c, tc_blk c)) as [[v|] c'].
    - apply Hnq. reflexivity.
    - destruct (tc_verdict c); [|apply Hq; reflexivity|apply Hq; reflexivity].
      destruct (fst (tfeed (tc_blk c) (tc_dur c) (tstore st) (tc_resps c))); apply Hq; reflexivity.
  Qed.

  (* ---- histories ---- *)
  Lemma trun_cons cap peers st c cs :
    trun cap peers st (c :: cs) =
    snd (tget_block cap peers st c) :: trun cap peers (fst (tget_block cap peers st c)) cs.
  Proof. cbn [TModel.trun]. destruct (tget_block cap peers st c). reflexivity. Qed.

  Lemma tfinal_cons cap peers st c cs :
    tfinal cap peers st (c :: cs) = tfinal cap peers (fst (tget_block cap peers st c)) cs.
  Proof. reflexivity. Qed.

  Lemma offences_snoc p hist c o :
    offences p (hist ++ [(c, o)]) = offences p hist ++ offences_of p c (o_queried o).
  Proof. unfold TSpec.offences. rewrite flat_map_app. cbn. rewrite app_nil_r. reflexivity. Qed.

  Definition last_hist (hist : ttrace) (p : Z) : option (Z * Z) := last_of None (offences p hist).

  Lemma last_hist_snoc hist c o p :
    last_hist (hist ++ [(c, o)]) p = last_after (last_hist hist) c (o_queried o) p.
  Proof. unfold last_hist, last_after. rewrite offences_snoc, last_of_app. reflexivity. Qed.

  Lemma decided_must hist q p : decided (last_hist hist) q p = must_be_banned hist q p.
  Proof. reflexivity. Qed.

  Lemma filter_ext_eq {A} (f g : A -> bool) l : (forall x, f x = g x) -> filter f l = filter g l.
  Proof. intros H. induction l as [|x l IH]; cbn; [reflexivity|]. rewrite H, IH. reflexivity. Qed.

  Lemma set_eqb_refl l : set_eqb l l = true.
  Proof. apply set_eqb_of_iff. tauto. Qed.

  Lemma trun_inv cap peers cs : forall st hist T,
    Inv (tstore st) (last_hist hist) T -> BS.mono_from T (readings cs) ->
    tholds_from paddr hash_of sanity_ok witness_ok peers hist (combine cs (trun cap peers st cs)) = true /\
    exists T', Inv (tstore (tfinal cap peers st cs))
                   (last_hist (hist ++ combine cs (trun cap peers st cs))) T' /\
               T' = lastZ T (readings cs).
  Proof.
    induction cs as [|c cs IH]; intros st hist T H Hm.
    - cbn. split; [reflexivity|]. exists T. rewrite app_nil_r. split; [exact H|reflexivity].
    - unfold readings in Hm. cbn [flat_map] in Hm. apply mono_from_app in Hm as [Hm1 Hm2].
      destruct (tget_block_inv cap peers st c (last_hist hist) T H Hm1) as [H1 Hb].
      rewrite trun_cons, tfinal_cons. cbn [combine TSpec.tholds_from].
      set (o := snd (tget_block cap peers st c)) in *.
      assert (Hlast : lastZ T (map t_now (tc_resps c) ++ [tc_obs_now c]) = tc_obs_now c).
      { rewrite lastZ_app. reflexivity. }
      rewrite Hlast in Hm2.
      assert (H1' : Inv (tstore (fst (tget_block cap peers st c))) (last_hist (hist ++ [(c, o)])) (tc_obs_now c)).
      { eapply Inv_ext; [|exact H1]. intros p. symmetry. apply last_hist_snoc. }
      destruct (IH (fst (tget_block cap peers st c)) (hist ++ [(c, o)]) (tc_obs_now c) H1' Hm2) as [IH1 (T' & IH2 & IH3)].
      split.
      + rewrite IH1, andb_true_r. unfold TSpec.step_tok. rewrite Hb.
        rewrite (filter_ext_eq _ (must_be_banned (hist ++ [(c, o)]) (tc_obs_now c))).
        * apply set_eqb_refl.
        * intros p. unfold decided. rewrite <- last_hist_snoc. reflexivity.
      + exists T'. rewrite <- app_assoc in IH2. cbn [app] in IH2. split; [exact IH2|].
        rewrite IH3. unfold readings at 2. cbn [flat_map]. rewrite lastZ_app, Hlast. reflexivity.
  Qed.

  Lemma Inv_empty T : Inv [] (last_hist []) T.
  Proof. split; [intros p k _; reflexivity|intros p _; reflexivity]. Qed.

  (* the monitor accepts every trace of the model whose clock readings are
     non-decreasing *)
  Lemma tmodel_holds cap peers cs : BS.monotone (readings cs) ->
    tholds paddr hash_of sanity_ok witness_ok peers (combine cs (trun cap peers ts0 cs)) = true.
  Proof.
    intros Hm. destruct (monotone_from_any _ Hm) as [T HT].
    exact (proj1 (trun_inv cap peers cs ts0 [] T (Inv_empty T) HT)).
  Qed.

  (* after ANY history with non-decreasing clock readings, IsBanned answers
     from the history of offences alone *)
  Lemma tbanned_iff cap peers cs p q : BS.monotone (readings cs ++ [q]) ->
    snd (is_banned (tstore (tfinal cap peers ts0 cs)) p q) =
    must_be_banned (combine cs (trun cap peers ts0 cs)) q p.
  Proof.
    intros Hm. destruct (monotone_from_any _ Hm) as [T HT].
    apply mono_from_app in HT as [HT1 HT2]. cbn [BS.mono_from] in HT2. destruct HT2 as [Hle _].
    destruct (trun_inv cap peers cs ts0 [] T (Inv_empty T) HT1) as [_ (T' & HI & ->)].
    cbn [app] in HI.
    destruct (Inv_status _ _ _ p q HI Hle) as [_ Hb]. rewrite Hb. apply decided_must.
  Qed.

  (* an offence bans at once, whatever the store held before *)
  Lemma toffence_bans target dur s r q :
    toffending target r = true -> pkey (r_peer (t_resp r)) <> None ->
    t_now r <= q < lapse_at (t_now r) dur ->
    snd (is_banned (snd (fst (thandle target dur s r))) (r_peer (t_resp r)) q) = true.
  Proof.
    intros Ho Hp [_ Hq]. destruct (thandle_cases target dur s r) as [[Ho' _]|[_ E]]; [congruence|].
    rewrite E. destruct (pkey (r_peer (t_resp r))) as [k|] eqn:Hk; [|congruence].
    rewrite (is_banned_ans _ _ k q Hk), (ban_peer_get _ _ k _ _ k Hk), BP.bytes_eqb_refl.
    unfold rec_banned. rewrite lapse_at_rec. apply Z.ltb_lt. exact Hq.
  Qed.

  (* ... and everything else leaves the store alone *)
  Lemma tnon_offence_keeps_store target dur s r :
    toffending target r = false -> snd (fst (thandle target dur s r)) = snd s.
  Proof.
    intros Ho. destruct (thandle_cases target dur s r) as [[_ E]|[Ho' _]]; [exact E|congruence].
  Qed.

  (* ---- with the clock erased: C06.Model ---- *)
  Definition untimed_view (o : obs) := (o_res o, o_queried o, o_prog o, o_cache o).

  Lemma tget_block_untimed cap peers st c g :
    bcache g = tcache st ->
    untimed_view (snd (tget_block cap peers st c)) = untimed_view (snd (get_block cap g (untime c))) /\
    tcache (fst (tget_block cap peers st c)) = bcache (fst (get_block cap g (untime c))).
  Proof.
    intros Hc. unfold TModel.tget_block, Model.get_block. cbn [untime c_known c_enc c_blk c_resps c_verdict].
    rewrite Hc.
    assert (F : forall st1 r q pg, 
      untimed_view (snd (tfinish peers c st1 r q pg)) = (r, q, pg, cache_view (tcache st1)) /\
      tcache (fst (tfinish peers c st1 r q pg)) = tcache st1).
    { intros st1 r q pg. unfold TModel.tfinish.
      destruct (sweep (tstore st1) (tc_obs_now c) peers) as [bs2 bl]. split; reflexivity. }
    destruct (tc_known c); cbn [negb]; [|destruct (F st RErrOther false []) as [-> ->]; rewrite <- Hc; split; reflexivity].
    destruct (lru_get key_eqb (tcache st) (tc_enc c, tc_blk c)) as [[v|] c'].
    - destruct (F {| tcache := c'; tstore := tstore st |} (RBlock v) false []) as [-> ->]. split; reflexivity.
    - rewrite tfeed_found.
      change (map t_resp (tc_resps c)) with (c_resps (untime c)).
      destruct (tc_verdict c).
      + change (c_blk (untime c)) with (tc_blk c).
        destruct (found (feed hash_of sanity_ok witness_ok (tc_blk c) (c_resps (untime c)))) as [v|].
        * match goal with |- context [tfinish peers c ?s ?r ?q ?pg] => destruct (F s r q pg) as [-> ->] end.
          split; reflexivity.
        * match goal with |- context [tfinish peers c ?s ?r ?q ?pg] => destruct (F s r q pg) as [-> ->] end.
          split; reflexivity.
      + match goal with |- context [tfinish peers c ?s ?r ?q ?pg] => destruct (F s r q pg) as [-> ->] end.
        split; reflexivity.
      + match goal with |- context [tfinish peers c ?s ?r ?q ?pg] => destruct (F s r q pg) as [-> ->] end.
        split; reflexivity.
  Qed.

  Lemma trun_untimed cap peers cs : forall st g, bcache g = tcache st ->
    map untimed_view (trun cap peers st cs) =
    map untimed_view (C06.Model.run hash_of sanity_ok witness_ok size_of cap g (map untime cs)).
  Proof.
    induction cs as [|c cs IH]; intros st g Hc; [reflexivity|].
    rewrite trun_cons. cbn [map]. rewrite (run_cons hash_of sanity_ok witness_ok size_of). cbn [map].
    destruct (tget_block_untimed cap peers st c g Hc) as [H1 H2].
    rewrite H1. f_equal. apply IH. symmetry. exact H2.
  Qed.
End Timed.

(* the addresses of the harness's scripted peers all denote networks *)
Lemma paddr_std_ok p : pkey paddr_std p <> None.
Proof. vm_compute. discriminate. Qed.
