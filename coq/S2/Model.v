(* S2 — executable model of the block manager's header handling
   (blockmanager.go: handleHeadersMsg, handleInvMsg, handleNewPeerMsg,
   handleDonePeerMsg, startSync, BlockHeadersSynced, checkHeaderSanity with
   btcd's CheckBlockHeaderContext / CheckBlockHeaderSanity transliterated,
   rollBackToHeight, writeCFHeadersMsg, NotificationsSinceHeight) and of a
   restart (newBlockManager over the existing stores), and of
   handleHeadersMsg when a write to the block header store fails.  No proofs
   here.

   Headers are records of the fields the rules look at; [hid]/[hprev] are hash
   tokens, [hnum] the 256-bit value of the header's own hash.  The two header
   stores are plain lists (position = height): C07 proves that the real
   stores behave as lists under well-formed use; every store operation here
   checks that it IS well-formed and sets [trap] otherwise (a theorem shows
   the trap is never reached).  The in-memory header window is an abstract
   bounded list (discharged by the HL development).

   The model is of the tree WITH the fixes for F01 (list re-synchronised with
   the store on every exit of handleHeadersMsg), F02 (checkpoint floor taken
   at tip height + 1), F14 (in-memory filter tip lowered by rollbacks) and
   F17 (a reorg branch contradicting a checkpoint is rejected outright) and
   F70 (a failed write of a branch's first header ends the message). *)
From stdpp Require Import list.
From Coq Require Import ZArith Lia.
Open Scope Z_scope.

Record header := { hid : Z; hprev : Z; hnum : Z; hbits : Z; htime : Z; hver : Z }.

Record params := {
  genesis : header;
  powLimit : Z; powLimitBits : Z;
  bpr : Z;                      (* blocks per retarget *)
  minTs : Z; maxTs : Z; targetTs : Z;
  reduceMinDiff : bool; minDiffRedTime : Z;
  noRetarget : bool; bip94 : bool;
  bip34h : Z; bip65h : Z; bip66h : Z;
  checkpoints : list (Z * Z);   (* (height, hash), ascending heights *)
  memCap : Z                    (* capacity of the in-memory header window *)
}.

Definition zn (z : Z) : nat := if (0 <=? z) && (z <? 1000000) then Z.to_nat z else 0%nat.
Definition zlen {A} (l : list A) : Z := Z.of_nat (length l).
Definition at_h {A} (l : list A) (h : Z) : option A :=
  if (0 <=? h) && (h <? zlen l) then l !! zn h else None.

(* ---------- compact targets and work (btcd blockchain/difficulty.go) ---------- *)
Definition compactToBig (c : Z) : Z :=
  let mant := Z.land c 8388607 in
  let neg := negb (Z.land c 8388608 =? 0) in
  let e := Z.shiftr c 24 in
  let bn := if e <=? 3 then Z.shiftr mant (8 * (3 - e)) else Z.shiftl mant (8 * (e - 3)) in
  if neg then - bn else bn.

Fixpoint bytelen_fuel (fuel : nat) (n : Z) : Z :=
  match fuel with O => 0 | S f => if n =? 0 then 0 else 1 + bytelen_fuel f (Z.shiftr n 8) end.
Definition bytelen (n : Z) : Z := bytelen_fuel 64 (Z.abs n).

Definition bigToCompact (n : Z) : Z :=
  if n =? 0 then 0 else
  let a := Z.abs n in
  let e := bytelen a in
  let mant := if e <=? 3 then Z.shiftl (Z.land a 4294967295) (8 * (3 - e))
              else Z.land (Z.shiftr a (8 * (e - 3))) 4294967295 in
  let '(mant, e) := if negb (Z.land mant 8388608 =? 0) then (Z.shiftr mant 8, e + 1) else (mant, e) in
  let c := Z.lor (Z.shiftl e 24) mant in
  if n <? 0 then Z.lor c 8388608 else c.

Definition calcWork (b : Z) : Z :=
  let d := compactToBig b in if d <=? 0 then 0 else (2 ^ 256) / (d + 1).

(* ---------- in-memory window ---------- *)
Record node := { nheight : Z; nhdr : header }.
Definition win_push (cap : Z) (l : list node) (n : node) : list node :=
  (if zlen l >=? cap then drop 1 l else l) ++ [n].
Definition win_find (l : list node) (h : Z) : option node :=
  list_find (fun n => nheight n = h) (reverse l) ≫= (fun p => Some p.2).

(* lightHeaderCtx ancestor lookup: the window first, then the store by height *)
Definition view (l : list node) (c : list header) (h : Z) : option header :=
  match win_find l h with
  | Some n => Some (nhdr n)
  | None => at_h c h
  end.

(* ---------- header sanity, over an arbitrary ancestor lookup ---------- *)
Inductive verdict := VOk | VBadDifficulty | VTimeTooOld | VTimeWarp | VVersionTooOld | VNoCtx
                   | VLowTarget | VHighTarget | VHighHash | VTimeTooNew.

Section Sanity.
Variable P : params.
Variable look : Z -> option header.      (* header at an absolute height *)

Fixpoint find_prev_testnet (fuel : nat) (h : Z) (b : Z) : Z :=
  match fuel with
  | O => b
  | S f =>
    if negb (h mod bpr P =? 0) && (b =? powLimitBits P) then
      match look (h - 1) with
      | Some x => find_prev_testnet f (h - 1) (hbits x)
      | None => powLimitBits P
      end
    else b
  end.

Definition next_required (ph : Z) (phdr : header) (newtime : Z) : option Z :=
  if noRetarget P then Some (powLimitBits P) else
  if negb ((ph + 1) mod bpr P =? 0) then
    if reduceMinDiff P then
      if newtime >? htime phdr + minDiffRedTime P then Some (powLimitBits P)
      else Some (find_prev_testnet (zn ph + 1) ph (hbits phdr))
    else Some (hbits phdr)
  else
    match look (ph - (bpr P - 1)) with
    | None => None
    | Some first =>
      let actual := htime phdr - htime first in
      let adj := if actual <? minTs P then minTs P else if actual >? maxTs P then maxTs P else actual in
      let old := compactToBig (if bip94 P then hbits first else hbits phdr) in
      let nt := (old * adj) / targetTs P in
      let nt := if nt >? powLimit P then powLimit P else nt in
      Some (bigToCompact nt)
    end.

Fixpoint collect_times (n : nat) (h : Z) : list Z :=
  match n with
  | O => []
  | S k => match look h with
           | Some x => htime x :: collect_times k (h - 1)
           | None => []
           end
  end.
Fixpoint insert_sorted (x : Z) (xs : list Z) : list Z :=
  match xs with [] => [x] | y :: ys => if x <=? y then x :: y :: ys else y :: insert_sorted x ys end.
Definition median_time (ph : Z) (phdr : header) : Z :=
  let ts := foldr insert_sorted [] (htime phdr :: collect_times 10 (ph - 1)) in
  default 0 (ts !! (length ts / 2)%nat).

Definition check_sanity (now : Z) (h : header) (ph : Z) (phdr : header) : verdict :=
  match next_required ph phdr (htime h) with
  | None => VNoCtx
  | Some exp =>
    if negb (hbits h =? exp) then VBadDifficulty else
    if negb (htime h >? median_time ph phdr) then VTimeTooOld else
    let bh := ph + 1 in
    if bip94 P && (bh mod bpr P =? 0) && (htime h <? htime phdr - 600) then VTimeWarp else
    if ((hver h <? 2) && (bh >=? bip34h P)) || ((hver h <? 3) && (bh >=? bip66h P))
       || ((hver h <? 4) && (bh >=? bip65h P)) then VVersionTooOld else
    let tgt := compactToBig (hbits h) in
    if tgt <=? 0 then VLowTarget else if tgt >? powLimit P then VHighTarget else
    if hnum h >? tgt then VHighHash else
    if htime h >? now + 7200 then VTimeTooNew else VOk
  end.
End Sanity.

Definition is_ok (v : verdict) : bool := match v with VOk => true | _ => false end.

(* ---------- peers ---------- *)
Record peer := { pid : Z; lastBlock : Z; startH : Z; disc : bool; fullnode : bool }.

(* ---------- events ---------- *)
Inductive ev :=
| EConn (hash height : Z)
| EDisc (hash height newtip : Z).

Record state := {
  chain : list header;        (* block header store *)
  fchain : list Z;            (* filter header store (tokens) *)
  hl : list node;             (* in-memory window, oldest first *)
  syncPeer : option Z;
  cands : list Z;             (* sync candidates, in list order *)
  nextCp : option (Z * Z);
  peers : list peer;
  ftipVar : Z;                (* in-memory filterHeaderTip *)
  events : list ev;           (* all notifications emitted so far *)
  trap : bool                 (* an ill-formed store operation was issued *)
}.

Definition upd (s : state) (f : state -> state) := f s.
Definition set_chain c s := {| chain := c; fchain := fchain s; hl := hl s; syncPeer := syncPeer s; cands := cands s; nextCp := nextCp s; peers := peers s; ftipVar := ftipVar s; events := events s; trap := trap s |}.
Definition set_fchain c s := {| chain := chain s; fchain := c; hl := hl s; syncPeer := syncPeer s; cands := cands s; nextCp := nextCp s; peers := peers s; ftipVar := ftipVar s; events := events s; trap := trap s |}.
Definition set_hl l s := {| chain := chain s; fchain := fchain s; hl := l; syncPeer := syncPeer s; cands := cands s; nextCp := nextCp s; peers := peers s; ftipVar := ftipVar s; events := events s; trap := trap s |}.
Definition set_sync p s := {| chain := chain s; fchain := fchain s; hl := hl s; syncPeer := p; cands := cands s; nextCp := nextCp s; peers := peers s; ftipVar := ftipVar s; events := events s; trap := trap s |}.
Definition set_cands c s := {| chain := chain s; fchain := fchain s; hl := hl s; syncPeer := syncPeer s; cands := c; nextCp := nextCp s; peers := peers s; ftipVar := ftipVar s; events := events s; trap := trap s |}.
Definition set_cp c s := {| chain := chain s; fchain := fchain s; hl := hl s; syncPeer := syncPeer s; cands := cands s; nextCp := c; peers := peers s; ftipVar := ftipVar s; events := events s; trap := trap s |}.
Definition set_peers p s := {| chain := chain s; fchain := fchain s; hl := hl s; syncPeer := syncPeer s; cands := cands s; nextCp := nextCp s; peers := p; ftipVar := ftipVar s; events := events s; trap := trap s |}.
Definition set_ftip t s := {| chain := chain s; fchain := fchain s; hl := hl s; syncPeer := syncPeer s; cands := cands s; nextCp := nextCp s; peers := peers s; ftipVar := t; events := events s; trap := trap s |}.
Definition add_ev e s := {| chain := chain s; fchain := fchain s; hl := hl s; syncPeer := syncPeer s; cands := cands s; nextCp := nextCp s; peers := peers s; ftipVar := ftipVar s; events := events s ++ [e]; trap := trap s |}.
Definition set_trap s := {| chain := chain s; fchain := fchain s; hl := hl s; syncPeer := syncPeer s; cands := cands s; nextCp := nextCp s; peers := peers s; ftipVar := ftipVar s; events := events s; trap := true |}.

Definition get_peer (s : state) (p : Z) : peer :=
  match list_find (fun q => pid q = p) (peers s) with
  | Some (_, q) => q
  | None => {| pid := p; lastBlock := 0; startH := 0; disc := false; fullnode := true |}
  end.
Definition put_peer (q : peer) (s : state) : state :=
  set_peers (q :: filter (fun r => pid r <> pid q) (peers s)) s.
Definition disconnect (p : Z) (s : state) : state :=
  let q := get_peer s p in
  put_peer {| pid := p; lastBlock := lastBlock q; startH := startH q; disc := true; fullnode := fullnode q |} s.
(* peer.UpdateLastBlockHeight: only ever raises *)
Definition bump_last (p : Z) (h : Z) (s : state) : state :=
  let q := get_peer s p in
  if h <=? lastBlock q then s
  else put_peer {| pid := p; lastBlock := h; startH := startH q; disc := disc q; fullnode := fullnode q |} s.

(* ---------- store access (plain lists) ---------- *)
Definition tip_height (s : state) : Z := zlen (chain s) - 1.
Definition chain_tip (s : state) : option header := last (chain s).
Definition fetch_header (c : list header) (x : Z) : option (header * Z) :=
  list_find (fun h => hid h = x) c ≫= (fun p => Some (p.2, Z.of_nat p.1)).

Definition fresh (c : list header) (x : Z) : bool :=
  match fetch_header c x with Some _ => false | None => true end.
Fixpoint fresh_all (c : list header) (es : list (header * Z)) : bool :=
  match es with
  | [] => true
  | e :: r => fresh c (hid e.1) && negb (existsb (fun e' => hid e'.1 =? hid e.1) r) && fresh_all c r
  end.
Fixpoint heights_from (h : Z) (es : list (header * Z)) : bool :=
  match es with [] => true | e :: r => (e.2 =? h) && heights_from (h + 1) r end.

(* BlockHeaders.WriteHeaders; well-formed iff heights are contiguous from the
   tip and the hashes are new *)
Definition write_headers (es : list (header * Z)) (s : state) : state :=
  match es with
  | [] => s
  | _ =>
    if heights_from (zlen (chain s)) es && fresh_all (chain s) es
    then set_chain (chain s ++ es.*1) s
    else set_trap s
  end.

(* ---------- checkpoints ---------- *)
Definition find_prev_cp (P : params) (h : Z) : Z * Z :=
  fold_left (fun acc c => if h <=? c.1 then acc else c) (checkpoints P) (0, hid (genesis P)).
Definition find_next_cp (P : params) (h : Z) : option (Z * Z) :=
  match list_find (fun c => h < c.1) (checkpoints P) with Some (_, c) => Some c | None => None end.

(* ---------- BlockHeadersSynced ---------- *)
Definition headers_synced (P : params) (now : Z) (s : state) : bool :=
  match chain_tip s with
  | None => false
  | Some t =>
    let h := tip_height s in
    let cpok := match last (checkpoints P) with Some c => negb (c.1 >=? h) | None => true end in
    let sp := match syncPeer s with Some p => Some (get_peer s p) | None => None end in
    cpok &&
    (match sp with Some q => negb (h <? lastBlock q) | None => true end) &&
    negb (htime t <? now - 86400) &&
    (match sp with Some q => lastBlock q >=? startH q | None => true end)
  end.

(* ---------- rollBackToHeight ---------- *)
(* per removed block: filter entry first (if the filter chain reaches it),
   then the block; one disconnected event per block, highest first *)
Fixpoint roll_back (fuel : nat) (h : Z) (s : state) : state :=
  match fuel with
  | O => s
  | S f =>
    let th := tip_height s in
    if th >? h then
      match at_h (chain s) th, at_h (chain s) (th - 1) with
      | Some cur, Some prev =>
        let s1 := if th <=? zlen (fchain s) - 1
                  then set_ftip (th - 1) (set_fchain (take (zn th) (fchain s)) s)
                  else s in
        let s2 := set_chain (take (zn th) (chain s1)) s1 in
        roll_back f h (add_ev (EDisc (hid cur) th (hid prev)) s2)
      | _, _ => s
      end
    else s
  end.
Definition roll_back_to (h : Z) (s : state) : state := roll_back (length (chain s)) h s.

(* ---------- handleHeadersMsg ---------- *)
Fixpoint connected (prev : Z) (hs : list header) : bool :=
  match hs with [] => true | x :: t => (hprev x =? prev) && connected (hid x) t end.
Definition headers_connected (hs : list header) : bool :=
  match hs with [] => true | x :: t => connected (hid x) t end.

Record acc := { a_s : state; a_batch : list (header * Z); a_recvcp : bool; a_finalh : Z }.
Inductive outcome := Return (s : state) | Continue (a : acc) | Break (a : acc).

(* matchesHeaderCheckpoint (F17 fix): no checkpoint at this height, or the same hash *)
Definition cp_matches (P : params) (h : Z) (x : header) : bool :=
  forallb (fun cp => negb (cp.1 =? h) || (cp.2 =? hid x)) (checkpoints P).

(* sanity of a reorg branch through the scratch list; returns its total work *)
Fixpoint reorg_check (P : params) (now : Z) (c : list header) (rl : list node) (prevh : Z) (prevhdr : header)
         (hs : list header) (work : Z) : option Z :=
  match hs with
  | [] => Some work
  | x :: t =>
    if is_ok (check_sanity P (view rl c) now x prevh prevhdr) && cp_matches P (prevh + 1) x
    then reorg_check P now c (win_push (memCap P) rl {| nheight := prevh + 1; nhdr := x |})
                     (prevh + 1) x t (work + calcWork (hbits x))
    else None
  end.

(* work of the known chain above the fork point: the window from the back,
   then the store by previous-hash *)
Fixpoint known_work (fuel : nat) (c : list header) (l : list node) (cur : option header) (j backh : Z) (w : Z) : Z :=
  match fuel with
  | O => w
  | S f =>
    if j >? backh then
      let '(kh, l') := match reverse l with
                       | n :: r => (Some (nhdr n), reverse r)
                       | [] => (match cur with
                                | Some x => option_map fst (fetch_header c (hprev x))
                                | None => None end, [])
                       end in
      match kh with
      | Some k => known_work f c l' (Some k) (j - 1) backh (w + calcWork (hbits k))
      | None => w
      end
    else w
  end.

Definition is_sync (s : state) (p : Z) : bool :=
  match syncPeer s with Some q => q =? p | None => false end.

Definition step_header (P : params) (now : Z) (p : Z) (a : acc) (bh : header) (rest : list header) : outcome :=
  let s := a_s a in
  match last (hl s) with
  | None => Return (disconnect p s)
  | Some pn =>
    let prevHash := hid (nhdr pn) in
    let '(out, nodeh) :=
      if prevHash =? hprev bh then
        if is_ok (check_sanity P (view (hl s) (chain s)) now bh (nheight pn) (nhdr pn)) then
          let nh := nheight pn + 1 in
          let s1 := bump_last p nh s in
          let s2 := set_hl (win_push (memCap P) (hl s1) {| nheight := nh; nhdr := bh |}) s1 in
          (Continue {| a_s := s2; a_batch := a_batch a ++ [(bh, nh)]; a_recvcp := a_recvcp a; a_finalh := nh |}, nh)
        else (Return (disconnect p s), 0)
      else
        if negb (is_sync s p) && negb (headers_synced P now s) then (Return s, 0)
        else if hid bh =? prevHash then (Continue a, 0)
        else match fetch_header (chain s) (hid bh) with
        | Some _ => (Continue a, 0)
        | None =>
          match fetch_header (chain s) (hprev bh) with
          | None => (Return (disconnect p s), 0)
          | Some (backHead, backH) =>
            (* F02 fixed: the floor is the newest checkpoint at or below the tip *)
            let pc := find_prev_cp P (nheight pn + 1) in
            if backH <? pc.1 then (Return (disconnect p s), 0) else
            match reorg_check P now (chain s) [{| nheight := backH; nhdr := backHead |}] backH backHead (bh :: rest) 0 with
            | None => (Return (disconnect p s), 0)
            | Some total =>
              let known := known_work (zn (nheight pn - backH) + 1) (chain s) (hl s) None (nheight pn) backH 0 in
              if known >? total then (Return (disconnect p s), 0)
              else if known =? total then (Return s, 0)
              else
                let s1 := set_sync (Some p) s in
                let s2 := roll_back_to backH s1 in
                let s3 := write_headers [(bh, backH + 1)] s2 in
                let s4 := set_hl [{| nheight := backH; nhdr := backHead |}; {| nheight := backH + 1; nhdr := bh |}] s3 in
                (Continue {| a_s := s4; a_batch := a_batch a; a_recvcp := a_recvcp a; a_finalh := a_finalh a |}, 0)
            end
          end
        end
    in
    match out with
    | Continue a' =>
      let s' := a_s a' in
      match nextCp s' with
      | Some (ch, chash) =>
        if nodeh =? ch then
          if hid bh =? chash
          then Break {| a_s := s'; a_batch := a_batch a'; a_recvcp := true; a_finalh := a_finalh a' |}
          else
            let pc := find_prev_cp P nodeh in
            Return (disconnect p (roll_back_to pc.1 s'))
        else Continue a'
      | None => Continue a'
      end
    | o => o
    end
  end.

Fixpoint loop (P : params) (now : Z) (p : Z) (a : acc) (hs : list header) : outcome :=
  match hs with
  | [] => Break a
  | bh :: rest =>
    match step_header P now p a bh rest with
    | Continue a' => loop P now p a' rest
    | o => o
    end
  end.

(* F01 fixed: on every exit the window is re-synchronised with the store tip *)
Definition resync (s : state) : state :=
  match chain_tip s with
  | None => s
  | Some t =>
    let th := tip_height s in
    match last (hl s) with
    | Some n => if (nheight n =? th) && (hid (nhdr n) =? hid t) then s
                else set_hl [{| nheight := th; nhdr := t |}] s
    | None => set_hl [{| nheight := th; nhdr := t |}] s
    end
  end.

Definition handle_headers (P : params) (now : Z) (p : Z) (hs : list header) (s : state) : state :=
  match hs with
  | [] => s
  | _ =>
    if negb (headers_connected hs) then disconnect p s else
    resync
    match loop P now p {| a_s := s; a_batch := []; a_recvcp := false; a_finalh := 0 |} hs with
    | Return s' => s'
    | Continue a | Break a =>
      let s1 := write_headers (a_batch a) (a_s a) in
      if a_recvcp a then set_cp (find_next_cp P (a_finalh a)) s1 else s1
    end
  end.

(* ---------- handleHeadersMsg with a failing BlockHeaders.WriteHeaders ----------
   The k-th WriteHeaders call the handler makes for this message fails and
   writes nothing (k >= 1; what the store itself does under a fault is C07's
   subject).  The handler makes at most two calls: one for the first header
   of a branch it switches to (right after the rollback), and one for the
   validated batch at the end.
   - the batch write fails: "Unable to write block headers", return; the
     next checkpoint is NOT advanced (that happens after the write), peers'
     heights and a sync-peer switch made earlier in the message stay, the
     deferred syncHeaderListWithStore resets the window to the stored tip;
   - the write of a branch's first header fails (F70 fixed: the handler used
     to carry on and write the rest of the branch one height too high):
     return; the rollback has happened and its notifications were emitted, the
     sender is the sync peer, the window is reset to the stored tip. *)
(* the header at which step_header switches to a branch: (fork header, fork height) *)
Definition reorg_point (P : params) (now : Z) (p : Z) (a : acc) (bh : header) (rest : list header) : option (header * Z) :=
  let s := a_s a in
  match last (hl s) with
  | None => None
  | Some pn =>
    if hid (nhdr pn) =? hprev bh then None
    else if negb (is_sync s p) && negb (headers_synced P now s) then None
    else if hid bh =? hid (nhdr pn) then None
    else match fetch_header (chain s) (hid bh) with
    | Some _ => None
    | None =>
      match fetch_header (chain s) (hprev bh) with
      | None => None
      | Some (backHead, backH) =>
        if backH <? (find_prev_cp P (nheight pn + 1)).1 then None else
        match reorg_check P now (chain s) [{| nheight := backH; nhdr := backHead |}] backH backHead (bh :: rest) 0 with
        | None => None
        | Some total =>
          let known := known_work (zn (nheight pn - backH) + 1) (chain s) (hl s) None (nheight pn) backH 0 in
          if known >? total then None else if known =? total then None else Some (backHead, backH)
        end
      end
    end
  end.

(* [k] = which of the WriteHeaders calls still to come fails (0: none) *)
Definition step_header_f (P : params) (now : Z) (p : Z) (k : Z) (a : acc) (bh : header) (rest : list header) : outcome * Z :=
  match reorg_point P now p a bh rest with
  | Some (_, backH) =>
    if k =? 1 then (Return (roll_back_to backH (set_sync (Some p) (a_s a))), 0)
    else (step_header P now p a bh rest, k - 1)
  | None => (step_header P now p a bh rest, k)
  end.

Fixpoint loop_f (P : params) (now : Z) (p : Z) (k : Z) (a : acc) (hs : list header) : outcome * Z :=
  match hs with
  | [] => (Break a, k)
  | bh :: rest =>
    match step_header_f P now p k a bh rest with
    | (Continue a', k') => loop_f P now p k' a' rest
    | r => r
    end
  end.

Definition handle_headers_f (P : params) (now : Z) (p : Z) (hs : list header) (k : Z) (s : state) : state :=
  match hs with
  | [] => s
  | _ =>
    if negb (headers_connected hs) then disconnect p s else
    resync
    match loop_f P now p k {| a_s := s; a_batch := []; a_recvcp := false; a_finalh := 0 |} hs with
    | (Return s', _) => s'
    | (Continue a, k') | (Break a, k') =>
      if (k' =? 1) && (match a_batch a with [] => false | _ => true end) then a_s a
      else
        let s1 := write_headers (a_batch a) (a_s a) in
        if a_recvcp a then set_cp (find_next_cp P (a_finalh a)) s1 else s1
    end
  end.

(* ---------- peers coming and going ---------- *)
Definition start_sync (s : state) : state :=
  match syncPeer s with
  | Some _ => s
  | None =>
    let best := tip_height s in
    let keep := filter (fun p => best <= lastBlock (get_peer s p)) (cands s) in
    let s1 := set_cands keep s in
    let pick := fold_left (fun (acc : option Z) p =>
                  match acc with
                  | None => Some p
                  | Some b => if lastBlock (get_peer s p) >? lastBlock (get_peer s b) then Some p else acc
                  end) keep None in
    match pick with Some p => set_sync (Some p) s1 | None => s1 end
  end.

Definition new_peer (p : Z) (s : state) : state :=
  if negb (fullnode (get_peer s p)) then s
  else start_sync (set_cands (cands s ++ [p]) s).

Fixpoint remove_first (p : Z) (l : list Z) : list Z :=
  match l with [] => [] | x :: r => if x =? p then r else x :: remove_first p r end.

Definition done_peer (p : Z) (s : state) : state :=
  let s1 := set_cands (remove_first p (cands s)) s in
  if is_sync s1 p then
    let s2 := set_sync None s1 in
    match chain_tip s2 with
    | Some t => start_sync (set_hl [{| nheight := tip_height s2; nhdr := t |}] s2)
    | None => s2
    end
  else s1.

(* handleInvMsg: the only effect on the state modelled here is the peer's
   last block height (which gates BlockHeadersSynced) *)
Definition handle_inv (P : params) (now : Z) (p : Z) (last_block_hash : option Z) (s : state) : state :=
  match last_block_hash with
  | None => s
  | Some x =>
    if negb (is_sync s p) && negb (headers_synced P now s) then s
    else if headers_synced P now s then
      match fetch_header (chain s) x with
      | Some (_, h) => bump_last p h s
      | None => s
      end
    else s
  end.

(* ---------- filter headers ---------- *)
(* writeCFHeadersMsg: prev = claimed previous filter header, fs = the new
   filter headers (already chained by the caller of the model: tokens), stop =
   stop block hash.  Result: ok? *)
Definition write_cf (prev : Z) (fs : list Z) (stop : Z) (s : state) : state * bool :=
  match last (fchain s) with
  | None => (s, false)
  | Some tip =>
    if negb (tip =? prev) then (s, false) else
    match fs with
    | [] => (s, false)          (* the code would index [-1]: callers never pass an empty message *)
    | _ =>
      let n := zlen fs in
      match fetch_header (chain s) stop with
      | None => (s, false)
      | Some (_, endh) =>
        let start := endh - (n - 1) in
        if start <? 0 then (s, false) else
        (* F26 fixed: the batch must land exactly above the current filter tip *)
        if negb (start =? zlen (fchain s)) then (s, false) else
        let s1 := set_fchain (fchain s ++ fs) s in
        let s2 := set_ftip endh s1 in
        let evs := map (fun i => match at_h (chain s) (start + Z.of_nat i) with
                                 | Some h => EConn (hid h) (start + Z.of_nat i)
                                 | None => EConn 0 (start + Z.of_nat i) end) (seq 0 (zn n)) in
        (fold_left (fun st e => add_ev e st) evs s2, true)
      end
    end
  end.

(* NotificationsSinceHeight: (backlog of connected (hash,height), best) or error *)
Definition notifs_since (h : Z) (s : state) : option (list (Z * Z) * Z) :=
  let best := ftipVar s in
  if (h =? 0) || (best =? h) then Some ([], best)
  else if h >? best then None
  else
    let hs := map (fun i => h + 1 + Z.of_nat i) (seq 0 (zn (best - h))) in
    let items := map (fun i => match at_h (chain s) i with Some x => Some (hid x, i) | None => None end) hs in
    if forallb (fun o => match o with Some _ => true | None => false end) items
    then Some (omap id items, best) else None.

(* ---------- restart ---------- *)
(* The process is stopped and started again: a NEW block manager is built by
   newBlockManager over the SAME two header stores (neutrino.go
   NewChainService; ResetHeaderState does the same re-reading).  Nothing of
   the old in-memory state survives: the header window holds the stored tip
   only (headerList.ResetHeaderState), nextCheckpoint is recomputed from the
   tip height, filterHeaderTip is read from the filter header store, there is
   no sync peer, no sync candidate and no peer.  No notification is emitted.
   (newBlockManager fails if a store has no tip: not reachable, the stores
   always hold their genesis entries.) *)
Definition restart (P : params) (s : state) : state :=
  match chain_tip s with
  | None => s
  | Some t =>
    {| chain := chain s; fchain := fchain s;
       hl := [{| nheight := tip_height s; nhdr := t |}];
       syncPeer := None; cands := []; nextCp := find_next_cp P (tip_height s);
       peers := []; ftipVar := zlen (fchain s) - 1;
       events := events s; trap := trap s |}
  end.

(* ---------- handleHeadersMsg with a failing rollback of the block header store ----------
   While the handler switches to a heavier branch it removes the displaced
   headers one by one (rollBackToHeight).  The k-th BlockHeaders.RollbackLastBlock
   of that rollback fails the way the store fails when the header file cannot
   be truncated: the index has gone back, the bytes are still in the file.
   rollBackToHeight returns the error, handleHeadersMsg PANICS ("Rollback
   failed"): the process dies and is started again; the stores' start-up
   recovery cuts the file back to the index and a new block manager is built
   (restart).  What the dead process had done: k - 1 blocks removed and
   announced, the k-th removed from both stores (the filter entry first) but
   NOT announced.  A rollback that needs fewer than k calls is not affected.
   (Only the rollback of the reorganisation path is modelled with a fault;
   the rollback after a checkpoint mismatch logs the error and goes on.) *)
Definition pop_event (s : state) : state :=
  {| chain := chain s; fchain := fchain s; hl := hl s; syncPeer := syncPeer s; cands := cands s;
     nextCp := nextCp s; peers := peers s; ftipVar := ftipVar s;
     events := take (length (events s) - 1) (events s); trap := trap s |}.

Definition crash_state (P : params) (p : Z) (s : state) (k : Z) : state :=
  restart P (pop_event (roll_back_to (tip_height s - k) (set_sync (Some p) s))).

Definition step_header_r (P : params) (now : Z) (p : Z) (k : Z) (a : acc) (bh : header) (rest : list header) : outcome :=
  match reorg_point P now p a bh rest with
  | Some (_, backH) =>
    if (1 <=? k) && (k <=? tip_height (a_s a) - backH) then Return (crash_state P p (a_s a) k)
    else step_header P now p a bh rest
  | None => step_header P now p a bh rest
  end.

Fixpoint loop_r (P : params) (now : Z) (p : Z) (k : Z) (a : acc) (hs : list header) : outcome :=
  match hs with
  | [] => Break a
  | bh :: rest =>
    match step_header_r P now p k a bh rest with
    | Continue a' => loop_r P now p k a' rest
    | o => o
    end
  end.

Definition handle_headers_r (P : params) (now : Z) (p : Z) (hs : list header) (k : Z) (s : state) : state :=
  match hs with
  | [] => s
  | _ =>
    if negb (headers_connected hs) then disconnect p s else
    resync
    match loop_r P now p k {| a_s := s; a_batch := []; a_recvcp := false; a_finalh := 0 |} hs with
    | Return s' => s'
    | Continue a | Break a =>
      let s1 := write_headers (a_batch a) (a_s a) in
      if a_recvcp a then set_cp (find_next_cp P (a_finalh a)) s1 else s1
    end
  end.

(* ---------- operations ---------- *)
Inductive op :=
| OHeaders (p : Z) (now : Z) (hs : list header)
| OInv (p : Z) (now : Z) (last_block_hash : option Z)
| ONewPeer (p : Z) (start last : Z) (full : bool)
| ODonePeer (p : Z)
| OWriteCF (prev : Z) (fs : list Z) (stop : Z)
| ORollback (h : Z)
| ORestart
| OHeadersF (p : Z) (now : Z) (hs : list header) (k : Z)
| OHeadersR (p : Z) (now : Z) (hs : list header) (k : Z).

Definition step (P : params) (s : state) (o : op) : state :=
  match o with
  | OHeaders p now hs => handle_headers P now p hs s
  | OInv p now x => handle_inv P now p x s
  | ONewPeer p st la full =>
      new_peer p (put_peer {| pid := p; lastBlock := la; startH := st; disc := false; fullnode := full |} s)
  | ODonePeer p => done_peer p s
  | OWriteCF prev fs stop => fst (write_cf prev fs stop s)
  | ORollback h => roll_back_to h s
  | ORestart => restart P s
  | OHeadersF p now hs k => handle_headers_f P now p hs k s
  | OHeadersR p now hs k => handle_headers_r P now p hs k s
  end.

Definition init_state (P : params) (gfh : Z) : state :=
  {| chain := [genesis P]; fchain := [gfh];
     hl := [{| nheight := 0; nhdr := genesis P |}];
     syncPeer := None; cands := []; nextCp := find_next_cp P 0; peers := [];
     ftipVar := 0; events := []; trap := false |}.

Definition run (P : params) (s : state) (ops : list op) : state := fold_left (step P) ops s.
