(* S2 — basic lemmas for the block-manager model: heights and lookups,
   check_sanity depends on its ancestor lookup only pointwise, the in-memory
   window as a suffix of the chain (view_agree), by-hash lookup, store writes,
   rollBackToHeight, checkpoints, chains valid on plain lists (ChainOK),
   what step_header computes, reorg_check and known_work. *)
From stdpp Require Import list.
From Coq Require Import ZArith Lia ZifyBool.
From Verif Require Import S2.Model C01.Spec.
Open Scope Z_scope.

(* ==================== heights, at_h, check_sanity_ext ==================== *)
Definition LIMIT : Z := 1000000.

Lemma zn_eq z : 0 <= z < LIMIT -> zn z = Z.to_nat z.
Proof.
  intros H. unfold zn, LIMIT in *.
  destruct (0 <=? z) eqn:E1; destruct (z <? 1000000) eqn:E2; cbn; try reflexivity; lia.
Qed.

Lemma zlen_nonneg {A} (l : list A) : 0 <= zlen l.
Proof. unfold zlen. lia. Qed.
Lemma zlen_app {A} (l1 l2 : list A) : zlen (l1 ++ l2) = zlen l1 + zlen l2.
Proof. unfold zlen. rewrite app_length. lia. Qed.
Lemma zlen_cons {A} (x : A) l : zlen (x :: l) = 1 + zlen l.
Proof. unfold zlen. cbn [length]. lia. Qed.
Lemma zlen_nil A : zlen (@nil A) = 0.
Proof. reflexivity. Qed.
Lemma zlen_snoc {A} (l : list A) x : zlen (l ++ [x]) = zlen l + 1.
Proof. unfold zlen. rewrite app_length. cbn. lia. Qed.
Lemma zlen_fmap {A B} (f : A -> B) l : zlen (f <$> l) = zlen l.
Proof. unfold zlen. by rewrite fmap_length. Qed.
Lemma zlen_pos {A} (l : list A) : l <> [] -> 0 < zlen l.
Proof. destruct l; [congruence|]. rewrite zlen_cons. pose proof (zlen_nonneg l). lia. Qed.
Lemma zlen_take {A} (l : list A) k : 0 <= k <= zlen l -> zlen (take (Z.to_nat k) l) = k.
Proof. unfold zlen. intros H. rewrite take_length. lia. Qed.

Lemma at_h_Some {A} (l : list A) h x : at_h l h = Some x -> 0 <= h < zlen l.
Proof.
  unfold at_h. destruct (0 <=? h) eqn:E1; destruct (h <? zlen l) eqn:E2; cbn; try discriminate. lia.
Qed.
Lemma at_h_lookup {A} (l : list A) h : 0 <= h < zlen l -> zlen l <= LIMIT -> at_h l h = l !! Z.to_nat h.
Proof.
  intros H HL. unfold at_h.
  destruct (0 <=? h) eqn:E1; destruct (h <? zlen l) eqn:E2; cbn; try lia.
  rewrite zn_eq by lia. reflexivity.
Qed.
Lemma at_h_None {A} (l : list A) h : ~ (0 <= h < zlen l) -> at_h l h = None.
Proof.
  intros H. unfold at_h.
  destruct (0 <=? h) eqn:E1; destruct (h <? zlen l) eqn:E2; cbn; try reflexivity. lia.
Qed.
Lemma at_h_app_l {A} (l1 l2 : list A) h : zlen (l1 ++ l2) <= LIMIT -> h < zlen l1 -> at_h (l1 ++ l2) h = at_h l1 h.
Proof.
  intros HL H. pose proof (zlen_app l1 l2). pose proof (zlen_nonneg l2).
  destruct (decide (0 <= h)) as [Hz|Hz].
  - rewrite !at_h_lookup by lia. apply lookup_app_l. unfold zlen in H. lia.
  - rewrite !at_h_None by lia. reflexivity.
Qed.
Lemma at_h_app_r {A} (l1 l2 : list A) h : zlen (l1 ++ l2) <= LIMIT -> zlen l1 <= h ->
  at_h (l1 ++ l2) h = l2 !! Z.to_nat (h - zlen l1).
Proof.
  intros HL H. pose proof (zlen_app l1 l2). pose proof (zlen_nonneg l1).
  destruct (decide (h < zlen (l1 ++ l2))) as [Hi|Hi].
  - rewrite at_h_lookup by lia. rewrite lookup_app_r by (unfold zlen in *; lia).
    f_equal. unfold zlen. lia.
  - rewrite at_h_None by lia. symmetry. apply lookup_ge_None. unfold zlen in *. lia.
Qed.
Lemma at_h_take {A} (l : list A) k h : zlen l <= LIMIT -> 0 <= k <= zlen l -> h < k ->
  at_h (take (Z.to_nat k) l) h = at_h l h.
Proof.
  intros HL Hk Hh. pose proof (zlen_take l k Hk).
  destruct (decide (0 <= h)) as [Hz|Hz].
  - rewrite !at_h_lookup by lia. apply lookup_take. lia.
  - rewrite !at_h_None by lia. reflexivity.
Qed.
Lemma last_at_h {A} (l : list A) : l <> [] -> zlen l <= LIMIT -> last l = at_h l (zlen l - 1).
Proof.
  intros Hne HL. pose proof (zlen_pos l Hne). rewrite at_h_lookup by lia.
  rewrite last_lookup. f_equal. unfold zlen. lia.
Qed.

(* ---------- check_sanity only looks at heights <= ph, pointwise ---------- *)
Section Ext.
Variable P : params.
Variables look1 look2 : Z -> option header.

Lemma find_prev_testnet_ext fuel : forall h b,
  (forall k, k < h -> look1 k = look2 k) ->
  find_prev_testnet P look1 fuel h b = find_prev_testnet P look2 fuel h b.
Proof.
  induction fuel as [|f IH]; intros h b Hk; cbn [find_prev_testnet]; [reflexivity|].
  destruct (negb (h mod bpr P =? 0) && (b =? powLimitBits P)); [|reflexivity].
  rewrite <- Hk by lia. destruct (look1 (h - 1)); [|reflexivity].
  apply IH. intros k Hlt. apply Hk. lia.
Qed.

Lemma collect_times_ext n : forall h,
  (forall k, k <= h -> look1 k = look2 k) ->
  collect_times look1 n h = collect_times look2 n h.
Proof.
  induction n as [|n IH]; intros h Hk; cbn [collect_times]; [reflexivity|].
  rewrite <- Hk by lia. destruct (look1 h); [|reflexivity].
  f_equal. apply IH. intros k Hlt. apply Hk. lia.
Qed.

Lemma check_sanity_ext now x ph phdr :
  0 < bpr P ->
  (forall k, k <= ph -> look1 k = look2 k) ->
  check_sanity P look1 now x ph phdr = check_sanity P look2 now x ph phdr.
Proof.
  intros Hb Hk. unfold check_sanity.
  assert (Hn : next_required P look1 ph phdr (htime x) = next_required P look2 ph phdr (htime x)).
  { unfold next_required. rewrite (find_prev_testnet_ext (zn ph + 1) ph (hbits phdr)) by (intros; apply Hk; lia).
    rewrite <- (Hk (ph - (bpr P - 1))) by lia. reflexivity. }
  assert (Hm : median_time look1 ph phdr = median_time look2 ph phdr).
  { unfold median_time. rewrite (collect_times_ext 10 (ph - 1)) by (intros; apply Hk; lia). reflexivity. }
  rewrite Hn, Hm. reflexivity.
Qed.
End Ext.

(* ==================== the in-memory window: nodes_from, WM, view_agree ==================== *)
(* ---------- windows ---------- *)
Fixpoint nodes_from (h : Z) (l : list header) : list node :=
  match l with [] => [] | x :: t => {| nheight := h; nhdr := x |} :: nodes_from (h + 1) t end.

Lemma nodes_from_app l1 : forall h l2,
  nodes_from h (l1 ++ l2) = nodes_from h l1 ++ nodes_from (h + zlen l1) l2.
Proof.
  induction l1 as [|x l1 IH]; intros h l2; cbn [nodes_from app].
  - rewrite zlen_nil. by replace (h + 0) with h by lia.
  - rewrite IH, zlen_cons. by replace (h + 1 + zlen l1) with (h + (1 + zlen l1)) by lia.
Qed.
Lemma nodes_from_length l : forall h, length (nodes_from h l) = length l.
Proof. induction l; intros; cbn; [done|by rewrite IHl]. Qed.
Lemma zlen_nodes_from h l : zlen (nodes_from h l) = zlen l.
Proof. unfold zlen. by rewrite nodes_from_length. Qed.
Lemma nodes_from_heights l : forall h n, n ∈ nodes_from h l -> h <= nheight n < h + zlen l.
Proof.
  induction l as [|x l IH]; intros h n Hin; cbn in Hin.
  - by apply elem_of_nil in Hin.
  - rewrite zlen_cons. pose proof (zlen_nonneg l). apply elem_of_cons in Hin as [->|Hin]; cbn; [lia|].
    apply IH in Hin. lia.
Qed.
Lemma nodes_from_drop l : forall h k, drop k (nodes_from h l) = nodes_from (h + Z.of_nat k) (drop k l).
Proof.
  induction l as [|x l IH]; intros h k.
  - rewrite drop_nil. cbn. by rewrite drop_nil.
  - destruct k as [|k]; cbn [drop nodes_from].
    + by replace (h + Z.of_nat 0) with h by lia.
    + rewrite IH. f_equal. lia.
Qed.
Lemma nodes_from_last l h x : last (nodes_from h (l ++ [x])) = Some {| nheight := h + zlen l; nhdr := x |}.
Proof. rewrite nodes_from_app. cbn [nodes_from]. by rewrite last_snoc. Qed.

Lemma win_find_spec tail : forall b h,
  win_find (nodes_from b tail) h =
  if (b <=? h) && (h <? b + zlen tail)
  then option_map (fun x => {| nheight := h; nhdr := x |}) (tail !! Z.to_nat (h - b)) else None.
Proof.
  induction tail as [|x tail IH] using rev_ind; intros b h.
  - cbn. rewrite zlen_nil. destruct ((b <=? h) && (h <? b + 0)) eqn:E; [lia|reflexivity].
  - specialize (IH b h). unfold win_find in *. rewrite nodes_from_app. cbn [nodes_from]. rewrite reverse_snoc.
    rewrite zlen_app, zlen_cons, zlen_nil. replace (zlen tail + (1 + 0)) with (zlen tail + 1) by lia.
    cbn [list_find]. pose proof (zlen_nonneg tail) as Hnn.
    destruct (decide (nheight {| nheight := b + zlen tail; nhdr := x |} = h)) as [Heq|Hne]; cbn [nheight] in *.
    + subst h. cbn [mbind option_bind snd].
      destruct ((b <=? b + zlen tail) && (b + zlen tail <? b + (zlen tail + 1))) eqn:E; [|lia].
      replace (Z.to_nat (b + zlen tail - b)) with (length tail) by (unfold zlen; lia).
      rewrite lookup_app_r by lia. by rewrite Nat.sub_diag.
    + destruct (list_find (λ n : node, nheight n = h) (reverse (nodes_from b tail))) as [[i n]|] eqn:E;
        cbn [mbind option_bind snd fmap option_fmap option_map prod_map fst] in *.
      * destruct ((b <=? h) && (h <? b + zlen tail)) eqn:E2; [|discriminate IH].
        destruct ((b <=? h) && (h <? b + (zlen tail + 1))) eqn:E3; [|lia].
        rewrite lookup_app_l by (unfold zlen in *; lia). exact IH.
      * destruct ((b <=? h) && (h <? b + zlen tail)) eqn:E2.
        -- destruct ((b <=? h) && (h <? b + (zlen tail + 1))) eqn:E3; [|lia].
           rewrite lookup_app_l by (unfold zlen in *; lia). exact IH.
        -- destruct ((b <=? h) && (h <? b + (zlen tail + 1))) eqn:E3; [lia|reflexivity].
Qed.

(* [w] is the tail of [full], with heights = positions *)
Definition WM (w : list node) (full : list header) : Prop :=
  exists pre tail, full = pre ++ tail /\ tail <> [] /\ w = nodes_from (zlen pre) tail.

Lemma WM_len w full : WM w full -> 0 < zlen w <= zlen full.
Proof.
  intros (pre & tail & -> & Hne & ->). rewrite zlen_nodes_from, zlen_app.
  pose proof (zlen_pos tail Hne). pose proof (zlen_nonneg pre). lia.
Qed.

Lemma WM_last w full : WM w full ->
  exists t, last full = Some t /\ last w = Some {| nheight := zlen full - 1; nhdr := t |}.
Proof.
  intros (pre & tail & -> & Hne & ->).
  destruct (exists_last Hne) as (tl & t & ->). exists t.
  rewrite app_assoc, last_snoc. split; [reflexivity|].
  rewrite nodes_from_last. do 2 f_equal. rewrite <- app_assoc, !zlen_app, zlen_cons, zlen_nil. lia.
Qed.

Lemma WM_single full t : last full = Some t -> WM [{| nheight := zlen full - 1; nhdr := t |}] full.
Proof.
  intros Hl. apply last_Some in Hl as [pre ->]. exists pre, [t]. split; [reflexivity|]. split; [congruence|].
  cbn. do 2 f_equal. rewrite zlen_app, zlen_cons, zlen_nil. lia.
Qed.

Lemma WM_push cap w full x : WM w full -> 1 <= cap ->
  WM (win_push cap w {| nheight := zlen full; nhdr := x |}) (full ++ [x]).
Proof.
  intros (pre & tail & -> & Hne & ->) Hcap. unfold win_push.
  destruct (zlen (nodes_from (zlen pre) tail) >=? cap) eqn:E.
  - destruct tail as [|y tail]; [congruence|]. cbn [nodes_from drop]. rewrite drop_0.
    exists (pre ++ [y]), (tail ++ [x]). split; [by rewrite <- !app_assoc|]. split; [by destruct tail|].
    rewrite nodes_from_app. cbn [nodes_from]. rewrite !zlen_app, !zlen_cons, zlen_nil.
    do 3 f_equal; lia.
  - exists pre, (tail ++ [x]). split; [by rewrite app_assoc|]. split; [by destruct tail|].
    rewrite nodes_from_app. cbn [nodes_from]. by rewrite zlen_app.
Qed.

Lemma win_push_len cap w n : zlen (win_push cap w n) = if zlen w >=? cap then Z.max (zlen w - 1) 0 + 1 else zlen w + 1.
Proof.
  unfold win_push. destruct (zlen w >=? cap); rewrite zlen_app, zlen_cons, zlen_nil; [|lia].
  unfold zlen. rewrite drop_length. lia.
Qed.

(* the lookup neutrino supplies returns the true ancestors *)
Lemma view_agree w full c h :
  WM w full -> c `prefix_of` full -> zlen full - zlen w <= zlen c -> zlen full <= LIMIT ->
  view w c h = at_h full h.
Proof.
  intros (pre & tail & -> & Hne & ->) [b Hb] Hcov HL. unfold view.
  rewrite win_find_spec. rewrite zlen_nodes_from, zlen_app in Hcov. rewrite zlen_app in HL.
  pose proof (zlen_nonneg pre). pose proof (zlen_nonneg tail).
  destruct ((zlen pre <=? h) && (h <? zlen pre + zlen tail)) eqn:E.
  - rewrite at_h_app_r by (rewrite ?zlen_app; lia).
    destruct (tail !! Z.to_nat (h - zlen pre)) eqn:E2; cbn; [reflexivity|].
    apply lookup_ge_None in E2. unfold zlen in *. lia.
  - destruct (decide (h < zlen pre)) as [Hlt|Hge].
    + rewrite Hb. rewrite at_h_app_l; [reflexivity| |lia].
      rewrite <- Hb, zlen_app. lia.
    + rewrite !at_h_None; [reflexivity| |]; rewrite ?zlen_app; try lia.
      assert (zlen c <= zlen (pre ++ tail)) by (rewrite Hb, !zlen_app; pose proof (zlen_nonneg b); lia).
      rewrite zlen_app in *. lia.
Qed.

Lemma view_agree_lt w full c h :
  WM w full -> (forall k, k < zlen full - zlen w -> at_h c k = at_h full k) -> zlen full <= LIMIT ->
  h < zlen full -> view w c h = at_h full h.
Proof.
  intros (pre & tail & -> & Hne & ->) Hc HL Hh. unfold view.
  rewrite win_find_spec. rewrite zlen_nodes_from, zlen_app in Hc. rewrite zlen_app in HL, Hh.
  pose proof (zlen_nonneg pre). pose proof (zlen_nonneg tail).
  destruct ((zlen pre <=? h) && (h <? zlen pre + zlen tail)) eqn:E.
  - rewrite at_h_app_r by (rewrite ?zlen_app; lia).
    destruct (tail !! Z.to_nat (h - zlen pre)) eqn:E2; cbn; [reflexivity|].
    apply lookup_ge_None in E2. unfold zlen in *. lia.
  - apply Hc. lia.
Qed.

(* ==================== by-hash lookup, write_headers, rollBackToHeight ==================== *)
(* ---------- by-hash lookup ---------- *)
Lemma fetch_header_Some c x h i : fetch_header c x = Some (h, i) ->
  exists n, i = Z.of_nat n /\ c !! n = Some h /\ hid h = x.
Proof.
  unfold fetch_header. destruct (list_find _ c) as [[n y]|] eqn:E; cbn; [|discriminate].
  intros [= <- <-]. apply list_find_Some in E as (H1 & H2 & _). eauto.
Qed.
Lemma fetch_header_None c x : fetch_header c x = None <-> x ∉ map hid c.
Proof.
  unfold fetch_header. destruct (list_find _ c) as [[n y]|] eqn:E; cbn.
  - split; [discriminate|]. intros Hn. exfalso. apply Hn.
    apply list_find_Some in E as (H1 & H2 & _). subst x. apply elem_of_list_fmap_1.
    eapply elem_of_list_lookup_2; eauto.
  - split; [|done]. intros _ Hin. apply elem_of_list_fmap in Hin as (y & -> & Hy).
    apply list_find_None in E. rewrite Forall_forall in E. by apply (E y).
Qed.
Lemma fetch_header_nodup c n h : NoDup (map hid c) -> c !! n = Some h ->
  fetch_header c (hid h) = Some (h, Z.of_nat n).
Proof.
  intros Hnd Hn. destruct (fetch_header c (hid h)) as [[h' i]|] eqn:E.
  - apply fetch_header_Some in E as (m & -> & Hm & Heq).
    assert (Hm' : map hid c !! m = Some (hid h)) by (rewrite list_lookup_fmap, Hm; cbn; congruence).
    assert (Hn' : map hid c !! n = Some (hid h)) by (rewrite list_lookup_fmap, Hn; done).
    pose proof (NoDup_lookup _ _ _ _ Hnd Hm' Hn').
    subst m. congruence.
  - apply fetch_header_None in E. exfalso. apply E. apply elem_of_list_fmap_1. eapply elem_of_list_lookup_2; eauto.
Qed.
Lemma fetch_header_iff c x h i : NoDup (map hid c) ->
  fetch_header c x = Some (h, i) <-> (exists n, i = Z.of_nat n /\ c !! n = Some h) /\ hid h = x.
Proof.
  intros Hnd. split.
  - intros (n & -> & Hn & Hx)%fetch_header_Some. eauto.
  - intros [(n & -> & Hn) <-]. by apply fetch_header_nodup.
Qed.

Lemma fresh_true c x : fresh c x = true <-> x ∉ map hid c.
Proof.
  unfold fresh. rewrite <- fetch_header_None. destruct (fetch_header c x); split; congruence.
Qed.

Lemma fresh_all_intro c es : NoDup (map hid (c ++ es.*1)) -> fresh_all c es = true.
Proof.
  induction es as [|e es IH]; intros Hnd; cbn [fresh_all]; [reflexivity|].
  rewrite fmap_app, fmap_cons in Hnd. cbn [fmap list_fmap] in Hnd.
  apply NoDup_app in Hnd as (H1 & H2 & H3). apply NoDup_cons in H3 as [H3 H4].
  apply andb_true_intro; split; [apply andb_true_intro; split|].
  - apply fresh_true. intros Hin. apply (H2 _ Hin). left.
  - apply negb_true_iff. apply not_true_is_false. intros Hex. apply existsb_exists in Hex as (e' & Hin & Heq).
    apply H3. apply Z.eqb_eq in Heq. rewrite <- Heq. apply elem_of_list_fmap_1. apply elem_of_list_fmap_1.
    by apply elem_of_list_In.
  - apply IH. rewrite fmap_app. apply NoDup_app. split; [exact H1|]. split; [|exact H4].
    intros x Hx Hx2. apply (H2 x Hx). by right.
Qed.

Lemma heights_from_snoc es : forall h x k, heights_from h es = true -> k = h + zlen es ->
  heights_from h (es ++ [(x, k)]) = true.
Proof.
  induction es as [|e es IH]; intros h x k H Hk; cbn [heights_from app] in *.
  - rewrite zlen_nil in Hk. cbn. lia.
  - apply andb_true_iff in H as [H1 H2]. rewrite H1. cbn. apply IH; [exact H2|]. rewrite zlen_cons in Hk. lia.
Qed.

Lemma write_headers_ok es s : es <> [] -> heights_from (zlen (chain s)) es = true ->
  NoDup (map hid (chain s ++ es.*1)) -> write_headers es s = set_chain (chain s ++ es.*1) s.
Proof.
  intros Hne Hh Hnd. unfold write_headers. destruct es; [congruence|].
  rewrite Hh, fresh_all_intro by exact Hnd. reflexivity.
Qed.

(* ---------- rollBackToHeight ---------- *)
Lemma roll_back_spec fuel : forall s h,
  0 <= h -> zlen (chain s) <= LIMIT -> zlen (fchain s) <= zlen (chain s) ->
  zlen (chain s) - 1 - h <= Z.of_nat fuel ->
  let s' := roll_back fuel h s in
  chain s' = take (Z.to_nat (h + 1)) (chain s) /\
  fchain s' = take (Z.to_nat (h + 1)) (fchain s) /\
  ftipVar s' = (if zlen (fchain s) - 1 >? h then h else ftipVar s) /\
  hl s' = hl s /\ syncPeer s' = syncPeer s /\ cands s' = cands s /\ nextCp s' = nextCp s /\
  peers s' = peers s /\ trap s' = trap s.
Proof.
  induction fuel as [|f IH]; intros s h Hh HL Hfc Hf; cbn [roll_back].
  - assert (Hle : zlen (chain s) <= h + 1) by lia.
    rewrite !take_ge by (unfold zlen in *; lia).
    destruct (zlen (fchain s) - 1 >? h) eqn:E; [lia|]. done.
  - unfold tip_height. destruct (zlen (chain s) - 1 >? h) eqn:E.
    + set (th := zlen (chain s) - 1) in *.
      destruct (at_h (chain s) th) as [cur|] eqn:E1; [|rewrite at_h_lookup in E1 by lia; apply lookup_ge_None in E1; unfold zlen in *; lia].
      destruct (at_h (chain s) (th - 1)) as [prev|] eqn:E2; [|rewrite at_h_lookup in E2 by lia; apply lookup_ge_None in E2; unfold zlen in *; lia].
      rewrite zn_eq by (unfold LIMIT in *; lia).
      match goal with |- context [roll_back f h ?st] => set (s2 := st) end.
      assert (Hc2 : chain s2 = take (Z.to_nat th) (chain s)) by (subst s2; destruct (th <=? zlen (fchain s) - 1); reflexivity).
      assert (Hf2 : fchain s2 = take (Z.to_nat th) (fchain s)).
      { subst s2; destruct (th <=? zlen (fchain s) - 1) eqn:E3; cbn; [reflexivity|].
        rewrite take_ge; [done|unfold zlen in *; lia]. }
      assert (Ht2 : ftipVar s2 = if th <=? zlen (fchain s) - 1 then th - 1 else ftipVar s)
        by (subst s2; destruct (th <=? zlen (fchain s) - 1); reflexivity).
      assert (Hr2 : hl s2 = hl s /\ syncPeer s2 = syncPeer s /\ cands s2 = cands s /\ nextCp s2 = nextCp s /\
                    peers s2 = peers s /\ trap s2 = trap s)
        by (subst s2; destruct (th <=? zlen (fchain s) - 1); done).
      assert (Hl2 : zlen (chain s2) = th) by (rewrite Hc2; apply zlen_take; lia).
      assert (Hlf2 : zlen (fchain s2) = Z.min th (zlen (fchain s))).
      { rewrite Hf2. unfold zlen. rewrite take_length. unfold zlen in *. lia. }
      destruct (IH s2 h) as (I1 & I2 & I3 & I4 & I5 & I6 & I7 & I8 & I9); try lia.
      destruct Hr2 as (R4 & R5 & R6 & R7 & R8 & R9).
      rewrite I1, I2, I3, I4, I5, I6, I7, I8, I9, Hc2, Hf2, Ht2, R4, R5, R6, R7, R8, R9.
      rewrite !take_take. replace (Z.to_nat (h + 1) `min` Z.to_nat th)%nat with (Z.to_nat (h + 1)) by lia.
      split; [done|]. split; [done|]. split; [|done].
      fold (zlen (take (Z.to_nat th) (fchain s))). rewrite <- Hf2, Hlf2.
      destruct (th <=? zlen (fchain s) - 1) eqn:E3; destruct (Z.min th (zlen (fchain s)) - 1 >? h) eqn:E4;
        destruct (zlen (fchain s) - 1 >? h) eqn:E5; try lia; reflexivity.
    + rewrite !take_ge by (unfold zlen in *; lia).
      destruct (zlen (fchain s) - 1 >? h) eqn:E2; [lia|]. done.
Qed.

(* ==================== checkpoints ==================== *)
(* ---------- checkpoints ---------- *)
Fixpoint cp_asc (l : list (Z * Z)) (lo : Z) : Prop :=
  match l with [] => True | c :: r => lo < c.1 /\ cp_asc r c.1 end.

Lemma cp_asc_lb l : forall lo c, cp_asc l lo -> c ∈ l -> lo < c.1.
Proof.
  induction l as [|d l IH]; intros lo c H Hin; [by apply elem_of_nil in Hin|].
  destruct H as [H1 H2]. apply elem_of_cons in Hin as [->|Hin]; [exact H1|].
  specialize (IH _ _ H2 Hin). lia.
Qed.
Lemma cp_asc_unique l : forall lo c d, cp_asc l lo -> c ∈ l -> d ∈ l -> c.1 = d.1 -> c = d.
Proof.
  induction l as [|e l IH]; intros lo c d H Hc Hd Heq; [by apply elem_of_nil in Hc|].
  destruct H as [H1 H2].
  apply elem_of_cons in Hc as [->|Hc]; apply elem_of_cons in Hd as [->|Hd]; try reflexivity.
  - pose proof (cp_asc_lb _ _ _ H2 Hd). lia.
  - pose proof (cp_asc_lb _ _ _ H2 Hc). lia.
  - eapply IH; eauto.
Qed.

Definition next_cp_spec (cps : list (Z * Z)) (h : Z) (o : option (Z * Z)) : Prop :=
  match o with
  | Some c => c ∈ cps /\ h < c.1 /\ forall d, d ∈ cps -> h < d.1 -> c.1 <= d.1
  | None => forall d, d ∈ cps -> d.1 <= h
  end.

Lemma find_next_cp_spec P h lo : cp_asc (checkpoints P) lo -> next_cp_spec (checkpoints P) h (find_next_cp P h).
Proof.
  unfold find_next_cp. generalize (checkpoints P) as l. intros l. revert lo.
  induction l as [|c l IH]; intros lo Ha; cbn [list_find].
  - cbn. intros d Hd. by apply elem_of_nil in Hd.
  - destruct Ha as [H1 H2]. destruct (decide (h < c.1)) as [Hlt|Hge]; cbn.
    + split; [left|]. split; [exact Hlt|]. intros d [->|Hd]%elem_of_cons _; [lia|].
      pose proof (cp_asc_lb _ _ _ H2 Hd). lia.
    + specialize (IH _ H2). destruct (list_find (λ c0 : Z * Z, h < c0.1) l) as [[i d]|]; cbn in *.
      * destruct IH as (I1 & I2 & I3). split; [by right|]. split; [exact I2|].
        intros e [->|He]%elem_of_cons Hlt; [lia|by apply I3].
      * intros e [->|He]%elem_of_cons; [lia|by apply IH].
Qed.

Lemma next_cp_spec_unique cps lo h o1 o2 : cp_asc cps lo ->
  next_cp_spec cps h o1 -> next_cp_spec cps h o2 -> o1 = o2.
Proof.
  intros Ha H1 H2. destruct o1 as [c|], o2 as [d|]; cbn in *.
  - destruct H1 as (A1 & A2 & A3), H2 as (B1 & B2 & B3). f_equal.
    specialize (A3 _ B1 B2). specialize (B3 _ A1 A2).
    apply (cp_asc_unique cps lo c d Ha A1 B1). lia.
  - destruct H1 as (A1 & A2 & A3). specialize (H2 _ A1). exfalso; lia.
  - destruct H2 as (A1 & A2 & A3). specialize (H1 _ A1). exfalso; lia.
  - reflexivity.
Qed.

(* no checkpoint in (h1, h2] : same next checkpoint *)
Lemma find_next_cp_same P lo h1 h2 : cp_asc (checkpoints P) lo -> h1 <= h2 ->
  (forall d, d ∈ checkpoints P -> ~ (h1 < d.1 <= h2)) ->
  find_next_cp P h1 = find_next_cp P h2.
Proof.
  intros Ha Hle Hno. eapply next_cp_spec_unique; [exact Ha|by eapply find_next_cp_spec|].
  pose proof (find_next_cp_spec P h2 lo Ha) as H2. destruct (find_next_cp P h2) as [c|]; cbn in *.
  - destruct H2 as (A1 & A2 & A3). split; [exact A1|]. split; [lia|].
    intros d Hd Hlt. apply A3; [exact Hd|]. specialize (Hno d Hd). lia.
  - intros d Hd. specialize (H2 d Hd). specialize (Hno d Hd). lia.
Qed.

Definition prev_cp_spec (P : params) (h : Z) (pc : Z * Z) : Prop :=
  (pc = (0, hid (genesis P)) \/ pc ∈ checkpoints P) /\ 0 <= pc.1 /\ (0 < h -> pc.1 < h) /\
  forall d, d ∈ checkpoints P -> d.1 < h -> d.1 <= pc.1.

Lemma find_prev_cp_spec P h : cp_asc (checkpoints P) 0 -> prev_cp_spec P h (find_prev_cp P h).
Proof.
  unfold find_prev_cp, prev_cp_spec. intros Ha.
  assert (G : forall l acc lo, cp_asc l lo -> acc.1 <= lo -> 0 <= acc.1 -> (0 < h -> acc.1 < h) ->
    let r := fold_left (fun acc c => if h <=? c.1 then acc else c) l acc in
    (r = acc \/ r ∈ l) /\ 0 <= r.1 /\ (0 < h -> r.1 < h) /\ acc.1 <= r.1 /\ forall d, d ∈ l -> d.1 < h -> d.1 <= r.1).
  { induction l as [|c l IH]; intros acc lo Hasc Hacc H0 Hh; cbn [fold_left].
    - split; [by left|]. split; [done|]. split; [done|]. split; [lia|]. intros d Hd. by apply elem_of_nil in Hd.
    - destruct Hasc as [A1 A2]. destruct (h <=? c.1) eqn:E.
      + destruct (IH acc c.1 A2 ltac:(lia) H0 Hh) as (I1 & I2 & I3 & I4 & I5).
        split; [destruct I1; [by left|right; by right]|]. split; [done|]. split; [done|]. split; [done|].
        intros d [->|Hd]%elem_of_cons Hlt; [lia|by apply I5].
      + destruct (IH c c.1 A2 ltac:(lia) ltac:(lia) ltac:(lia)) as (I1 & I2 & I3 & I4 & I5).
        split; [destruct I1 as [->|I1]; right; [left|by right]|]. split; [done|]. split; [done|]. split; [lia|].
        intros d [->|Hd]%elem_of_cons Hlt; [lia|by apply I5]. }
  destruct (G (checkpoints P) (0, hid (genesis P)) 0 Ha) as (I1 & I2 & I3 & I4 & I5); cbn; try lia.
  cbn in *. split; [exact I1|]. split; [exact I2|]. split; [exact I3|exact I5].
Qed.

Definition cps_ok (P : params) (c : list header) : Prop :=
  forall cp h, cp ∈ checkpoints P -> at_h c cp.1 = Some h -> hid h = cp.2.
Lemma checkpoints_ok_iff P c : checkpoints_ok P c = true <-> cps_ok P c.
Proof.
  unfold checkpoints_ok, cps_ok. rewrite forallb_forall. split.
  - intros H cp h Hin Hat. apply elem_of_list_In in Hin. specialize (H cp Hin). rewrite Hat in H. lia.
  - intros H cp Hin. apply elem_of_list_In in Hin. destruct (at_h c cp.1) as [h|] eqn:E; [|done].
    specialize (H cp h Hin E). lia.
Qed.
Definition cp_at (P : params) (h : Z) (x : header) : Prop :=
  forall cp, cp ∈ checkpoints P -> cp.1 = h -> cp.2 = hid x.
Lemma cp_matches_iff P h x : cp_matches P h x = true <-> cp_at P h x.
Proof.
  unfold cp_matches, cp_at. rewrite forallb_forall. split.
  - intros H cp Hin Heq. apply elem_of_list_In in Hin. specialize (H cp Hin). lia.
  - intros H cp Hin. apply elem_of_list_In in Hin. specialize (H cp Hin). lia.
Qed.
Lemma cps_ok_snoc P c x : cps_ok P c -> cp_at P (zlen c) x -> zlen c < LIMIT -> cps_ok P (c ++ [x]).
Proof.
  intros Hc Hx HL cp h Hin Hat. pose proof (at_h_Some _ _ _ Hat) as Hb.
  rewrite zlen_snoc in Hb.
  destruct (decide (cp.1 < zlen c)) as [Hlt|Hge].
  - rewrite at_h_app_l in Hat; [by eapply Hc| |done]. rewrite zlen_snoc. lia.
  - assert (cp.1 = zlen c) as Heq by lia. rewrite at_h_app_r in Hat; [| rewrite zlen_snoc; lia|lia].
    rewrite Heq, Z.sub_diag in Hat. cbn in Hat. injection Hat as <-. symmetry. by apply Hx.
Qed.
Lemma cps_ok_prefix P c1 c2 : cps_ok P (c1 ++ c2) -> zlen (c1 ++ c2) <= LIMIT -> cps_ok P c1.
Proof.
  intros Hc HL cp h Hin Hat. pose proof (at_h_Some _ _ _ Hat) as Hb.
  apply (Hc cp h Hin). rewrite at_h_app_l; [done|done|lia].
Qed.

(* ==================== valid chains on plain lists: ChainOK ==================== *)
Lemma valid_from_app P r1 : forall pre r2,
  valid_from P pre (r1 ++ r2) = valid_from P pre r1 && valid_from P (pre ++ r1.*1) r2.
Proof.
  induction r1 as [|[h t] r1 IH]; intros pre r2; cbn [valid_from app fmap list_fmap].
  - by rewrite app_nil_r.
  - rewrite IH. cbn [fst]. rewrite <- app_assoc. cbn [app]. by rewrite andb_assoc.
Qed.

Definition linked (l : list header) : Prop :=
  forall i a b, l !! i = Some a -> l !! S i = Some b -> hprev b = hid a.

Lemma linked_snoc l t x : linked l -> last l = Some t -> hprev x = hid t -> linked (l ++ [x]).
Proof.
  intros Hl Ht Hx i a b Ha Hb.
  destruct (decide (S i < length l)%nat) as [Hlt|Hge].
  - rewrite lookup_app_l in Ha by lia. rewrite lookup_app_l in Hb by lia. eauto.
  - assert (S i = length l).
    { apply lookup_lt_Some in Hb. rewrite app_length in Hb. cbn in Hb. lia. }
    rewrite lookup_app_l in Ha by lia. rewrite last_lookup in Ht.
    replace (pred (length l)) with i in Ht by lia. rewrite Ha in Ht. injection Ht as ->.
    rewrite lookup_app_r in Hb by lia. replace (S i - length l)%nat with 0%nat in Hb by lia.
    cbn in Hb. by injection Hb as <-.
Qed.
Lemma linked_prefix l1 l2 : linked (l1 ++ l2) -> linked l1.
Proof.
  intros H i a b Ha Hb. apply (H i a b); apply lookup_app_l_Some; assumption.
Qed.

Lemma valid_from_linked P r : forall pre, valid_from P pre r = true -> pre <> [] -> linked pre -> linked (pre ++ r.*1).
Proof.
  induction r as [|[h t] r IH]; intros pre Hv Hne Hl; cbn [valid_from fmap list_fmap] in *.
  - by rewrite app_nil_r.
  - apply andb_true_iff in Hv as [Hv1 Hv2]. cbn [fst] in *.
    replace (pre ++ h :: r.*1) with ((pre ++ [h]) ++ r.*1) by (by rewrite <- app_assoc).
    apply IH; [exact Hv2|by destruct pre|].
    unfold valid_next in Hv1. destruct (last pre) as [p|] eqn:E; [|discriminate].
    apply andb_true_iff in Hv1 as [Hv1 _]. eapply linked_snoc; eauto. lia.
Qed.

Section Chain.
Context (P : params) (U : header -> Prop) (T : Z -> Prop).

Record universe : Prop := {
  U_gen : U (genesis P);
  U_inj : forall a b, U a -> U b -> hid a = hid b -> a = b;
  U_root : forall a, U a -> hid a <> hprev (genesis P)
}.
Hypothesis HU : universe.

Record wf_params : Prop := {
  wf_cps : cp_asc (checkpoints P) 0;     (* checkpoint heights strictly ascending, above the genesis *)
  wf_bpr : 0 < bpr P;
  wf_cap : 1 <= memCap P
}.
Hypothesis HP : wf_params.

Lemma fresh_tip full x t :
  linked full -> NoDup (map hid full) -> Forall U full -> U x ->
  head full = Some (genesis P) -> last full = Some t -> hprev x = hid t ->
  hid x ∉ map hid full.
Proof.
  intros Hl Hnd HUf Hx Hh Ht Hp Hin.
  apply elem_of_list_fmap in Hin as (y & Heq & Hy).
  rewrite Forall_forall in HUf.
  assert (y = x) by (symmetry; apply (U_inj HU); [done|by apply HUf|done]). subst y.
  apply elem_of_list_lookup in Hy as [i Hi].
  assert (Htin : t ∈ full) by (rewrite last_lookup in Ht; eapply elem_of_list_lookup_2; eauto).
  destruct i as [|j].
  - destruct full as [|g full]; [discriminate|]. cbn in Hh, Hi. assert (x = genesis P) by congruence. subst x.
    apply (U_root HU t); [by apply HUf|congruence].
  - pose proof (lookup_lt_Some _ _ _ Hi) as Hlt.
    destruct (lookup_lt_is_Some_2 full j ltac:(lia)) as [a Ha].
    pose proof (Hl _ _ _ Ha Hi) as Hpa.
    rewrite last_lookup in Ht.
    assert (H1 : map hid full !! j = Some (hid t)) by (rewrite list_lookup_fmap, Ha; cbn; congruence).
    assert (H2 : map hid full !! pred (length full) = Some (hid t)) by (rewrite list_lookup_fmap, Ht; done).
    pose proof (NoDup_lookup _ _ _ _ Hnd H1 H2). lia.
Qed.

(* the chain [full] = genesis :: headers of [tl], each valid on its prefix at
   the clock reading recorded next to it *)
Record ChainOK (full : list header) (tl : list (header * Z)) : Prop := {
  co_eq : full = genesis P :: tl.*1;
  co_valid : valid_from P [genesis P] tl = true;
  co_T : Forall (fun e => T e.2) tl;
  co_U : Forall U full;
  co_nodup : NoDup (map hid full);
  co_cps : cps_ok P full;
  co_lim : zlen full <= LIMIT
}.

Lemma ChainOK_linked full tl : ChainOK full tl -> linked full.
Proof.
  intros H. rewrite (co_eq _ _ H). change (genesis P :: tl.*1) with ([genesis P] ++ tl.*1).
  apply (valid_from_linked P); [apply (co_valid _ _ H)|done|].
  intros i a b Ha Hb. destruct i; discriminate.
Qed.
Lemma ChainOK_ne full tl : ChainOK full tl -> full <> [].
Proof. intros H. by rewrite (co_eq _ _ H). Qed.
Lemma ChainOK_head full tl : ChainOK full tl -> head full = Some (genesis P).
Proof. intros H. by rewrite (co_eq _ _ H). Qed.

Lemma ChainOK_init : ChainOK [genesis P] [].
Proof.
  split; try done.
  - apply Forall_singleton. apply (U_gen HU).
  - cbn. apply NoDup_singleton.
  - intros cp h Hin Hat. pose proof (cp_asc_lb _ _ _ (wf_cps HP) Hin).
    apply at_h_Some in Hat. rewrite zlen_cons, zlen_nil in Hat. lia.
Qed.

Lemma valid_next_unfold full now x t : last full = Some t ->
  valid_next P full now x = (hprev x =? hid t) && is_ok (check_sanity P (at_h full) now x (zlen full - 1) t).
Proof. intros H. unfold valid_next. by rewrite H. Qed.

Lemma ChainOK_snoc full tl x now :
  ChainOK full tl -> valid_next P full now x = true -> T now -> U x ->
  cp_at P (zlen full) x -> zlen full < LIMIT ->
  ChainOK (full ++ [x]) (tl ++ [(x, now)]).
Proof.
  intros H Hv HT HUx Hcp HL. pose proof (ChainOK_linked _ _ H) as Hlk.
  destruct (last full) as [t|] eqn:Ht; [|unfold valid_next in Hv; by rewrite Ht in Hv].
  pose proof Hv as Hv'. rewrite (valid_next_unfold _ _ _ _ Ht) in Hv'. apply andb_true_iff in Hv' as [Hp _].
  split.
  - rewrite (co_eq _ _ H). rewrite fmap_app. reflexivity.
  - rewrite valid_from_app, (co_valid _ _ H). cbn [valid_from andb].
    change ([genesis P] ++ tl.*1) with (genesis P :: tl.*1). rewrite <- (co_eq _ _ H), Hv. reflexivity.
  - apply Forall_app. split; [apply (co_T _ _ H)|]. by apply Forall_singleton.
  - apply Forall_app. split; [apply (co_U _ _ H)|]. by apply Forall_singleton.
  - rewrite fmap_app. apply NoDup_app. split; [apply (co_nodup _ _ H)|]. split; [|apply NoDup_singleton].
    intros y Hy Hy2. apply elem_of_list_singleton in Hy2. subst y. revert Hy.
    eapply fresh_tip; eauto using co_nodup, co_U, ChainOK_head. lia.
  - apply cps_ok_snoc; [apply (co_cps _ _ H)|done|done].
  - rewrite zlen_snoc. lia.
Qed.

Lemma ChainOK_prefix l1 l2 tl : ChainOK (l1 ++ l2) tl -> l1 <> [] ->
  ChainOK l1 (take (length l1 - 1) tl).
Proof.
  intros H Hne. destruct l1 as [|g l1]; [congruence|]. cbn [length]. replace (S (length l1) - 1)%nat with (length l1) by lia.
  pose proof (co_eq _ _ H) as Heq. cbn in Heq. injection Heq as -> Heq.
  assert (Hfst : (take (length l1) tl).*1 = l1).
  { rewrite fmap_take, <- Heq. by rewrite take_app. }
  split.
  - by rewrite Hfst.
  - pose proof (co_valid _ _ H) as Hv. rewrite <- (take_drop (length l1) tl), valid_from_app in Hv.
    by apply andb_true_iff in Hv as [Hv _].
  - apply Forall_take. apply (co_T _ _ H).
  - pose proof (co_U _ _ H) as HUf. by apply Forall_app in HUf as [? _].
  - pose proof (co_nodup _ _ H) as Hnd. rewrite fmap_app in Hnd. by apply NoDup_app in Hnd as (? & _).
  - eapply cps_ok_prefix; [apply (co_cps _ _ H)|apply (co_lim _ _ H)].
  - pose proof (co_lim _ _ H) as HL. rewrite zlen_app in HL. pose proof (zlen_nonneg l2). lia.
Qed.

Lemma ChainOK_take full tl k : ChainOK full tl -> 1 <= k -> exists tl', ChainOK (take (Z.to_nat k) full) tl'.
Proof.
  intros H Hk. rewrite <- (take_drop (Z.to_nat k) full) in H. eexists. eapply ChainOK_prefix; [exact H|].
  pose proof (ChainOK_ne _ _ H) as Hne. rewrite take_drop in Hne. destruct full; [congruence|].
  replace (Z.to_nat k) with (S (Z.to_nat (k - 1))) by lia. done.
Qed.

(* the model's sanity check through window + store IS the spec's valid_next *)
Lemma sanity_view w c full now x t :
  WM w full -> c `prefix_of` full -> zlen full - zlen w <= zlen c -> zlen full <= LIMIT ->
  check_sanity P (view w c) now x (zlen full - 1) t = check_sanity P (at_h full) now x (zlen full - 1) t.
Proof.
  intros HW Hpre Hcov HL. apply check_sanity_ext; [apply (wf_bpr HP)|].
  intros k _. by apply view_agree.
Qed.
End Chain.

(* ==================== what step_header computes ==================== *)
(* states that differ only in peers / sync peer / candidates / events *)
Definition core_eq (s s' : state) : Prop :=
  chain s' = chain s /\ fchain s' = fchain s /\ hl s' = hl s /\ nextCp s' = nextCp s /\
  ftipVar s' = ftipVar s /\ trap s' = trap s.
Lemma core_eq_refl s : core_eq s s. Proof. by repeat split. Qed.
Lemma core_eq_trans s1 s2 s3 : core_eq s1 s2 -> core_eq s2 s3 -> core_eq s1 s3.
Proof. unfold core_eq. intros (?&?&?&?&?&?) (?&?&?&?&?&?). repeat split; congruence. Qed.
Lemma core_eq_put_peer q s : core_eq s (put_peer q s). Proof. by repeat split. Qed.
Lemma core_eq_disconnect p s : core_eq s (disconnect p s). Proof. by repeat split. Qed.
Lemma core_eq_bump_last p h s : core_eq s (bump_last p h s).
Proof. unfold bump_last. destruct (h <=? lastBlock (get_peer s p)); by repeat split. Qed.
Lemma core_eq_set_sync x s : core_eq s (set_sync x s). Proof. by repeat split. Qed.
Lemma core_eq_set_cands x s : core_eq s (set_cands x s). Proof. by repeat split. Qed.
Lemma core_eq_add_ev e s : core_eq s (add_ev e s). Proof. by repeat split. Qed.

Definition afull (a : acc) : list header := chain (a_s a) ++ (a_batch a).*1.

Definition conn_acc (P : params) (p : Z) (a : acc) (bh : header) : acc :=
  let s := a_s a in
  let nh := zlen (afull a) in
  {| a_s := set_hl (win_push (memCap P) (hl (bump_last p nh s)) {| nheight := nh; nhdr := bh |}) (bump_last p nh s);
     a_batch := a_batch a ++ [(bh, nh)]; a_recvcp := a_recvcp a; a_finalh := nh |}.
Definition brk (a : acc) : acc :=
  {| a_s := a_s a; a_batch := a_batch a; a_recvcp := true; a_finalh := a_finalh a |}.

(* what step_header computes when the header names the newest in-memory header *)
Lemma step_connect_eq P now p a bh rest tp :
  last (hl (a_s a)) = Some {| nheight := zlen (afull a) - 1; nhdr := tp |} ->
  hprev bh = hid tp ->
  step_header P now p a bh rest =
  if is_ok (check_sanity P (view (hl (a_s a)) (chain (a_s a))) now bh (zlen (afull a) - 1) tp) then
    let a2 := conn_acc P p a bh in
    match nextCp (a_s a) with
    | Some (ch, chash) =>
      if zlen (afull a) =? ch then
        if hid bh =? chash then Break (brk a2)
        else Return (disconnect p (roll_back_to (find_prev_cp P (zlen (afull a))).1 (a_s a2)))
      else Continue a2
    | None => Continue a2
    end
  else Return (disconnect p (a_s a)).
Proof.
  intros Hl Hp. unfold step_header. rewrite Hl. cbn [nhdr nheight].
  replace (hid tp =? hprev bh) with true by lia.
  replace (zlen (afull a) - 1 + 1) with (zlen (afull a)) by lia.
  destruct (is_ok _); [|reflexivity].
  cbn zeta. cbn [a_s conn_acc].
  assert (Hn : nextCp (set_hl (win_push (memCap P) (hl (bump_last p (zlen (afull a)) (a_s a))) {| nheight := zlen (afull a); nhdr := bh |}) (bump_last p (zlen (afull a)) (a_s a))) = nextCp (a_s a)).
  { cbn. apply (core_eq_bump_last p (zlen (afull a)) (a_s a)). }
  rewrite Hn. destruct (nextCp (a_s a)) as [[ch chash]|]; [|reflexivity].
  destruct (zlen (afull a) =? ch); [|reflexivity].
  destruct (hid bh =? chash); reflexivity.
Qed.

Lemma roll_back_nextCp fuel : forall h s, nextCp (roll_back fuel h s) = nextCp s.
Proof.
  induction fuel as [|f IH]; intros h s; cbn [roll_back]; [reflexivity|].
  destruct (tip_height s >? h); [|reflexivity].
  destruct (at_h (chain s) (tip_height s)); [|reflexivity].
  destruct (at_h (chain s) (tip_height s - 1)); [|reflexivity].
  rewrite IH. destruct (tip_height s <=? zlen (fchain s) - 1); reflexivity.
Qed.
Lemma write_headers_nextCp es s : nextCp (write_headers es s) = nextCp s.
Proof. unfold write_headers. destruct es; [reflexivity|]. destruct (_ && _); reflexivity. Qed.

Definition reorg_state (p : Z) (s : state) (bh backHead : header) (backH : Z) : state :=
  set_hl [{| nheight := backH; nhdr := backHead |}; {| nheight := backH + 1; nhdr := bh |}]
    (write_headers [(bh, backH + 1)] (roll_back_to backH (set_sync (Some p) s))).
Definition reorg_acc (p : Z) (a : acc) (bh backHead : header) (backH : Z) : acc :=
  {| a_s := reorg_state p (a_s a) bh backHead backH; a_batch := a_batch a; a_recvcp := a_recvcp a; a_finalh := a_finalh a |}.

Lemma step_nonconn_eq P now p a bh rest pn :
  last (hl (a_s a)) = Some pn -> hid (nhdr pn) <> hprev bh ->
  (forall ch chash, nextCp (a_s a) = Some (ch, chash) -> ch <> 0) ->
  let s := a_s a in
  step_header P now p a bh rest =
  if negb (is_sync s p) && negb (headers_synced P now s) then Return s
  else if hid bh =? hid (nhdr pn) then Continue a
  else match fetch_header (chain s) (hid bh) with
  | Some _ => Continue a
  | None =>
    match fetch_header (chain s) (hprev bh) with
    | None => Return (disconnect p s)
    | Some (backHead, backH) =>
      if backH <? (find_prev_cp P (nheight pn + 1)).1 then Return (disconnect p s) else
      match reorg_check P now (chain s) [{| nheight := backH; nhdr := backHead |}] backH backHead (bh :: rest) 0 with
      | None => Return (disconnect p s)
      | Some total =>
        let known := known_work (zn (nheight pn - backH) + 1) (chain s) (hl s) None (nheight pn) backH 0 in
        if known >? total then Return (disconnect p s)
        else if known =? total then Return s
        else Continue (reorg_acc p a bh backHead backH)
      end
    end
  end.
Proof.
  intros Hl Hne Hcp s. unfold step_header. fold s. fold s in Hl. rewrite Hl.
  replace (hid (nhdr pn) =? hprev bh) with false by lia.
  assert (Hpost : forall a', nextCp (a_s a') = nextCp s ->
    match nextCp (a_s a') with
    | Some (ch, chash) => if 0 =? ch then if hid bh =? chash then Break {| a_s := a_s a'; a_batch := a_batch a'; a_recvcp := true; a_finalh := a_finalh a' |}
                          else Return (disconnect p (roll_back_to (find_prev_cp P 0).1 (a_s a'))) else Continue a'
    | None => Continue a' end = Continue a').
  { intros a' Ha'. rewrite Ha'. destruct (nextCp s) as [[ch chash]|] eqn:E; [|reflexivity].
    specialize (Hcp ch chash E). replace (0 =? ch) with false by lia. reflexivity. }
  destruct (negb (is_sync s p) && negb (headers_synced P now s)); [reflexivity|].
  destruct (hid bh =? hid (nhdr pn)); [by apply Hpost|].
  destruct (fetch_header (chain s) (hid bh)); [by apply Hpost|].
  destruct (fetch_header (chain s) (hprev bh)) as [[backHead backH]|]; [|reflexivity].
  destruct (backH <? (find_prev_cp P (nheight pn + 1)).1); [reflexivity|].
  destruct (reorg_check _ _ _ _ _ _ _ _) as [total|]; [|reflexivity].
  cbn zeta. destruct (_ >? total); [reflexivity|]. destruct (_ =? total); [reflexivity|].
  apply (Hpost (reorg_acc p a bh backHead backH)).
  unfold reorg_acc, reorg_state. cbn [a_s nextCp set_hl]. rewrite write_headers_nextCp. unfold roll_back_to. rewrite roll_back_nextCp. reflexivity.
Qed.

(* ==================== reorg_check and known_work ==================== *)
Fixpoint all_valid (P : params) (now : Z) (pre : list header) (hs : list header) : Prop :=
  match hs with
  | [] => True
  | x :: t => valid_next P pre now x = true /\ cp_at P (zlen pre) x /\ all_valid P now (pre ++ [x]) t
  end.

Definition wsum (hs : list header) : Z := foldr (fun h w => calcWork (hbits h) + w) 0 hs.
Lemma wsum_app a b : wsum (a ++ b) = wsum a + wsum b.
Proof. unfold wsum. induction a as [|x a IH]; cbn [app foldr]; lia. Qed.

Lemma all_valid_app P now hs1 : forall pre hs2,
  all_valid P now pre (hs1 ++ hs2) <-> all_valid P now pre hs1 /\ all_valid P now (pre ++ hs1) hs2.
Proof.
  induction hs1 as [|x hs1 IH]; intros pre hs2; cbn [all_valid app].
  - rewrite app_nil_r. tauto.
  - rewrite IH. rewrite <- app_assoc. cbn [app]. tauto.
Qed.

Lemma reorg_check_spec P now c : 0 < bpr P -> forall hs rl pre prevhdr work total,
  WM rl pre -> last pre = Some prevhdr ->
  (forall k, k < zlen pre - zlen rl -> at_h c k = at_h pre k) ->
  zlen rl + zlen hs <= memCap P -> zlen pre + zlen hs <= LIMIT ->
  connected (hid prevhdr) hs = true ->
  reorg_check P now c rl (zlen pre - 1) prevhdr hs work = Some total ->
  total = work + wsum hs /\ all_valid P now pre hs.
Proof.
  intros Hb. induction hs as [|x hs IH]; intros rl pre prevhdr work total HW Hl Hc Hroom HL Hconn Hr;
    cbn [reorg_check all_valid wsum foldr] in *.
  - injection Hr as <-. split; [lia|done].
  - rewrite zlen_cons in Hroom, HL. pose proof (zlen_nonneg hs) as Hnn.
    destruct (is_ok _) eqn:Hs; [|discriminate]. destruct (cp_matches _ _ _) eqn:Hm; [|discriminate].
    cbn [andb] in Hr. apply andb_true_iff in Hconn as [Hc1 Hc2].
    replace (zlen pre - 1 + 1) with (zlen pre) in *by lia.
    assert (Hv : valid_next P pre now x = true).
    { rewrite (valid_next_unfold P _ _ _ _ Hl). apply andb_true_iff. split; [lia|].
      rewrite <- Hs. f_equal. apply check_sanity_ext; [done|]. intros k Hk. symmetry.
      apply view_agree_lt; [done|done|lia|lia]. }
    replace (zlen pre) with (zlen (pre ++ [x]) - 1) in Hr at 2 by (rewrite zlen_snoc; lia).
    apply IH in Hr.
    + destruct Hr as [-> Hav]. fold (wsum hs). split; [lia|]. split; [done|]. split; [|done].
      apply cp_matches_iff. exact Hm.
    + apply WM_push; [done|]. pose proof (WM_len _ _ HW). lia.
    + by rewrite last_snoc.
    + intros k Hk. rewrite win_push_len, zlen_snoc in Hk.
      destruct (zlen rl >=? memCap P) eqn:E; [lia|].
      rewrite at_h_app_l; [apply Hc; lia|rewrite zlen_snoc; lia|]. pose proof (WM_len _ _ HW). lia.
    + rewrite win_push_len. destruct (zlen rl >=? memCap P) eqn:E; lia.
    + rewrite zlen_snoc. lia.
    + done.
Qed.

Lemma known_work_spec c : NoDup (map hid c) -> linked c -> zlen c <= LIMIT ->
  forall fuel l cur j w backH,
  0 <= backH <= j -> j < zlen c -> j - backH < Z.of_nat fuel ->
  ((l <> [] /\ WM l (take (Z.to_nat (j + 1)) c)) \/
   (l = [] /\ j + 1 < zlen c /\ cur = c !! Z.to_nat (j + 1))) ->
  known_work fuel c l cur j backH w = w + wsum (drop (Z.to_nat (backH + 1)) (take (Z.to_nat (j + 1)) c)).
Proof.
  intros Hnd Hlk HL. induction fuel as [|f IH]; intros l cur j w backH Hb Hj Hf Hw; [lia|].
  cbn [known_work]. destruct (j >? backH) eqn:E.
  2:{ assert (j = backH) by lia. subst j. rewrite drop_ge by (rewrite take_length; lia). cbn. lia. }
  destruct (lookup_lt_is_Some_2 c (Z.to_nat j) ltac:(unfold zlen in *; lia)) as [cj Hcj].
  assert (Htk : take (Z.to_nat (j + 1)) c = take (Z.to_nat j) c ++ [cj]).
  { replace (Z.to_nat (j + 1)) with (S (Z.to_nat j)) by lia. by apply take_S_r. }
  assert (Hsum : w + wsum (drop (Z.to_nat (backH + 1)) (take (Z.to_nat (j + 1)) c)) =
                 w + calcWork (hbits cj) + wsum (drop (Z.to_nat (backH + 1)) (take (Z.to_nat (j - 1 + 1)) c))).
  { rewrite Htk. rewrite drop_app_le by (rewrite take_length; unfold zlen in *; lia).
    rewrite wsum_app. replace (j - 1 + 1) with j by lia. cbn. lia. }
  rewrite Hsum. clear Hsum.
  destruct Hw as [[Hne HW]|(-> & Hj1 & Hcur)].
  - destruct HW as (pre & tail & Heq & Hne2 & ->).
    destruct (exists_last Hne2) as (tl & x & ->).
    rewrite nodes_from_app. cbn [nodes_from]. rewrite reverse_snoc, reverse_involutive.
    rewrite Htk, app_assoc in Heq. apply app_inj_tail in Heq as [Heq ->]. cbn [nhdr].
    apply IH; [lia|lia|lia|]. replace (j - 1 + 1) with j by lia.
    destruct tl as [|y tl].
    + right. split; [done|]. split; [lia|]. done.
    + left. split; [done|]. exists pre, (y :: tl). done.
  - rewrite reverse_nil. subst cur.
    destruct (lookup_lt_is_Some_2 c (Z.to_nat (j + 1)) ltac:(unfold zlen in *; lia)) as [y Hy]. rewrite Hy.
    assert (hprev y = hid cj) as ->.
    { apply (Hlk (Z.to_nat j)); [done|]. by replace (S (Z.to_nat j)) with (Z.to_nat (j + 1)) by lia. }
    rewrite (fetch_header_nodup c (Z.to_nat j) cj Hnd Hcj). cbn [option_map fst reverse].
    apply IH; [lia|lia|lia|]. right. split; [done|]. split; [lia|]. by replace (j - 1 + 1) with j by lia.
Qed.

