(* S2 — a failing write to the block header store inside handleHeadersMsg
   (operation OHeadersF, S2.Model.handle_headers_f): how the faulty run of the
   header loop relates to the ordinary one, and preservation of the shared
   invariant [Inv].  Used by C01 (and C19 for the loop_f lemmas).

   Main results:
     loop_f_cases      a faulty loop either IS the ordinary loop (the fault, if
                       it strikes at all, hits the batch write at the end), or
                       it stops at the header where a branch is switched to,
                       right after the rollback
     reorg_point_Some  what holds at such a header
     handle_headers_f_Inv, step_spec_f, run_Inv_f
   [wf_op_f] extends S2.Invariant.wf_op by OHeadersF; the relation StepRel /
   Trans of S2/Invariant.v (how the chain changes) is about fault-free
   operations only and is left alone. *)
From stdpp Require Import list.
From Coq Require Import ZArith Lia ZifyBool.
From Verif Require Import S2.Model C01.Spec S2.Basics S2.Invariant.
Open Scope Z_scope.

(* ==================== loop_f against loop ==================== *)
Lemma last_win_push cap l n : last (win_push cap l n) = Some n.
Proof. unfold win_push. apply last_snoc. Qed.

(* a header that makes the loop go on either was skipped (the accumulator is
   untouched) or is now the newest in-memory header *)
Lemma step_continue_kind P now p a bh rest pn a' :
  last (hl (a_s a)) = Some pn -> step_header P now p a bh rest = Continue a' ->
  (a' = a /\ hid (nhdr pn) <> hprev bh) \/ (exists nd, last (hl (a_s a')) = Some nd /\ nhdr nd = bh).
Proof.
  intros Hl. unfold step_header. rewrite Hl.
  assert (Hpost : forall (x : acc) (n : Z) (Q : Prop),
    (a' = x -> Q) ->
    match nextCp (a_s x) with
    | Some (ch, chash) =>
      if n =? ch then
        if hid bh =? chash then Break {| a_s := a_s x; a_batch := a_batch x; a_recvcp := true; a_finalh := a_finalh x |}
        else Return (disconnect p (roll_back_to (find_prev_cp P n).1 (a_s x)))
      else Continue x
    | None => Continue x
    end = Continue a' -> Q).
  { intros x n Q HQ. destruct (nextCp (a_s x)) as [[ch chash]|].
    - destruct (n =? ch); [destruct (hid bh =? chash); discriminate|]. intros [= <-]. by apply HQ.
    - intros [= <-]. by apply HQ. }
  destruct (hid (nhdr pn) =? hprev bh) eqn:E1.
  - destruct (is_ok _); [|discriminate]. cbv zeta. apply Hpost. intros ->. right.
    eexists. split; [cbn [a_s hl set_hl]; apply last_win_push|reflexivity].
  - assert (Hne : hid (nhdr pn) <> hprev bh) by lia.
    destruct (negb (is_sync (a_s a) p) && negb (headers_synced P now (a_s a))); [discriminate|].
    destruct (hid bh =? hid (nhdr pn)); [apply Hpost; intros ->; by left|].
    destruct (fetch_header (chain (a_s a)) (hid bh)); [apply Hpost; intros ->; by left|].
    destruct (fetch_header (chain (a_s a)) (hprev bh)) as [[backHead backH]|]; [|discriminate].
    cbv zeta. destruct (backH <? _); [discriminate|].
    destruct (reorg_check _ _ _ _ _ _ _ _) as [total|]; [|discriminate].
    destruct (_ >? total); [discriminate|]. destruct (_ =? total); [discriminate|].
    apply Hpost. intros ->. right. eexists. split; [cbn [a_s hl set_hl]; reflexivity|reflexivity].
Qed.

(* every further header of a connected message takes the connect path *)
Definition locked (a : acc) (rest : list header) : Prop :=
  exists pn, last (hl (a_s a)) = Some pn /\ connected (hid (nhdr pn)) rest = true.

Lemma reorg_point_connects P now p a bh rest pn :
  last (hl (a_s a)) = Some pn -> hid (nhdr pn) = hprev bh -> reorg_point P now p a bh rest = None.
Proof. intros Hl He. unfold reorg_point. rewrite Hl. by replace (hid (nhdr pn) =? hprev bh) with true by lia. Qed.

Lemma loop_f_locked P now p rest : forall k a, locked a rest ->
  loop_f P now p k a rest = (loop P now p a rest, k).
Proof.
  induction rest as [|bh rest IH]; intros k a (pn & Hl & Hc); [reflexivity|].
  cbn [connected] in Hc. apply andb_true_iff in Hc as [Hc1 Hc2].
  cbn [loop_f loop]. unfold step_header_f.
  rewrite (reorg_point_connects P now p a bh rest pn Hl) by lia.
  destruct (step_header P now p a bh rest) as [s'|a'|a'] eqn:Es; [reflexivity| |reflexivity].
  apply IH. destruct (step_continue_kind P now p a bh rest pn a' Hl Es) as [[_ Hne]|(nd & Hnd & Hb)]; [lia|].
  exists nd. split; [exact Hnd|]. by rewrite Hb.
Qed.

Lemma headers_connected_tail bh rest : headers_connected (bh :: rest) = true ->
  connected (hid bh) rest = true /\ headers_connected rest = true.
Proof.
  cbn [headers_connected]. intros H. split; [exact H|].
  destruct rest as [|y t]; [reflexivity|]. cbn [connected headers_connected] in *. lia.
Qed.

Lemma loop_f_cases P now p hs : headers_connected hs = true -> forall k a,
  (exists k', loop_f P now p k a hs = (loop P now p a hs, k')) \/
  (exists bh rest backHead backH, reorg_point P now p a bh rest = Some (backHead, backH) /\
     loop_f P now p k a hs = (Return (roll_back_to backH (set_sync (Some p) (a_s a))), 0)).
Proof.
  induction hs as [|bh rest IH]; intros Hc k a; [left; by exists k|].
  destruct (headers_connected_tail bh rest Hc) as [Hc1 Hc2]. specialize (IH Hc2).
  cbn [loop_f loop]. unfold step_header_f.
  assert (Hgo : forall k2, (exists k', match step_header P now p a bh rest with
                                      | Continue a' => loop_f P now p k2 a' rest
                                      | o => (o, k2) end =
                                      (match step_header P now p a bh rest with
                                       | Continue a' => loop P now p a' rest | o => o end, k')) \/
     (exists bh0 rest0 backHead backH, reorg_point P now p a bh0 rest0 = Some (backHead, backH) /\
        match step_header P now p a bh rest with
        | Continue a' => loop_f P now p k2 a' rest
        | o => (o, k2) end = (Return (roll_back_to backH (set_sync (Some p) (a_s a))), 0))).
  { intros k2. destruct (step_header P now p a bh rest) as [s'|a'|a'] eqn:Es; [left; by exists k2| |left; by exists k2].
    destruct (last (hl (a_s a))) as [pn|] eqn:Hl.
    2:{ unfold step_header in Es. rewrite Hl in Es. discriminate. }
    destruct (step_continue_kind P now p a bh rest pn a' Hl Es) as [[-> _]|(nd & Hnd & Hb)].
    - apply IH.
    - left. exists k2. apply loop_f_locked. exists nd. split; [exact Hnd|]. by rewrite Hb. }
  destruct (reorg_point P now p a bh rest) as [[backHead backH]|] eqn:E.
  - destruct (k =? 1).
    + right. exists bh, rest, backHead, backH. done.
    + destruct (Hgo (k - 1)) as [[k' H]|H]; [left; exists k'|right; exact H].
      destruct (step_header P now p a bh rest); exact H.
  - destruct (Hgo k) as [[k' H]|H]; [left; exists k'|right; exact H].
    destruct (step_header P now p a bh rest); exact H.
Qed.

Lemma reorg_point_Some P now p a bh rest backHead backH :
  reorg_point P now p a bh rest = Some (backHead, backH) ->
  exists pn, last (hl (a_s a)) = Some pn /\ hid (nhdr pn) <> hprev bh /\
    fetch_header (chain (a_s a)) (hid bh) = None /\
    fetch_header (chain (a_s a)) (hprev bh) = Some (backHead, backH) /\
    (find_prev_cp P (nheight pn + 1)).1 <= backH.
Proof.
  unfold reorg_point. destruct (last (hl (a_s a))) as [pn|]; [|discriminate].
  destruct (hid (nhdr pn) =? hprev bh) eqn:E1; [discriminate|].
  destruct (_ && _); [discriminate|]. destruct (hid bh =? hid (nhdr pn)); [discriminate|].
  destruct (fetch_header (chain (a_s a)) (hid bh)) eqn:E2; [discriminate|].
  destruct (fetch_header (chain (a_s a)) (hprev bh)) as [[bH h]|] eqn:E3; [|discriminate].
  destruct (h <? _) eqn:E4; [discriminate|].
  destruct (reorg_check _ _ _ _ _ _ _ _) as [total|]; [|discriminate]. cbv zeta.
  destruct (known_work _ _ _ _ _ _ _ >? total); [discriminate|].
  destruct (known_work _ _ _ _ _ _ _ =? total); [discriminate|].
  intros Heq. assert (bH = backHead /\ h = backH) as [-> ->] by (split; congruence).
  exists pn. repeat split; try done; lia.
Qed.

(* without a fault the faulty handler is the ordinary one *)
Lemma loop_f_0 P now p hs : forall a k, k <= 0 -> exists k', k' <= 0 /\ loop_f P now p k a hs = (loop P now p a hs, k').
Proof.
  induction hs as [|bh rest IH]; intros a k Hk; [by exists k|].
  cbn [loop_f loop]. unfold step_header_f.
  destruct (reorg_point P now p a bh rest) as [[backHead backH]|].
  - replace (k =? 1) with false by lia.
    destruct (step_header P now p a bh rest) as [s'|a'|a']; [by exists (k - 1); split; [lia|]|apply IH; lia|by exists (k - 1); split; [lia|]].
  - destruct (step_header P now p a bh rest) as [s'|a'|a']; [by exists k|by apply IH|by exists k].
Qed.
Lemma handle_headers_f_0 P now p hs s : handle_headers_f P now p hs 0 s = handle_headers P now p hs s.
Proof.
  unfold handle_headers_f, handle_headers. destruct hs as [|x t]; [reflexivity|].
  destruct (negb _); [reflexivity|].
  destruct (loop_f_0 P now p (x :: t) {| a_s := s; a_batch := []; a_recvcp := false; a_finalh := 0 |} 0 ltac:(lia)) as (k' & Hk' & ->).
  destruct (loop _ _ _ _ _) as [s'|a|a]; [reflexivity| |]; by replace (k' =? 1) with false by lia.
Qed.

(* ==================== loop_r (failing rollback) against loop ==================== *)
Lemma loop_r_locked P now p k rest : forall a, locked a rest ->
  loop_r P now p k a rest = loop P now p a rest.
Proof.
  induction rest as [|bh rest IH]; intros a (pn & Hl & Hc); [reflexivity|].
  cbn [connected] in Hc. apply andb_true_iff in Hc as [Hc1 Hc2].
  cbn [loop_r loop]. unfold step_header_r.
  rewrite (reorg_point_connects P now p a bh rest pn Hl) by lia.
  destruct (step_header P now p a bh rest) as [s'|a'|a'] eqn:Es; [reflexivity| |reflexivity].
  apply IH. destruct (step_continue_kind P now p a bh rest pn a' Hl Es) as [[_ Hne]|(nd & Hnd & Hb)]; [lia|].
  exists nd. split; [exact Hnd|]. by rewrite Hb.
Qed.

Lemma loop_r_cases P now p k hs : headers_connected hs = true -> forall a,
  loop_r P now p k a hs = loop P now p a hs \/
  (exists bh rest backHead backH, reorg_point P now p a bh rest = Some (backHead, backH) /\
     1 <= k <= tip_height (a_s a) - backH /\
     loop_r P now p k a hs = Return (crash_state P p (a_s a) k)).
Proof.
  induction hs as [|bh rest IH]; intros Hc a; [by left|].
  destruct (headers_connected_tail bh rest Hc) as [Hc1 Hc2]. specialize (IH Hc2).
  cbn [loop_r loop]. unfold step_header_r.
  assert (Hgo : match step_header P now p a bh rest with
                | Continue a' => loop_r P now p k a' rest | o => o end =
                match step_header P now p a bh rest with
                | Continue a' => loop P now p a' rest | o => o end \/
     (exists bh0 rest0 backHead backH, reorg_point P now p a bh0 rest0 = Some (backHead, backH) /\
        1 <= k <= tip_height (a_s a) - backH /\
        match step_header P now p a bh rest with
        | Continue a' => loop_r P now p k a' rest | o => o end = Return (crash_state P p (a_s a) k))).
  { destruct (step_header P now p a bh rest) as [s'|a'|a'] eqn:Es; [by left| |by left].
    destruct (last (hl (a_s a))) as [pn|] eqn:Hl.
    2:{ unfold step_header in Es. rewrite Hl in Es. discriminate. }
    destruct (step_continue_kind P now p a bh rest pn a' Hl Es) as [[-> _]|(nd & Hnd & Hb)].
    - apply IH.
    - left. apply loop_r_locked. exists nd. split; [exact Hnd|]. by rewrite Hb. }
  destruct (reorg_point P now p a bh rest) as [[backHead backH]|] eqn:E; [|exact Hgo].
  destruct ((1 <=? k) && (k <=? tip_height (a_s a) - backH)) eqn:Ek; [|exact Hgo].
  right. exists bh, rest, backHead, backH. split; [done|]. split; [lia|done].
Qed.

(* ==================== the invariant ==================== *)
Section Faults.
Context (P : params) (U : header -> Prop) (T : Z -> Prop).
Hypothesis HU : universe P U.
Hypothesis HP : wf_params P.

Lemma handle_headers_f_Inv now p hs k s :
  Inv P U T s -> T now -> Forall U hs -> zlen hs < memCap P -> zlen (chain s) + zlen hs <= LIMIT ->
  Inv P U T (handle_headers_f P now p hs k s) /\
  zlen (chain (handle_headers_f P now p hs k s)) <= zlen (chain s) + zlen hs.
Proof.
  intros HI HT HUs Hlen Hlim. unfold handle_headers_f. pose proof (zlen_nonneg hs) as Hnn.
  destruct hs as [|h0 hs0] eqn:Ehs; [split; [done|lia]|]. rewrite <- Ehs in *.
  destruct (headers_connected hs) eqn:Hconn; cbn [negb].
  2:{ split; [eapply Inv_core; [done|apply core_eq_disconnect]|]. destruct (core_eq_disconnect p s) as (-> & _). lia. }
  fold (acc0 s).
  pose proof (loop_spec P U T HU HP now p HT hs (acc0 s) (Inv_Live P U T s hs HI Hlen Hconn) eq_refl HUs) as Hl.
  unfold afull in Hl at 1. cbn [acc0 a_s a_batch fmap list_fmap] in Hl. rewrite app_nil_r in Hl.
  specialize (Hl Hlim).
  destruct (loop_f_cases P now p hs Hconn k (acc0 s)) as [[k' ->]|(bh & rest & backHead & backH & Hrp & ->)].
  - destruct (loop P now p (acc0 s) hs) as [s'|a'|a']; [|done|].
    + destruct Hl as [HR HTr]. destruct (resync_spec P U T s' HR) as [HI' Hc]. split; [done|].
      rewrite Hc. by eapply Trans_len.
    + destruct Hl as [HF HTr]. pose proof (Trans_len P now _ _ _ HTr) as Hle.
      destruct ((k' =? 1) && _).
      * destruct HF as [HA _]. destruct (resync_spec P U T _ (AInv_RInv P U T _ HA)) as [HI' Hc]. split; [done|].
        rewrite Hc. rewrite afull_len in Hle. pose proof (zlen_nonneg (a_batch a')). lia.
      * destruct (finalize_spec P U T a' HF) as [HI' Hc]. fold (finalize P a').
        destruct (resync_spec P U T _ (Inv_RInv P U T _ HI')) as [HI'' Hc']. split; [done|]. by rewrite Hc', Hc.
  - (* the write of the branch's first header failed: rolled back, nothing written *)
    apply reorg_point_Some in Hrp as (pn & Hpn & _ & _ & Hfh & Hfloor). cbn [acc0 a_s] in *.
    destruct (i_chain _ _ _ _ HI) as [tl Htl]. pose proof (co_lim _ _ _ _ _ Htl) as HLc.
    pose proof (ChainOK_ne _ _ _ _ _ Htl) as Hcne. pose proof (zlen_pos _ Hcne) as Hpos.
    apply fetch_header_Some in Hfh as (n & -> & Hn & _). pose proof (lookup_lt_Some _ _ _ Hn) as Hnlt.
    destruct (WM_last _ _ (i_wm _ _ _ _ HI)) as (t & _ & Hlast). rewrite Hlast in Hpn. injection Hpn as <-.
    cbn [nheight] in Hfloor. replace (zlen (chain s) - 1 + 1) with (zlen (chain s)) in Hfloor by lia.
    set (s1 := set_sync (Some p) s).
    destruct (roll_back_spec (length (chain s1)) s1 (Z.of_nat n)) as (R1 & R2 & R3 & R4 & R5 & R6 & R7 & R8 & R9);
      [lia|done|apply (i_fle _ _ _ _ HI)|unfold zlen; cbn; lia|].
    fold (roll_back_to (Z.of_nat n) s1) in *. set (s2 := roll_back_to (Z.of_nat n) s1) in *.
    change (chain s1) with (chain s) in R1. change (fchain s1) with (fchain s) in R2, R3.
    change (ftipVar s1) with (ftipVar s) in R3. change (hl s1) with (hl s) in R4.
    change (nextCp s1) with (nextCp s) in R7. change (trap s1) with (trap s) in R9.
    assert (Hzc : zlen (chain s2) = Z.of_nat n + 1) by (rewrite R1; apply zlen_take; unfold zlen in *; lia).
    assert (Hzf : zlen (fchain s2) = Z.min (Z.of_nat n + 1) (zlen (fchain s))).
    { rewrite R2. unfold zlen. rewrite take_length. lia. }
    pose proof (i_fne _ _ _ _ HI) as Hfne. pose proof (i_fle _ _ _ _ HI) as Hfle. pose proof (i_ftip _ _ _ _ HI) as Hft.
    assert (HR : RInv P U T s2).
    { split; unfold tip_height; rewrite ?Hzc, ?Hzf, ?R3, ?R7, ?R9; try lia.
      - apply (i_trap _ _ _ _ HI).
      - rewrite R1. eapply ChainOK_take; [exact Htl|lia].
      - exists (chain s). split; [rewrite R1; exists (drop (Z.to_nat (Z.of_nat n + 1)) (chain s)); by rewrite take_drop|rewrite R4; apply (i_wm _ _ _ _ HI)].
      - destruct (zlen (fchain s) - 1 >? Z.of_nat n) eqn:E; lia.
      - rewrite (i_cp _ _ _ _ HI). unfold tip_height. symmetry.
        apply (find_next_cp_same P 0); [apply (wf_cps P HP)|unfold zlen in *; lia|].
        intros d Hd Hb. pose proof (find_prev_cp_spec P (zlen (chain s)) (wf_cps P HP)) as (_ & _ & _ & Hp4).
        specialize (Hp4 d Hd ltac:(lia)). lia. }
    destruct (resync_spec P U T s2 HR) as [HI' Hc]. split; [done|]. rewrite Hc, Hzc. unfold zlen in *. lia.
Qed.

(* a restart needs much less than Inv of the state it starts from *)
Lemma restart_Inv_weak s : trap s = false -> (exists tl, ChainOK P U T (chain s) tl) ->
  0 < zlen (fchain s) <= zlen (chain s) -> Inv P U T (restart P s) /\ chain (restart P s) = chain s.
Proof.
  intros Ht [tl Htl] Hf. pose proof (ChainOK_ne _ _ _ _ _ Htl) as Hne.
  unfold restart, chain_tip. destruct (last (chain s)) as [t|] eqn:Et; [|by apply last_None in Et].
  split; [|done].
  split; unfold tip_height; cbn [chain fchain hl nextCp ftipVar trap]; try done; try lia.
  - by exists tl.
  - by apply WM_single.
Qed.

Lemma crash_state_Inv p s k backH :
  Inv P U T s -> 0 <= backH -> 1 <= k <= tip_height s - backH ->
  Inv P U T (crash_state P p s k) /\ zlen (chain (crash_state P p s k)) <= zlen (chain s).
Proof.
  intros HI Hb Hk. unfold crash_state. unfold tip_height in *.
  destruct (i_chain _ _ _ _ HI) as [tl Htl]. pose proof (co_lim _ _ _ _ _ Htl) as HLc.
  set (s1 := set_sync (Some p) s). set (h := zlen (chain s) - 1 - k).
  destruct (roll_back_spec (length (chain s1)) s1 h) as (R1 & R2 & R3 & R4 & R5 & R6 & R7 & R8 & R9);
    [lia|done|apply (i_fle _ _ _ _ HI)|unfold zlen; cbn; lia|].
  fold (roll_back_to h s1) in *. set (s2 := roll_back_to h s1) in *.
  change (chain s1) with (chain s) in R1. change (fchain s1) with (fchain s) in R2.
  change (trap s1) with (trap s) in R9.
  pose proof (i_fne _ _ _ _ HI) as Hfne. pose proof (i_fle _ _ _ _ HI) as Hfle.
  assert (Hzc : zlen (chain s2) = h + 1) by (rewrite R1; apply zlen_take; lia).
  destruct (restart_Inv_weak (pop_event s2)) as [HI' Hc].
  - cbn [pop_event trap]. rewrite R9. apply (i_trap _ _ _ _ HI).
  - cbn [pop_event chain]. rewrite R1. eapply ChainOK_take; [exact Htl|lia].
  - cbn [pop_event chain fchain]. rewrite Hzc, R2. unfold zlen at 1 2. rewrite take_length. unfold zlen in *. lia.
  - split; [exact HI'|]. rewrite Hc. cbn [pop_event chain]. lia.
Qed.

Lemma handle_headers_r_Inv now p hs k s :
  Inv P U T s -> T now -> Forall U hs -> zlen hs < memCap P -> zlen (chain s) + zlen hs <= LIMIT ->
  Inv P U T (handle_headers_r P now p hs k s) /\
  zlen (chain (handle_headers_r P now p hs k s)) <= zlen (chain s) + zlen hs.
Proof.
  intros HI HT HUs Hlen Hlim. pose proof (zlen_nonneg hs) as Hnn.
  assert (Hord : handle_headers_r P now p hs k s = handle_headers P now p hs s ->
    Inv P U T (handle_headers_r P now p hs k s) /\
    zlen (chain (handle_headers_r P now p hs k s)) <= zlen (chain s) + zlen hs).
  { intros ->. destruct (handle_headers_spec P U T HU HP now p hs s HI HT HUs Hlen Hlim) as [H1 H2].
    split; [done|]. by eapply Trans_len. }
  unfold handle_headers_r, handle_headers in *.
  destruct hs as [|h0 hs0] eqn:Ehs; [by apply Hord|]. rewrite <- Ehs in *.
  destruct (headers_connected hs) eqn:Hconn; cbn [negb] in *; [|by apply Hord].
  fold (acc0 s) in *.
  destruct (loop_r_cases P now p k hs Hconn (acc0 s)) as [E|(bh & rest & backHead & backH & Hrp & Hk & E)];
    rewrite E in *; [by apply Hord|].
  apply reorg_point_Some in Hrp as (pn & _ & _ & _ & Hfh & _). cbn [acc0 a_s] in *.
  apply fetch_header_Some in Hfh as (n & -> & _ & _).
  destruct (crash_state_Inv p s k (Z.of_nat n) HI ltac:(lia) Hk) as [HI' Hz].
  destruct (resync_spec P U T _ (Inv_RInv P U T _ HI')) as [HI'' Hc]. split; [done|]. rewrite Hc. lia.
Qed.

(* ---------- operations with store write faults, histories ---------- *)
Definition wf_op_f (o : op) : Prop :=
  match o with
  | OHeadersF _ now hs _ | OHeadersR _ now hs _ => T now /\ Forall U hs /\ zlen hs < memCap P
  | _ => wf_op P U T o
  end.

Lemma step_spec_f s o : Inv P U T s -> wf_op_f o -> zlen (chain s) + op_size o <= LIMIT ->
  Inv P U T (step P s o) /\ zlen (chain (step P s o)) <= zlen (chain s) + op_size o.
Proof.
  intros HI Hwf Hlim.
  assert (Hord : wf_op P U T o -> Inv P U T (step P s o) /\ zlen (chain (step P s o)) <= zlen (chain s) + op_size o).
  { intros Hw. split; [apply (step_spec P U T HU HP s o HI Hw Hlim)|apply (step_len P U T HU HP s o HI Hw Hlim)]. }
  destruct o; try (apply Hord; exact Hwf).
  - cbn [wf_op_f step op_size] in *. destruct Hwf as (HT & HUs & Hlen). by apply handle_headers_f_Inv.
  - cbn [wf_op_f step op_size] in *. destruct Hwf as (HT & HUs & Hlen). by apply handle_headers_r_Inv.
Qed.

Lemma run_Inv_f ops : forall s, Inv P U T s -> Forall wf_op_f ops -> zlen (chain s) + ops_size ops <= LIMIT ->
  Inv P U T (run P s ops) /\ zlen (chain (run P s ops)) <= zlen (chain s) + ops_size ops.
Proof.
  unfold run. induction ops as [|o ops IH]; intros s HI Hwf Hlim; cbn [fold_left ops_size foldr] in *; [split; [done|lia]|].
  apply Forall_cons in Hwf as [Hwo Hwf]. fold (ops_size ops) in *.
  assert (Hnn : 0 <= ops_size ops).
  { clear. induction ops as [|o ops IH]; cbn; [lia|]. fold (ops_size ops). destruct o; cbn; try lia; pose proof (zlen_nonneg hs); lia. }
  destruct (step_spec_f s o HI Hwo ltac:(lia)) as [HI' Hl].
  destruct (IH _ HI' Hwf ltac:(lia)) as [H1 H2]. split; [done|lia].
Qed.
End Faults.
