(* S2 — the shared invariant of the block-manager model and its
   preservation by every operation; how one headers message changes the
   chain (Trans).  Used by C01, C02 (and C19, C04).

   Section variables: P (chain parameter set), U (the headers the client ever
   sees), T (the clock readings of headers messages); hypotheses
   [universe P U] (hash tokens identify headers of U, the genesis block is in
   U, nothing in U hashes to the genesis block's previous-block field) and
   [wf_params P].  Main results:
     Inv P U T s            the invariant (record; fields i_trap, i_chain, i_wm, ...)
     init_Inv, step_spec, run_Inv      establishment and preservation
     StepRel / Trans        how the chain changes: unchanged, extended by a
                            valid run (up to the first checkpoint height), cut
                            back after a checkpoint mismatch, or reorganised
     loop_connect, loop_spec, handle_headers_spec, finalize_spec, resync_spec
   Instantiate U, T with [fun _ => True]-like predicates only if [universe]
   can be shown; C01/Proofs.v shows the instantiation for histories
   (U_of, T_of, reach_Inv). *)
From stdpp Require Import list.
From Coq Require Import ZArith Lia ZifyBool.
From Verif Require Import S2.Model C01.Spec S2.Basics.
Open Scope Z_scope.

Section Inv.
Context (P : params) (U : header -> Prop) (T : Z -> Prop).
Hypothesis HU : universe P U.
Hypothesis HP : wf_params P.

Lemma no_cp_at h : (forall ch chash, find_next_cp P (h - 1) = Some (ch, chash) -> ch <> h) ->
  forall d, d ∈ checkpoints P -> d.1 <> h.
Proof.
  intros Hn d Hd Heq. pose proof (find_next_cp_spec P (h - 1) 0 (wf_cps P HP)) as Hs.
  destruct (find_next_cp P (h - 1)) as [[ch chash]|]; cbn in Hs.
  - destruct Hs as (A1 & A2 & A3). specialize (A3 d Hd ltac:(lia)). specialize (Hn ch chash eq_refl). cbn in *. lia.
  - specialize (Hs d Hd). lia.
Qed.
Lemma cp_at_hit h chash x : find_next_cp P (h - 1) = Some (h, chash) -> hid x = chash -> cp_at P h x.
Proof.
  intros Hf Hx d Hd Heq. pose proof (find_next_cp_spec P (h - 1) 0 (wf_cps P HP)) as Hs.
  rewrite Hf in Hs. destruct Hs as (A1 & _).
  assert (d = (h, chash)) as -> by (eapply cp_asc_unique; [apply (wf_cps P HP)|done|done|done]). by cbn.
Qed.
Lemma next_cp_pos h ch chash : 0 <= h -> find_next_cp P h = Some (ch, chash) -> h < ch.
Proof.
  intros Hh Hf. pose proof (find_next_cp_spec P h 0 (wf_cps P HP)) as Hs. rewrite Hf in Hs.
  destruct Hs as (_ & A2 & _). exact A2.
Qed.

Record Inv (s : state) : Prop := {
  i_trap : trap s = false;
  i_chain : exists tl, ChainOK P U T (chain s) tl;
  i_wm : WM (hl s) (chain s);
  i_fne : 0 < zlen (fchain s);
  i_fle : zlen (fchain s) <= zlen (chain s);
  i_ftip : ftipVar s = zlen (fchain s) - 1;
  i_cp : nextCp s = find_next_cp P (tip_height s)
}.

(* what holds when handleHeadersMsg returns early: the window may be ahead of the store *)
Record RInv (s : state) : Prop := {
  r_trap : trap s = false;
  r_chain : exists tl, ChainOK P U T (chain s) tl;
  r_wm : exists full, chain s `prefix_of` full /\ WM (hl s) full;
  r_fne : 0 < zlen (fchain s);
  r_fle : zlen (fchain s) <= zlen (chain s);
  r_ftip : ftipVar s = zlen (fchain s) - 1;
  r_cp : nextCp s = find_next_cp P (tip_height s)
}.

Record AInv (a : acc) : Prop := {
  a_trap : trap (a_s a) = false;
  a_chain : exists tl, ChainOK P U T (afull a) tl;
  a_heights : heights_from (zlen (chain (a_s a))) (a_batch a) = true;
  a_wm : WM (hl (a_s a)) (afull a);
  a_cover : zlen (a_batch a) <= zlen (hl (a_s a));
  a_fne : 0 < zlen (fchain (a_s a));
  a_fle : zlen (fchain (a_s a)) <= zlen (chain (a_s a));
  a_ftip : ftipVar (a_s a) = zlen (fchain (a_s a)) - 1;
  a_cpT : nextCp (a_s a) = find_next_cp P (tip_height (a_s a))
}.

Definition Live (a : acc) (hs : list header) : Prop :=
  AInv a /\ a_recvcp a = false /\
  nextCp (a_s a) = find_next_cp P (zlen (afull a) - 1) /\
  zlen (a_batch a) + zlen hs < memCap P /\
  headers_connected hs = true /\
  (a_batch a <> [] -> forall x t tp, hs = x :: t -> last (afull a) = Some tp -> hprev x = hid tp).

Definition Final (a : acc) : Prop :=
  AInv a /\
  if a_recvcp a then a_finalh a = zlen (afull a) - 1
  else nextCp (a_s a) = find_next_cp P (zlen (afull a) - 1).

Lemma Inv_RInv s : Inv s -> RInv s.
Proof. intros []. split; try done. exists (chain s). done. Qed.

Lemma Inv_core s s' : Inv s -> core_eq s s' -> Inv s'.
Proof.
  intros [] (E1 & E2 & E3 & E4 & E5 & E6). unfold tip_height in *. split; unfold tip_height; rewrite ?E1, ?E2, ?E3, ?E4, ?E5, ?E6; done.
Qed.
Lemma RInv_core s s' : RInv s -> core_eq s s' -> RInv s'.
Proof.
  intros [] (E1 & E2 & E3 & E4 & E5 & E6). unfold tip_height in *. split; unfold tip_height; rewrite ?E1, ?E2, ?E3, ?E4, ?E5, ?E6; done.
Qed.

Lemma afull_len a : zlen (afull a) = zlen (chain (a_s a)) + zlen (a_batch a).
Proof. unfold afull. by rewrite zlen_app, zlen_fmap. Qed.

Lemma Live_nil a : Live a [] -> Final a.
Proof. intros (H1 & H2 & H3 & _). split; [done|]. by rewrite H2. Qed.

Lemma AInv_tip a : AInv a -> exists tp, last (afull a) = Some tp /\
  last (hl (a_s a)) = Some {| nheight := zlen (afull a) - 1; nhdr := tp |}.
Proof. intros H. apply WM_last. apply (a_wm _ H). Qed.

Lemma conn_acc_full p a bh : afull (conn_acc P p a bh) = afull a ++ [bh].
Proof.
  unfold afull at 1. unfold conn_acc. cbn [a_s a_batch chain set_hl].
  destruct (core_eq_bump_last p (zlen (afull a)) (a_s a)) as (-> & _).
  rewrite fmap_app. cbn. unfold afull. by rewrite app_assoc.
Qed.

Lemma conn_acc_AInv now p a bh rest :
  Live a (bh :: rest) -> valid_next P (afull a) now bh = true -> T now -> U bh ->
  cp_at P (zlen (afull a)) bh -> zlen (afull a) < LIMIT ->
  AInv (conn_acc P p a bh).
Proof.
  intros (HA & Hr & Hcp & Hroom & Hconn & Hlink) Hv HT HUb Hcpat HL.
  pose proof (conn_acc_full p a bh) as Hfull.
  destruct (core_eq_bump_last p (zlen (afull a)) (a_s a)) as (E1 & E2 & E3 & E4 & E5 & E6).
  destruct HA. split; rewrite ?Hfull; unfold conn_acc, tip_height in *; cbn [a_s a_batch chain set_hl hl fchain trap ftipVar nextCp];
    rewrite ?E1, ?E2, ?E3, ?E4, ?E5, ?E6; try done.
  - destruct a_chain0 as [tl Htl]. exists (tl ++ [(bh, now)]). by apply ChainOK_snoc.
  - apply heights_from_snoc; [done|]. apply afull_len.
  - apply WM_push; [done|apply (wf_cap P HP)].
  - rewrite win_push_len, zlen_snoc. rewrite zlen_cons in Hroom. pose proof (zlen_nonneg rest).
    pose proof (WM_len _ _ a_wm0). destruct (zlen (hl (a_s a)) >=? memCap P) eqn:E; lia.
Qed.

Lemma AInv_chain_ne a : AInv a -> chain (a_s a) <> [].
Proof. intros []. intros E. rewrite E in *. rewrite zlen_nil in *. lia. Qed.

Lemma AInv_chain a : AInv a -> exists tl, ChainOK P U T (chain (a_s a)) tl.
Proof.
  intros H. destruct (a_chain _ H) as [tl Htl]. eexists. eapply ChainOK_prefix; [exact Htl|by apply AInv_chain_ne].
Qed.

Lemma AInv_RInv a : AInv a -> RInv (a_s a).
Proof.
  intros H. pose proof (AInv_chain _ H). destruct H. split; try done.
  exists (afull a). split; [by eexists|done].
Qed.

Lemma AInv_lim a : AInv a -> zlen (afull a) <= LIMIT.
Proof. intros H. destruct (a_chain _ H) as [tl Htl]. apply (co_lim _ _ _ _ _ Htl). Qed.

Lemma sanity_bridge now a bh tp : AInv a -> last (afull a) = Some tp -> hprev bh = hid tp ->
  is_ok (check_sanity P (view (hl (a_s a)) (chain (a_s a))) now bh (zlen (afull a) - 1) tp)
  = valid_next P (afull a) now bh.
Proof.
  intros H Hl Hp. rewrite (valid_next_unfold P _ _ _ _ Hl). replace (hprev bh =? hid tp) with true by lia.
  cbn [andb]. f_equal. apply sanity_view; [exact HP|apply (a_wm _ H)|by eexists| |by apply AInv_lim].
  rewrite afull_len. pose proof (a_cover _ H). lia.
Qed.

Lemma conn_acc_wm p a bh : AInv a -> WM (hl (a_s (conn_acc P p a bh))) (afull a ++ [bh]).
Proof.
  intros H. unfold conn_acc. cbn [a_s hl set_hl].
  destruct (core_eq_bump_last p (zlen (afull a)) (a_s a)) as (E1 & E2 & E3 & E4 & E5 & E6). rewrite E3.
  apply WM_push; [apply (a_wm _ H)|apply (wf_cap P HP)].
Qed.

Definition is_cp_height (h : Z) : Prop := exists chash, (h, chash) ∈ checkpoints P.

Lemma step_connect_spec now p a bh rest tp :
  Live a (bh :: rest) -> last (afull a) = Some tp -> hprev bh = hid tp -> U bh -> T now ->
  zlen (afull a) < LIMIT ->
  match step_header P now p a bh rest with
  | Continue a' => a' = conn_acc P p a bh /\ Live a' rest /\ valid_next P (afull a) now bh = true /\
                   ~ is_cp_height (zlen (afull a))
  | Break a' => a' = brk (conn_acc P p a bh) /\ Final a' /\ valid_next P (afull a) now bh = true /\
                is_cp_height (zlen (afull a)) /\ cp_at P (zlen (afull a)) bh
  | Return s' => RInv s' /\
     ((valid_next P (afull a) now bh = false /\ chain s' = chain (a_s a)) \/
      (valid_next P (afull a) now bh = true /\
       chain s' = take (Z.to_nat ((find_prev_cp P (zlen (afull a))).1 + 1)) (chain (a_s a)) /\
       exists chash, (zlen (afull a), chash) ∈ checkpoints P /\ hid bh <> chash))
  end.
Proof.
  intros HL Hlast Hp HUb HT Hlim. pose proof HL as (HA & Hr & Hcp & Hroom & Hconn & Hlink).
  destruct (AInv_tip _ HA) as (tp' & Hl1 & Hl2). assert (tp' = tp) by congruence. subst tp'.
  rewrite (step_connect_eq P now p a bh rest tp Hl2 Hp), (sanity_bridge now a bh tp HA Hlast Hp).
  destruct (valid_next P (afull a) now bh) eqn:Hv.
  2:{ split; [|by left]. eapply RInv_core; [by apply AInv_RInv|apply core_eq_disconnect]. }
  cbn zeta.
  assert (Hlive : (forall ch chash, nextCp (a_s a) = Some (ch, chash) -> ch <> zlen (afull a)) ->
     Live (conn_acc P p a bh) rest /\ ~ is_cp_height (zlen (afull a))).
  { intros Hne.
    assert (Hno : forall d, d ∈ checkpoints P -> d.1 <> zlen (afull a)) by (apply no_cp_at; by rewrite <- Hcp).
    split; [|intros [chash Hin]; by apply (Hno _ Hin)].
    split; [|split; [|split; [|split; [|split]]]].
    - eapply conn_acc_AInv; eauto. intros d Hd Heq. by specialize (Hno d Hd).
    - done.
    - rewrite conn_acc_full, zlen_snoc. unfold conn_acc. cbn [a_s nextCp set_hl].
      destruct (core_eq_bump_last p (zlen (afull a)) (a_s a)) as (E1 & E2 & E3 & E4 & E5 & E6). rewrite E4, Hcp.
      apply (find_next_cp_same P 0); [apply (wf_cps P HP)|lia|]. intros d Hd Hb. apply (Hno d Hd). lia.
    - unfold conn_acc. cbn [a_batch]. rewrite zlen_snoc. rewrite zlen_cons in Hroom. lia.
    - destruct rest as [|x t]; [done|]. cbn in Hconn. apply andb_true_iff in Hconn as [_ Hc]. exact Hc.
    - intros _ x t tp' -> Hl'. rewrite conn_acc_full, last_snoc in Hl'. injection Hl' as <-.
      cbn in Hconn. apply andb_true_iff in Hconn as [Hc _]. lia. }
  destruct (nextCp (a_s a)) as [[ch chash]|] eqn:Hn.
  2:{ destruct Hlive as [H1 H2]; [intros; discriminate|]. done. }
  destruct (zlen (afull a) =? ch) eqn:Hch.
  2:{ destruct Hlive as [H1 H2]; [intros ? ? [= <- <-]; lia|]. done. }
  assert (ch = zlen (afull a)) by lia. subst ch.
  assert (Hin : (zlen (afull a), chash) ∈ checkpoints P).
  { pose proof (find_next_cp_spec P (zlen (afull a) - 1) 0 (wf_cps P HP)) as Hs. rewrite <- Hcp in Hs. apply Hs. }
  destruct (hid bh =? chash) eqn:Hh.
  - assert (Hat : cp_at P (zlen (afull a)) bh) by (eapply cp_at_hit; [by rewrite <- Hcp|lia]).
    split; [done|]. split; [|split; [done|split; [by exists chash|done]]].
    split.
    + assert (HA2 : AInv (conn_acc P p a bh)) by (eapply conn_acc_AInv; eauto).
      destruct HA2. split; done.
    + cbn [brk a_recvcp a_finalh conn_acc]. change (afull (brk (conn_acc P p a bh))) with (afull (conn_acc P p a bh)).
      rewrite conn_acc_full, zlen_snoc. lia.
  - set (pc := (find_prev_cp P (zlen (afull a))).1).
    pose proof (find_prev_cp_spec P (zlen (afull a)) (wf_cps P HP)) as (Hp1 & Hp2 & Hp3 & Hp4). fold pc in Hp2, Hp3, Hp4.
    set (s2 := a_s (conn_acc P p a bh)).
    assert (Es : chain s2 = chain (a_s a) /\ fchain s2 = fchain (a_s a) /\ nextCp s2 = nextCp (a_s a) /\
                 ftipVar s2 = ftipVar (a_s a) /\ trap s2 = trap (a_s a)).
    { subst s2. unfold conn_acc. cbn [a_s chain fchain nextCp ftipVar trap set_hl].
      destruct (core_eq_bump_last p (zlen (afull a)) (a_s a)) as (E1 & E2 & E3 & E4 & E5 & E6). done. }
    destruct Es as (E1 & E2 & E4 & E5 & E6).
    pose proof (AInv_lim _ HA) as HLa. pose proof (afull_len a) as Hal. pose proof (zlen_nonneg (a_batch a)).
    destruct HA.
    destruct (roll_back_spec (length (chain s2)) s2 pc) as (R1 & R2 & R3 & R4 & R5 & R6 & R7 & R8 & R9);
      [lia|rewrite E1; lia|rewrite E1, E2; lia|unfold zlen; lia|].
    fold (roll_back_to pc s2) in *. rewrite E1 in R1. rewrite E2 in R2, R3. rewrite E5 in R3. rewrite E4 in R7. rewrite E6 in R9.
    split; [|right; split; [done|split; [|by exists chash; split; [|lia]]]].
    2:{ destruct (core_eq_disconnect p (roll_back_to pc s2)) as (-> & _). exact R1. }
    eapply RInv_core; [|apply core_eq_disconnect].
    assert (Hzc : zlen (take (Z.to_nat (pc + 1)) (chain (a_s a))) = Z.min (pc + 1) (zlen (chain (a_s a)))).
    { unfold zlen. rewrite take_length. lia. }
    assert (Hzf : zlen (take (Z.to_nat (pc + 1)) (fchain (a_s a))) = Z.min (pc + 1) (zlen (fchain (a_s a)))).
    { unfold zlen. rewrite take_length. lia. }
    split; unfold tip_height; rewrite ?R1, ?R2, ?R3, ?R7, ?R9, ?Hzc, ?Hzf; try done; try lia.
    + destruct (AInv_chain a) as [tl Htl]; [by split|]. eapply ChainOK_take; [exact Htl|lia].
    + exists (afull a ++ [bh]). split.
      * unfold afull. rewrite <- (take_drop (Z.to_nat (pc + 1)) (chain (a_s a))) at 2. rewrite <- !app_assoc. by eexists.
      * rewrite R4. apply conn_acc_wm. by split.
    + destruct (zlen (fchain (a_s a)) - 1 >? pc) eqn:E; lia.
    + rewrite a_cpT0. unfold tip_height. symmetry. apply (find_next_cp_same P 0); [apply (wf_cps P HP)|lia|].
      intros d Hd Hb. assert (d.1 <= pc) by (apply Hp4; [done|lia]). lia.
Qed.

Definition ReorgFacts (now : Z) (c : list header) (bh : header) (rest : list header)
           (backHead : header) (backH : Z) (c' : list header) : Prop :=
  c !! Z.to_nat backH = Some backHead /\ 0 <= backH < zlen c - 1 /\ hid backHead = hprev bh /\
  hid bh ∉ map hid c /\
  (find_prev_cp P (zlen c)).1 <= backH /\
  all_valid P now (take (Z.to_nat (backH + 1)) c) (bh :: rest) /\
  wsum (drop (Z.to_nat (backH + 1)) c) < wsum (bh :: rest) /\
  c' = take (Z.to_nat (backH + 1)) c ++ [bh].

Lemma Live_tail a x rest : Live a (x :: rest) -> a_batch a = [] -> Live a rest.
Proof.
  intros (HA & Hr & Hcp & Hroom & Hconn & Hlink) Hb. split; [done|]. split; [done|]. split; [done|].
  split; [rewrite zlen_cons in Hroom; lia|]. split; [|by rewrite Hb].
  destruct rest as [|y t]; [done|]. cbn in Hconn. by apply andb_true_iff in Hconn as [_ ?].
Qed.

Lemma step_nonconn_spec now p a bh rest tp :
  Live a (bh :: rest) -> last (afull a) = Some tp -> hprev bh <> hid tp -> U bh -> T now ->
  zlen (afull a) + zlen (bh :: rest) <= LIMIT ->
  a_batch a = [] /\
  match step_header P now p a bh rest with
  | Continue a' =>
     (a' = a /\ Live a rest /\ hid bh ∈ map hid (chain (a_s a))) \/
     (exists backHead backH, a' = reorg_acc p a bh backHead backH /\ Live a' rest /\ a_batch a' = [] /\
        ReorgFacts now (chain (a_s a)) bh rest backHead backH (chain (a_s a')))
  | Break _ => False
  | Return s' => RInv s' /\ chain s' = chain (a_s a)
  end.
Proof.
  intros HL Hlast Hp HUb HT Hlim. pose proof HL as (HA & Hr & Hcp & Hroom & Hconn & Hlink).
  assert (Hb : a_batch a = []).
  { destruct (a_batch a) eqn:E; [done|]. exfalso. apply Hp. eapply Hlink; eauto. }
  split; [exact Hb|].
  assert (Hfull : afull a = chain (a_s a)) by (unfold afull; rewrite Hb; apply app_nil_r).
  destruct (AInv_tip _ HA) as (tp' & Hl1 & Hl2). assert (tp' = tp) by congruence. subst tp'.
  rewrite Hfull in *. set (s := a_s a) in *.
  assert (Hcp0 : forall ch chash, nextCp s = Some (ch, chash) -> ch <> 0).
  { intros ch chash E. rewrite Hcp in E. pose proof (zlen_pos _ (AInv_chain_ne _ HA)).
    fold s in H. apply next_cp_pos in E; lia. }
  rewrite (step_nonconn_eq P now p a bh rest _ Hl2) by (first [exact Hcp0 | cbn; congruence]).
  cbn zeta. fold s. cbn [nhdr nheight].
  assert (HR : RInv s) by (by apply AInv_RInv).
  assert (HRd : RInv (disconnect p s)) by (eapply RInv_core; [exact HR|apply core_eq_disconnect]).
  destruct (AInv_chain _ HA) as [tl Htl]. fold s in Htl.
  pose proof (co_nodup _ _ _ _ _ Htl) as Hnd. pose proof (ChainOK_linked _ _ _ _ _ Htl) as Hlk.
  pose proof (co_lim _ _ _ _ _ Htl) as HLc.
  destruct (negb (is_sync s p) && negb (headers_synced P now s)); [done|].
  destruct (hid bh =? hid tp) eqn:Eh.
  { left. split; [done|]. split; [by eapply Live_tail|].
    assert (hid bh = hid tp) as -> by lia. apply elem_of_list_fmap_1. rewrite last_lookup in Hlast.
    eapply elem_of_list_lookup_2; eauto. }
  destruct (fetch_header (chain s) (hid bh)) as [[h0 i0]|] eqn:Ef.
  { left. split; [done|]. split; [by eapply Live_tail|].
    apply fetch_header_Some in Ef as (n & _ & Hn & <-). apply elem_of_list_fmap_1. eapply elem_of_list_lookup_2; eauto. }
  apply fetch_header_None in Ef.
  destruct (fetch_header (chain s) (hprev bh)) as [[backHead backH]|] eqn:Eb; [|done].
  apply fetch_header_Some in Eb as (n & -> & Hn & Hbh).
  destruct (Z.of_nat n <? _) eqn:Efloor; [done|].
  pose proof (lookup_lt_Some _ _ _ Hn) as Hnlt.
  assert (HnT : Z.of_nat n < zlen (chain s) - 1).
  { destruct (decide (Z.of_nat n = zlen (chain s) - 1)) as [Heq|Hne]; [|unfold zlen in *; lia].
    exfalso. apply Hp. rewrite last_lookup in Hlast. replace (pred (length (chain s))) with n in Hlast by (unfold zlen in *; lia).
    congruence. }
  set (pre := take (Z.to_nat (Z.of_nat n + 1)) (chain s)).
  assert (Hpre : pre = take n (chain s) ++ [backHead]).
  { subst pre. replace (Z.to_nat (Z.of_nat n + 1)) with (S n) by lia. by apply take_S_r. }
  assert (Hzpre : zlen pre = Z.of_nat n + 1) by (subst pre; apply zlen_take; unfold zlen in *; lia).
  destruct (reorg_check _ _ _ _ _ _ _ _) as [total|] eqn:Erc; [|done].
  replace (Z.of_nat n) with (zlen pre - 1) in Erc at 2 by lia.
  apply (reorg_check_spec P now (chain s) (wf_bpr P HP)) in Erc.
  2:{ exists (take n (chain s)), [backHead]. split; [done|]. split; [done|]. cbn. do 2 f_equal.
      unfold zlen. rewrite take_length. lia. }
  2:{ rewrite Hpre. by rewrite last_snoc. }
  2:{ intros k Hk. rewrite zlen_cons, zlen_nil in Hk. symmetry. apply at_h_take; [done|unfold zlen in *; lia|lia]. }
  2:{ rewrite zlen_cons, zlen_nil. rewrite Hb, zlen_nil in Hroom. lia. }
  2:{ lia. }
  2:{ cbn. apply andb_true_iff. split; [lia|]. exact Hconn. }
  destruct Erc as [Htot Hav].
  rewrite (known_work_spec (chain s) Hnd Hlk HLc).
  2:{ pose proof (zlen_nonneg (chain s)). lia. }
  2:{ lia. }
  2:{ rewrite zn_eq by (unfold LIMIT in *; lia). lia. }
  2:{ left. pose proof (a_wm _ HA) as HW. rewrite Hfull in HW. fold s in HW. split; [intros E; rewrite E in HW; by destruct (WM_len _ _ HW)|].
      rewrite take_ge; [done|unfold zlen; lia]. }
  replace (zlen (chain s) - 1 + 1) with (zlen (chain s)) by lia.
  rewrite (take_ge (chain s)) by (unfold zlen; lia).
  destruct (_ >? total) eqn:E1; [done|]. destruct (_ =? total) eqn:E2; [done|].
  right. exists backHead, (Z.of_nat n). split; [done|].
  (* the state after rollback and rewrite *)
  set (s1 := set_sync (Some p) s).
  pose proof (a_fne _ HA) as Hfne. pose proof (a_fle _ HA) as Hfle. pose proof (a_ftip _ HA) as Hft. fold s in Hfne, Hfle, Hft.
  destruct (roll_back_spec (length (chain s1)) s1 (Z.of_nat n)) as (R1 & R2 & R3 & R4 & R5 & R6 & R7 & R8 & R9);
    [lia|done|done|unfold zlen; cbn; lia|].
  fold (roll_back_to (Z.of_nat n) s1) in *. set (s2 := roll_back_to (Z.of_nat n) s1) in *.
  change (chain s1) with (chain s) in R1. change (fchain s1) with (fchain s) in R2, R3.
  change (ftipVar s1) with (ftipVar s) in R3. change (nextCp s1) with (nextCp s) in R7. change (trap s1) with (trap s) in R9.
  fold pre in R1.
  cbn [all_valid] in Hav. destruct Hav as (Hv1 & Hcp1 & Hav).
  destruct (ChainOK_take P U T (chain s) tl (Z.of_nat n + 1) Htl ltac:(lia)) as [tl2 Htl2]. fold pre in Htl2.
  assert (Hok3 : ChainOK P U T (pre ++ [bh]) (tl2 ++ [(bh, now)])) by (apply ChainOK_snoc; try done; lia).
  assert (Hs4 : reorg_state p s bh backHead (Z.of_nat n) =
                set_hl [{| nheight := Z.of_nat n; nhdr := backHead |}; {| nheight := Z.of_nat n + 1; nhdr := bh |}]
                  (set_chain (chain s2 ++ [bh]) s2)).
  { unfold reorg_state. fold s1 s2. rewrite write_headers_ok; [done|done| |].
    - cbn [heights_from snd]. rewrite R1, Hzpre. lia.
    - rewrite R1. apply (co_nodup _ _ _ _ _ Hok3). }
  assert (Hzf : zlen (take (Z.to_nat (Z.of_nat n + 1)) (fchain s)) = Z.min (Z.of_nat n + 1) (zlen (fchain s))).
  { unfold zlen. rewrite take_length. lia. }
  assert (HcpT : nextCp s = find_next_cp P (zlen (pre ++ [bh]) - 1)).
  { pose proof (a_cpT _ HA) as HcT. fold s in HcT. rewrite HcT. unfold tip_height. symmetry. rewrite zlen_snoc.
    apply (find_next_cp_same P 0); [apply (wf_cps P HP)|lia|].
    intros d Hd Hbd. pose proof (find_prev_cp_spec P (zlen (chain s) - 1 + 1) (wf_cps P HP)) as (_ & _ & _ & Hp4).
    specialize (Hp4 d Hd ltac:(lia)). lia. }
  assert (HA' : AInv (reorg_acc p a bh backHead (Z.of_nat n))).
  { split; unfold afull, tip_height; cbn [reorg_acc a_s a_batch]; fold s; rewrite Hs4, ?Hb;
      cbn [chain fchain hl nextCp ftipVar trap set_hl set_chain fmap list_fmap]; rewrite ?app_nil_r, ?R1, ?R2, ?R3, ?R7, ?R9, ?Hzf.
    - apply (a_trap _ HA).
    - by eexists.
    - done.
    - exists (take n (chain s)), [backHead; bh]. split; [by rewrite Hpre, <- app_assoc|]. split; [done|].
      cbn. replace (zlen (take n (chain s))) with (Z.of_nat n) by (unfold zlen; rewrite take_length; lia). done.
    - rewrite zlen_nil. unfold zlen. cbn. lia.
    - lia.
    - rewrite zlen_snoc. lia.
    - destruct (zlen (fchain s) - 1 >? Z.of_nat n) eqn:E; lia.
    - exact HcpT. }
  split; [|split; [exact Hb|]].
  - split; [exact HA'|]. split; [exact Hr|]. split; [|split; [|split]].
    + unfold afull. cbn [reorg_acc a_s a_batch]. fold s. rewrite Hs4, Hb. cbn [chain nextCp set_hl set_chain fmap list_fmap].
      rewrite app_nil_r, R1, R7. exact HcpT.
    + cbn [reorg_acc a_batch]. rewrite zlen_cons in Hroom. lia.
    + destruct rest as [|y t]; [done|]. cbn in Hconn. by apply andb_true_iff in Hconn as [_ ?].
    + cbn [reorg_acc a_batch]. by rewrite Hb.
  - split; [by replace (Z.to_nat (Z.of_nat n)) with n by lia|]. split; [lia|]. split; [done|]. split; [done|].
    split; [replace (zlen (chain s)) with (zlen (chain s) - 1 + 1) by lia; lia|].
    split; [by repeat split|]. split; [lia|].
    cbn [reorg_acc a_s]. fold s. rewrite Hs4. cbn [chain set_hl set_chain]. by rewrite R1.
Qed.

(* ---------- the loop, connect phase ---------- *)
Definition cp_height_b (h : Z) : bool := existsb (fun cp => cp.1 =? h) (checkpoints P).
Lemma cp_height_b_iff h : cp_height_b h = true <-> is_cp_height h.
Proof.
  unfold cp_height_b, is_cp_height. rewrite existsb_exists. split.
  - intros ([ch chash] & Hin & Heq). cbn in Heq. exists chash. apply elem_of_list_In. by replace h with ch by lia.
  - intros [chash Hin]. exists (h, chash). split; [by apply elem_of_list_In|cbn; lia].
Qed.
Fixpoint upto_cp (base : Z) (hs : list header) : list header :=
  match hs with
  | [] => []
  | x :: t => if cp_height_b (base + 1) then [x] else x :: upto_cp (base + 1) t
  end.

Definition CutFacts (now : Z) (full chain0 hs after : list header) : Prop :=
  exists ext x rest, hs = ext ++ x :: rest /\ all_valid P now full ext /\
    valid_next P (full ++ ext) now x = true /\
    (exists chash, (zlen (full ++ ext), chash) ∈ checkpoints P /\ hid x <> chash) /\
    after = take (Z.to_nat ((find_prev_cp P (zlen (full ++ ext))).1 + 1)) chain0.

Lemma conn_acc_chain p a bh : chain (a_s (conn_acc P p a bh)) = chain (a_s a).
Proof.
  unfold conn_acc. cbn [a_s chain set_hl]. apply (core_eq_bump_last p (zlen (afull a)) (a_s a)).
Qed.

Lemma loop_connect now p : T now -> forall hs a,
  Live a hs ->
  (forall x t tp, hs = x :: t -> last (afull a) = Some tp -> hprev x = hid tp) ->
  Forall U hs -> zlen (afull a) + zlen hs <= LIMIT ->
  match loop P now p a hs with
  | Continue _ => False
  | Break a' => Final a' /\ chain (a_s a') = chain (a_s a) /\
                afull a' = afull a ++ upto_cp (zlen (afull a) - 1) hs /\
                all_valid P now (afull a) (upto_cp (zlen (afull a) - 1) hs)
  | Return s' => RInv s' /\ ~ all_valid P now (afull a) hs /\
                 (chain s' = chain (a_s a) \/ CutFacts now (afull a) (chain (a_s a)) hs (chain s'))
  end.
Proof.
  intros HT. induction hs as [|bh rest IH]; intros a HL Hfirst HUs Hlim; cbn [loop].
  { split; [by apply Live_nil|]. split; [done|]. cbn. by rewrite app_nil_r. }
  pose proof HL as (HA & _). destruct (AInv_tip _ HA) as (tp & Hl1 & Hl2).
  pose proof (Hfirst bh rest tp eq_refl Hl1) as Hp.
  apply Forall_cons in HUs as [HUb HUr]. rewrite zlen_cons in Hlim. pose proof (zlen_nonneg rest) as Hnn.
  pose proof (step_connect_spec now p a bh rest tp HL Hl1 Hp HUb HT ltac:(lia)) as Hstep.
  cbn [upto_cp]. replace (zlen (afull a) - 1 + 1) with (zlen (afull a)) by lia.
  destruct (step_header P now p a bh rest) as [s'|a'|a'].
  - destruct Hstep as [HR [[Hv Hc]|(Hv & Hc & chash & Hin & Hne)]].
    + split; [done|]. split; [|by left]. cbn [all_valid]. intros [Hv' _]. congruence.
    + split; [done|]. split.
      * cbn [all_valid]. intros (_ & Hcp' & _). apply Hne. symmetry. by apply (Hcp' _ Hin).
      * right. exists [], bh, rest. cbn [app all_valid]. rewrite app_nil_r. split; [done|]. split; [done|]. split; [done|].
        split; [by exists chash|done].
  - destruct Hstep as (-> & HL' & Hv & Hncp).
    assert (Hb : cp_height_b (zlen (afull a)) = false).
    { destruct (cp_height_b (zlen (afull a))) eqn:E; [|done]. apply cp_height_b_iff in E. contradiction. }
    assert (Hcpat : cp_at P (zlen (afull a)) bh).
    { intros d Hd Heq. exfalso. apply Hncp. exists d.2. rewrite <- Heq. by destruct d. }
    rewrite Hb. specialize (IH (conn_acc P p a bh) HL').
    rewrite conn_acc_full, conn_acc_chain, zlen_snoc in IH.
    replace (zlen (afull a) + 1 - 1) with (zlen (afull a)) in IH by lia.
    destruct (loop P now p (conn_acc P p a bh) rest) as [s'|a'|a'].
    + destruct IH as (HR & Hnav & Hc); [|done|lia|].
      { intros x t tp' -> Hl'. destruct HL' as (_ & _ & _ & _ & _ & Hlink). eapply Hlink; [|done|by rewrite conn_acc_full].
        unfold conn_acc. cbn [a_batch]. by destruct (a_batch a). }
      split; [done|]. split; [cbn [all_valid]; tauto|].
      destruct Hc as [Hc|(ext & x & rest' & -> & Hav & Hvx & Hcpx & Hafter)]; [by left|right].
      exists (bh :: ext), x, rest'. rewrite <- !app_assoc in *. cbn [app all_valid] in *. done.
    + destruct IH as [].
      { intros x t tp' -> Hl'. destruct HL' as (_ & _ & _ & _ & _ & Hlink). eapply Hlink; [|done|by rewrite conn_acc_full].
        unfold conn_acc. cbn [a_batch]. by destruct (a_batch a). }
      all: (done || lia).
    + destruct IH as (HF & Hc & Hfull & Hav); [|done|lia|].
      { intros x t tp' -> Hl'. destruct HL' as (_ & _ & _ & _ & _ & Hlink). eapply Hlink; [|done|by rewrite conn_acc_full].
        unfold conn_acc. cbn [a_batch]. by destruct (a_batch a). }
      split; [done|]. split; [done|]. rewrite <- app_assoc in Hfull. split; [done|]. cbn [all_valid]. done.
  - destruct Hstep as (-> & HF & Hv & Hcph & Hcpat).
    assert (Hb : cp_height_b (zlen (afull a)) = true) by (by apply cp_height_b_iff).
    rewrite Hb. split; [done|]. split; [apply conn_acc_chain|].
    split; [apply conn_acc_full|]. cbn [all_valid]. done.
Qed.

(* ---------- how one headers message changes the chain ---------- *)
Definition known (before skip : list header) : Prop := forall y, y ∈ skip -> hid y ∈ map hid before.

Inductive Trans (now : Z) (before hs after : list header) : Prop :=
| T_unch : after = before -> Trans now before hs after
| T_ext skip run : hs = skip ++ run -> known before skip -> run <> [] ->
    all_valid P now before (upto_cp (zlen before - 1) run) ->
    after = before ++ upto_cp (zlen before - 1) run -> Trans now before hs after
| T_cut skip run : hs = skip ++ run -> known before skip ->
    CutFacts now before before run after -> Trans now before hs after
| T_reorg skip bh rest backHead backH mid : hs = skip ++ bh :: rest -> known before skip ->
    ReorgFacts now before bh rest backHead backH mid ->
    after = mid ++ upto_cp (zlen mid - 1) rest -> Trans now before hs after.

Lemma known_cons before x skip : hid x ∈ map hid before -> known before skip -> known before (x :: skip).
Proof. intros Hx Hk y [->|Hy]%elem_of_cons; [done|by apply Hk]. Qed.
Lemma known_nil before : known before [].
Proof. intros y Hy. by apply elem_of_nil in Hy. Qed.

Lemma Trans_skip now before x hs after : hid x ∈ map hid before -> Trans now before hs after ->
  Trans now before (x :: hs) after.
Proof.
  intros Hx [H|skip run -> Hk Hne Hav Ha|skip run -> Hk Hc|skip bh rest backHead backH mid -> Hk Hr Ha].
  - by apply T_unch.
  - eapply (T_ext _ _ _ _ (x :: skip) run); eauto using known_cons.
  - eapply (T_cut _ _ _ _ (x :: skip) run); eauto using known_cons.
  - eapply (T_reorg _ _ _ _ (x :: skip)); eauto using known_cons.
Qed.

Lemma all_valid_first now pre x t tp : all_valid P now pre (x :: t) -> last pre = Some tp -> hprev x = hid tp.
Proof.
  intros (Hv & _) Hl. rewrite (valid_next_unfold P _ _ _ _ Hl) in Hv. lia.
Qed.

Lemma loop_spec now p : T now -> forall hs a,
  Live a hs -> a_batch a = [] -> Forall U hs -> zlen (afull a) + zlen hs <= LIMIT ->
  match loop P now p a hs with
  | Continue _ => False
  | Break a' => Final a' /\ Trans now (chain (a_s a)) hs (afull a')
  | Return s' => RInv s' /\ Trans now (chain (a_s a)) hs (chain s')
  end.
Proof.
  intros HT. induction hs as [|bh rest IH]; intros a HL Hb HUs Hlim.
  { cbn [loop]. split; [by apply Live_nil|]. apply T_unch. unfold afull. rewrite Hb. apply app_nil_r. }
  assert (Hfull : afull a = chain (a_s a)) by (unfold afull; rewrite Hb; apply app_nil_r).
  pose proof HL as (HA & _). destruct (AInv_tip _ HA) as (tp & Hl1 & Hl2).
  destruct (decide (hprev bh = hid tp)) as [Hp|Hp].
  - pose proof (loop_connect now p HT (bh :: rest) a HL) as Hlc. rewrite Hfull in Hlc.
    destruct (loop P now p a (bh :: rest)) as [s'|a'|a'].
    + destruct Hlc as (HR & _ & Hc); [|done|by rewrite <- Hfull|].
      { intros x t tp' [= <- <-] Hl'. rewrite <- Hfull in Hl'. congruence. }
      split; [done|]. destruct Hc as [Hc|Hc]; [by apply T_unch|].
      eapply (T_cut _ _ _ _ [] (bh :: rest)); [done|apply known_nil|done].
    + destruct Hlc; [|done|by rewrite <- Hfull].
      intros x t tp' [= <- <-] Hl'. rewrite <- Hfull in Hl'. congruence.
    + destruct Hlc as (HF & Hc & Hfa & Hav); [|done|by rewrite <- Hfull|].
      { intros x t tp' [= <- <-] Hl'. rewrite <- Hfull in Hl'. congruence. }
      split; [done|]. eapply (T_ext _ _ _ _ [] (bh :: rest)); [done|apply known_nil|done|done|done].
  - cbn [loop]. apply Forall_cons in HUs as [HUb HUr].
    destruct (step_nonconn_spec now p a bh rest tp HL Hl1 Hp HUb HT Hlim) as [_ Hstep].
    rewrite zlen_cons in Hlim.
    destruct (step_header P now p a bh rest) as [s'|a'|a'].
    + destruct Hstep as [HR Hc]. split; [done|]. by apply T_unch.
    + destruct Hstep as [(-> & HL' & Hk)|(backHead & backH & -> & HL' & Hb' & HRF)].
      * specialize (IH a HL' Hb HUr ltac:(lia)).
        destruct (loop P now p a rest) as [s'|a'|a']; [|done|].
        -- destruct IH as [HR HTr]. split; [done|]. by apply Trans_skip.
        -- destruct IH as [HR HTr]. split; [done|]. by apply Trans_skip.
      * set (a' := reorg_acc p a bh backHead backH) in *.
        assert (Hfull' : afull a' = chain (a_s a')) by (unfold afull; rewrite Hb'; apply app_nil_r).
        pose proof HRF as (R1 & R2 & R3 & R4 & R5 & R6 & R7 & R8).
        cbn [all_valid] in R6. destruct R6 as (Hv & Hcpat & Hav). rewrite <- R8 in Hav.
        pose proof (loop_connect now p HT rest a' HL') as Hlc. rewrite Hfull' in Hlc.
        assert (Hz : zlen (chain (a_s a')) <= zlen (chain (a_s a))).
        { rewrite R8, zlen_snoc. unfold zlen. rewrite take_length. unfold zlen in R2. lia. }
        destruct (loop P now p a' rest) as [s'|a''|a''].
        -- destruct Hlc as (_ & Hn & _); [|done|rewrite Hfull in Hlim; lia|by destruct (Hn Hav)].
           intros x t tp' -> Hl'. by eapply all_valid_first.
        -- destruct Hlc; [|done|rewrite Hfull in Hlim; lia].
           intros x t tp' -> Hl'. by eapply all_valid_first.
        -- destruct Hlc as (HF & Hc & Hfa & _); [|done|rewrite Hfull in Hlim; lia|].
           { intros x t tp' -> Hl'. by eapply all_valid_first. }
           split; [done|]. eapply (T_reorg _ _ _ _ [] bh rest); [done|apply known_nil|exact HRF|done].
    + done.
Qed.

(* ---------- handleHeadersMsg ---------- *)
Definition acc0 (s : state) : acc := {| a_s := s; a_batch := []; a_recvcp := false; a_finalh := 0 |}.

Lemma Inv_Live s hs : Inv s -> zlen hs < memCap P -> headers_connected hs = true -> Live (acc0 s) hs.
Proof.
  intros [] Hlen Hconn. unfold Live, afull, acc0; cbn [a_s a_batch a_recvcp fmap list_fmap]. rewrite app_nil_r.
  split; [|split; [done|split; [done|split; [rewrite zlen_nil; lia|split; [done|done]]]]].
  split; unfold afull; cbn [a_s a_batch fmap list_fmap]; rewrite ?app_nil_r; try done.
  rewrite zlen_nil. pose proof (WM_len _ _ i_wm0). lia.
Qed.

Definition finalize (a : acc) : state :=
  let s1 := write_headers (a_batch a) (a_s a) in
  if a_recvcp a then set_cp (find_next_cp P (a_finalh a)) s1 else s1.

Lemma finalize_spec a : Final a -> Inv (finalize a) /\ chain (finalize a) = afull a.
Proof.
  intros [HA Hcp]. unfold finalize.
  assert (Hw : exists s1, write_headers (a_batch a) (a_s a) = s1 /\ chain s1 = afull a /\ fchain s1 = fchain (a_s a) /\
     hl s1 = hl (a_s a) /\ nextCp s1 = nextCp (a_s a) /\ ftipVar s1 = ftipVar (a_s a) /\ trap s1 = trap (a_s a)).
  { destruct (a_batch a) as [|e es] eqn:Eb.
    - exists (a_s a). unfold afull. rewrite Eb. cbn. by rewrite app_nil_r.
    - eexists. split; [|]. { apply write_headers_ok; [done|rewrite <- Eb; apply (a_heights _ HA)|].
        rewrite <- Eb. destruct (a_chain _ HA) as [tl Htl]. apply (co_nodup _ _ _ _ _ Htl). }
      unfold afull. rewrite Eb. done. }
  destruct Hw as (s1 & -> & E1 & E2 & E3 & E4 & E5 & E6).
  pose proof (afull_len a) as Hal. pose proof (zlen_nonneg (a_batch a)).
  destruct HA. destruct (a_recvcp a).
  - split; [|done]. split; unfold tip_height; cbn [chain fchain hl nextCp ftipVar trap set_cp]; rewrite ?E1, ?E2, ?E3, ?E5, ?E6; try done; try lia.
    by rewrite Hcp.
  - split; [|done]. split; unfold tip_height; rewrite ?E1, ?E2, ?E3, ?E4, ?E5, ?E6; try done; lia.
Qed.

Lemma resync_spec s : RInv s -> Inv (resync s) /\ chain (resync s) = chain s.
Proof.
  intros []. destruct r_chain0 as [tl Htl]. pose proof (ChainOK_ne _ _ _ _ _ Htl) as Hne.
  destruct r_wm0 as (full & [b Hb] & HW).
  unfold resync, chain_tip. destruct (last (chain s)) as [t|] eqn:Et; [|by apply last_None in Et].
  destruct (WM_last _ _ HW) as (tf & Hlf & Hlw). rewrite Hlw. cbn [nheight nhdr].
  assert (Hsingle : Inv (set_hl [{| nheight := tip_height s; nhdr := t |}] s)).
  { split; unfold tip_height; cbn [chain fchain hl nextCp ftipVar trap set_hl]; try done. by eexists. by apply WM_single. }
  destruct ((zlen full - 1 =? tip_height s) && (hid tf =? hid t)) eqn:E; [|done].
  split; [|done]. unfold tip_height in E.
  assert (b = []).
  { rewrite Hb, zlen_app in E. destruct b; [done|]. rewrite zlen_cons in E. pose proof (zlen_nonneg b). lia. }
  subst b. rewrite app_nil_r in Hb. subst full. split; try done. by eexists.
Qed.

Lemma handle_headers_spec now p hs s :
  Inv s -> T now -> Forall U hs -> zlen hs < memCap P -> zlen (chain s) + zlen hs <= LIMIT ->
  Inv (handle_headers P now p hs s) /\ Trans now (chain s) hs (chain (handle_headers P now p hs s)).
Proof.
  intros HI HT HUs Hlen Hlim. unfold handle_headers.
  destruct hs as [|h0 hs0] eqn:Ehs; [split; [done|by apply T_unch]|]. rewrite <- Ehs in *.
  destruct (headers_connected hs) eqn:Hconn; cbn [negb].
  2:{ split; [eapply Inv_core; [done|apply core_eq_disconnect]|]. apply T_unch. apply (core_eq_disconnect p s). }
  pose proof (loop_spec now p HT hs (acc0 s) (Inv_Live s hs HI Hlen Hconn) eq_refl HUs) as Hl.
  unfold afull in Hl at 1. cbn [acc0 a_s a_batch fmap list_fmap] in Hl. rewrite app_nil_r in Hl.
  specialize (Hl Hlim). fold (acc0 s).
  destruct (loop P now p (acc0 s) hs) as [s'|a'|a']; [|done|].
  - destruct Hl as [HR HTr]. destruct (resync_spec s' HR) as [HI' Hc]. split; [done|]. by rewrite Hc.
  - destruct Hl as [HF HTr]. destruct (finalize_spec a' HF) as [HI' Hc]. fold (finalize a').
    destruct (resync_spec _ (Inv_RInv _ HI')) as [HI'' Hc']. split; [done|]. by rewrite Hc', Hc.
Qed.

(* ---------- the other operations ---------- *)
Lemma core_eq_start_sync s : core_eq s (start_sync s).
Proof.
  unfold start_sync. destruct (syncPeer s); [apply core_eq_refl|].
  destruct (fold_left _ _ _); by repeat split.
Qed.
Lemma core_eq_new_peer p s : core_eq s (new_peer p s).
Proof.
  unfold new_peer. destruct (negb _); [apply core_eq_refl|].
  eapply core_eq_trans; [|apply core_eq_start_sync]. by repeat split.
Qed.
Lemma core_eq_handle_inv now p x s : core_eq s (handle_inv P now p x s).
Proof.
  unfold handle_inv. destruct x; [|apply core_eq_refl].
  destruct (_ && _); [apply core_eq_refl|]. destruct (headers_synced P now s); [|apply core_eq_refl].
  destruct (fetch_header _ _) as [[? ?]|]; [apply core_eq_bump_last|apply core_eq_refl].
Qed.

Lemma Inv_reset s t : Inv s -> last (chain s) = Some t ->
  Inv (set_hl [{| nheight := tip_height s; nhdr := t |}] s).
Proof.
  intros [] Ht. split; unfold tip_height; cbn [chain fchain hl nextCp ftipVar trap set_hl]; try done. by apply WM_single.
Qed.

Lemma done_peer_Inv p s : Inv s -> Inv (done_peer p s) /\ chain (done_peer p s) = chain s.
Proof.
  intros HI. unfold done_peer.
  assert (H1 : Inv (set_cands (remove_first p (cands s)) s)) by (eapply Inv_core; [done|apply core_eq_set_cands]).
  destruct (is_sync _ p); [|done].
  set (s2 := set_sync None (set_cands (remove_first p (cands s)) s)).
  assert (H2 : Inv s2) by (eapply Inv_core; [exact H1|apply core_eq_set_sync]).
  unfold chain_tip. destruct (last (chain s2)) as [t|] eqn:Et; [|done].
  split.
  - eapply Inv_core; [apply (Inv_reset s2 t H2 Et)|apply core_eq_start_sync].
  - destruct (core_eq_start_sync (set_hl [{| nheight := tip_height s2; nhdr := t |}] s2)) as (-> & _). done.
Qed.

Lemma fold_add_ev_core evs : forall s, core_eq s (fold_left (fun st e => add_ev e st) evs s).
Proof.
  induction evs as [|e evs IH]; intros s; cbn [fold_left]; [apply core_eq_refl|].
  eapply core_eq_trans; [apply (core_eq_add_ev e)|apply IH].
Qed.

Lemma write_cf_Inv prev fs stop s : Inv s ->
  Inv (write_cf prev fs stop s).1 /\ chain (write_cf prev fs stop s).1 = chain s.
Proof.
  intros HI. unfold write_cf.
  destruct (last (fchain s)) as [tip|]; [|done]. destruct (negb (tip =? prev)); [done|].
  destruct fs as [|f fs0] eqn:Efs; [done|]. rewrite <- Efs. assert (Hfs : 0 < zlen fs) by (subst fs; rewrite zlen_cons; pose proof (zlen_nonneg fs0); lia).
  clear Efs. destruct (fetch_header (chain s) stop) as [[h endh]|] eqn:Ef; [|done].
  destruct (_ <? 0); [done|]. destruct (negb _) eqn:Estart; [done|]. cbn [fst].
  match goal with |- context [fold_left ?f ?l ?s0] => pose proof (fold_add_ev_core l s0) as Hc end.
  split.
  - eapply Inv_core; [|exact Hc].
    apply fetch_header_Some in Ef as (n & -> & Hn & _). apply lookup_lt_Some in Hn.
    destruct HI. split; unfold tip_height; cbn [chain fchain hl nextCp ftipVar trap set_ftip set_fchain]; try done;
      rewrite ?zlen_app; unfold zlen in *; lia.
  - destruct Hc as (-> & _). done.
Qed.

(* a restart: the window is the stored tip alone, the rest is re-read *)
Lemma restart_Inv s : Inv s -> Inv (restart P s) /\ chain (restart P s) = chain s.
Proof.
  intros HI. unfold restart, chain_tip. destruct (last (chain s)) as [t|] eqn:Et; [|done].
  destruct HI. split; [|done].
  split; unfold tip_height; cbn [chain fchain hl nextCp ftipVar trap]; try done. by apply WM_single.
Qed.

(* ---------- operations, histories ---------- *)
Definition wf_op (o : op) : Prop :=
  match o with
  | OHeaders _ now hs => T now /\ Forall U hs /\ zlen hs < memCap P
  | ORollback _ => False
  | OHeadersF _ _ _ _ | OHeadersR _ _ _ _ => False     (* store faults: S2/Faults.v (wf_op_f, step_spec_f) *)
  | _ => True
  end.
Definition op_size (o : op) : Z := match o with OHeaders _ _ hs | OHeadersF _ _ hs _ | OHeadersR _ _ hs _ => zlen hs | _ => 0 end.
Definition ops_size (ops : list op) : Z := foldr (fun o n => op_size o + n) 0 ops.

Definition StepRel (s : state) (o : op) (s' : state) : Prop :=
  match o with
  | OHeaders _ now hs => Trans now (chain s) hs (chain s')
  | _ => chain s' = chain s
  end.

Lemma step_spec s o : Inv s -> wf_op o -> zlen (chain s) + op_size o <= LIMIT ->
  Inv (step P s o) /\ StepRel s o (step P s o).
Proof.
  intros HI Hwf Hlim. destruct o as [p now hs|p now x|p st la full|p|prev fs stop|h| |p now hs k|p now hs k]; cbn [step StepRel wf_op op_size] in *.
  - destruct Hwf as (HT & HUs & Hlen). by apply handle_headers_spec.
  - split; [eapply Inv_core; [done|apply core_eq_handle_inv]|apply (core_eq_handle_inv now p x s)].
  - split; [eapply Inv_core; [done|]|].
    + eapply core_eq_trans; [apply core_eq_put_peer|apply core_eq_new_peer].
    + match goal with |- chain (new_peer p ?s1) = _ => destruct (core_eq_new_peer p s1) as (-> & _) end. done.
  - by apply done_peer_Inv.
  - by apply write_cf_Inv.
  - done.
  - by apply restart_Inv.
  - done.
  - done.
Qed.

Lemma upto_cp_len hs : forall base, zlen (upto_cp base hs) <= zlen hs.
Proof.
  induction hs as [|x hs IH]; intros base; cbn [upto_cp]; [lia|].
  destruct (cp_height_b (base + 1)); rewrite !zlen_cons; [rewrite zlen_nil; pose proof (zlen_nonneg hs); lia|].
  specialize (IH (base + 1)). lia.
Qed.

Lemma Trans_len now before hs after : Trans now before hs after -> zlen after <= zlen before + zlen hs.
Proof.
  pose proof (zlen_nonneg hs).
  intros [->|skip run -> Hk Hne Hav ->|skip run -> Hk Hc|skip bh rest backHead backH mid -> Hk Hr ->].
  - lia.
  - rewrite !zlen_app. pose proof (upto_cp_len run (zlen before - 1)). pose proof (zlen_nonneg skip). lia.
  - destruct Hc as (ext & x & rest & -> & _ & _ & _ & ->). unfold zlen at 1. rewrite take_length.
    unfold zlen. lia.
  - destruct Hr as (_ & R2 & _ & _ & _ & _ & _ & ->). rewrite (zlen_app (_ ++ [bh])), zlen_snoc, zlen_app, zlen_cons.
    match goal with |- context [upto_cp ?b rest] => pose proof (upto_cp_len rest b) end. pose proof (zlen_nonneg skip).
    unfold zlen at 1. rewrite take_length. unfold zlen in *. lia.
Qed.

Lemma step_len s o : Inv s -> wf_op o -> zlen (chain s) + op_size o <= LIMIT ->
  zlen (chain (step P s o)) <= zlen (chain s) + op_size o.
Proof.
  intros HI Hwf Hlim. destruct (step_spec s o HI Hwf Hlim) as [_ Hr].
  destruct o; cbn [StepRel op_size wf_op] in *; try (rewrite Hr; lia); try (exfalso; exact Hwf). by eapply Trans_len.
Qed.

Lemma run_Inv ops : forall s, Inv s -> Forall wf_op ops -> zlen (chain s) + ops_size ops <= LIMIT ->
  Inv (run P s ops) /\ zlen (chain (run P s ops)) <= zlen (chain s) + ops_size ops.
Proof.
  unfold run. induction ops as [|o ops IH]; intros s HI Hwf Hlim; cbn [fold_left ops_size foldr] in *; [split; [done|lia]|].
  apply Forall_cons in Hwf as [Hwo Hwf]. fold (ops_size ops) in *.
  assert (Hnn : 0 <= ops_size ops).
  { clear. induction ops as [|o ops IH]; cbn; [lia|]. fold (ops_size ops). destruct o; cbn; try lia; pose proof (zlen_nonneg hs); lia. }
  pose proof (step_len s o HI Hwo ltac:(lia)) as Hl.
  destruct (step_spec s o HI Hwo ltac:(lia)) as [HI' _].
  destruct (IH _ HI' Hwf ltac:(lia)) as [H1 H2]. split; [done|lia].
Qed.

Lemma init_Inv gfh : Inv (init_state P gfh).
Proof.
  split; cbn; try done.
  - exists []. by apply ChainOK_init.
  - exists [], [genesis P]. done.
Qed.
End Inv.
