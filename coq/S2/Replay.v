(* S2 — shared replay machinery for the block-manager properties (C01, C02,
   C19): observation record, projection of the model state, model-vs-
   implementation comparison. *)
From stdpp Require Import list.
From Coq Require Import ZArith.
From Verif Require Import S2.Model.
Open Scope Z_scope.

(* what the harness reads off the real block manager after every operation *)
Record obs := {
  o_chain : list Z;              (* hashes by height 0..tip, read by height *)
  o_tip : option (Z * Z);        (* ChainTip: (hash, height) *)
  o_lookup : list Z;             (* HeightFromHash for every hash of the tree (-1 = not found) *)
  o_fchain : list Z;             (* filter headers by height *)
  o_ftip : option (Z * Z);       (* filter ChainTip: (value, height) *)
  o_sync : option Z;             (* sync peer id *)
  o_peers : list (Z * Z * bool); (* (id, lastBlock, disconnected), by id *)
  o_back : option (Z * Z);       (* newest in-memory header (height, hash) *)
  o_nextcp : Z;                  (* height of the next checkpoint, -1 if none *)
  o_ftipvar : Z;                 (* in-memory filter header tip *)
  o_events : list ev;            (* notifications emitted by this operation *)
  o_since : list (Z * option (list (Z * Z) * Z)) (* NotificationsSinceHeight h, for some h *)
}.

Definition opt_eqb {A} (f : A -> A -> bool) (a b : option A) : bool :=
  match a, b with Some x, Some y => f x y | None, None => true | _, _ => false end.
Definition pair_eqb (a b : Z * Z) : bool := (a.1 =? b.1) && (a.2 =? b.2).
Fixpoint list_eqb {A} (f : A -> A -> bool) (a b : list A) : bool :=
  match a, b with
  | [], [] => true
  | x :: a', y :: b' => f x y && list_eqb f a' b'
  | _, _ => false
  end.
Definition ev_eqb (a b : ev) : bool :=
  match a, b with
  | EConn x h, EConn y k => (x =? y) && (h =? k)
  | EDisc x h t, EDisc y k u => (x =? y) && (h =? k) && (t =? u)
  | _, _ => false
  end.

Fixpoint insert_peer (q : Z * Z * bool) (l : list (Z * Z * bool)) :=
  match l with
  | [] => [q]
  | x :: r => if q.1.1 <=? x.1.1 then q :: l else x :: insert_peer q r
  end.

(* projection of the model state onto the observables; [hashes] = the hashes
   whose index entries are queried, [since] = heights for the backlog query,
   [ev0] = number of events before the operation *)
Definition project (s : state) (hashes : list Z) (since : list Z) (ev0 : nat) : obs :=
  {| o_chain := map hid (chain s);
     o_tip := match last (chain s) with Some t => Some (hid t, zlen (chain s) - 1) | None => None end;
     o_lookup := map (fun x => match fetch_header (chain s) x with Some (_, h) => h | None => -1 end) hashes;
     o_fchain := fchain s;
     o_ftip := match last (fchain s) with Some t => Some (t, zlen (fchain s) - 1) | None => None end;
     o_sync := syncPeer s;
     o_peers := foldr insert_peer [] (map (fun q => (pid q, lastBlock q, disc q)) (peers s));
     o_back := match last (hl s) with Some n => Some (nheight n, hid (nhdr n)) | None => None end;
     o_nextcp := match nextCp s with Some c => c.1 | None => -1 end;
     o_ftipvar := ftipVar s;
     o_events := drop ev0 (events s);
     o_since := map (fun h => (h, notifs_since h s)) since |}.

Definition since_eqb (a b : Z * option (list (Z * Z) * Z)) : bool :=
  (a.1 =? b.1) && opt_eqb (fun p q => list_eqb pair_eqb p.1 q.1 && (p.2 =? q.2)) a.2 b.2.

Definition obs_eqb (a b : obs) : bool :=
  list_eqb Z.eqb (o_chain a) (o_chain b) &&
  opt_eqb pair_eqb (o_tip a) (o_tip b) &&
  list_eqb Z.eqb (o_lookup a) (o_lookup b) &&
  list_eqb Z.eqb (o_fchain a) (o_fchain b) &&
  opt_eqb pair_eqb (o_ftip a) (o_ftip b) &&
  opt_eqb Z.eqb (o_sync a) (o_sync b) &&
  list_eqb (fun p q => (p.1.1 =? q.1.1) && (p.1.2 =? q.1.2) && Bool.eqb p.2 q.2) (o_peers a) (o_peers b) &&
  opt_eqb pair_eqb (o_back a) (o_back b) &&
  (o_nextcp a =? o_nextcp b) &&
  (o_ftipvar a =? o_ftipvar b) &&
  list_eqb ev_eqb (o_events a) (o_events b) &&
  list_eqb since_eqb (o_since a) (o_since b).

(* a case: parameters, genesis filter header token, the hashes to look up,
   and the trace *)
Record bcase := {
  bid : Z;
  bparams : params;
  bgfh : Z;
  bhashes : list Z;
  btrace : list (op * obs)
}.

Fixpoint first_mismatch (P : params) (hashes : list Z) (s : state) (i : Z) (tr : list (op * obs)) : option Z :=
  match tr with
  | [] => None
  | (o, ob) :: rest =>
    let s' := step P s o in
    let mo := project s' hashes (map fst (o_since ob)) (length (events s)) in
    if obs_eqb mo ob then first_mismatch P hashes s' (i + 1) rest else Some i
  end.

Definition mismatch_row (c : bcase) : list (Z * Z * Z * Z) :=
  match first_mismatch (bparams c) (bhashes c) (init_state (bparams c) (bgfh c)) 0 (btrace c) with
  | Some i => [(bid c, 1, i, 0)]
  | None => []
  end.

(* the model must never issue an ill-formed store operation *)
Definition trap_row (c : bcase) : list (Z * Z * Z * Z) :=
  if trap (run (bparams c) (init_state (bparams c) (bgfh c)) (map fst (btrace c)))
  then [(bid c, 1, -3, 0)] else [].
