(* C15 — executable model of
     pushtx/broadcaster.go  (broadcastHandler + rebroadcast worker, two actors),
     pushtx/error.go        (ParseBroadcastError),
     query.go               (sendTransaction: reply collection + verdict).
   The model follows the code of the working tree, i.e. WITH the two repairs
   recorded in known_findings/C15.json (F11: MarkAsConfirmed selects on quit;
   F16: a reject only counts when its sender asked for the transaction).
   No proofs in this file. *)
From Coq Require Import ZArith List Bool.
Import ListNotations.
Open Scope Z_scope.

(* ------------------------------------------------------------------ *)
(* pushtx.BroadcastErrorCode *)
Inductive code := Unknown | Invalid | InsufficientFee | Mempool | Confirmed.

Definition code_eqb (a b : code) : bool :=
  match a, b with
  | Unknown, Unknown | Invalid, Invalid | InsufficientFee, InsufficientFee
  | Mempool, Mempool | Confirmed, Confirmed => true
  | _, _ => false
  end.

Definition all_codes : list code := [Unknown; Invalid; InsufficientFee; Mempool; Confirmed].

(* ------------------------------------------------------------------ *)
(* (c) ParseBroadcastError.  The reason text enters as the six substring
   tests the function performs, in the order of its switch. *)
Record reason := {
  r_conflict : bool;   (* "txn-mempool-conflict" *)
  r_inmempool : bool;  (* "txn-already-in-mempool" *)
  r_known : bool;      (* "txn-already-known" *)
  r_spent : bool;      (* "already spent" *)
  r_have : bool;       (* "already have transaction" *)
  r_exists : bool      (* "transaction already exists" *)
}.

Definition RejectInvalid := 16.         (* 0x10 *)
Definition RejectDuplicate := 18.       (* 0x12 *)
Definition RejectNonstandard := 64.     (* 0x40 *)
Definition RejectInsufficientFee := 66. (* 0x42 *)

Definition parse_code (rc : Z) (r : reason) : code :=
  if (rc =? RejectInvalid) || (rc =? RejectNonstandard) then Invalid
  else if rc =? RejectInsufficientFee then InsufficientFee
  else if rc =? RejectDuplicate then
    if r_conflict r then Invalid
    else if r_inmempool r then Mempool
    else if r_known r then Confirmed
    else if r_spent r then Invalid
    else if r_have r then Mempool
    else if r_exists r then Confirmed
    else Unknown
  else Unknown.

(* ------------------------------------------------------------------ *)
(* finite sets of ids as duplicate-free lists *)
Definition mem (x : Z) (l : list Z) : bool := existsb (Z.eqb x) l.
Definition add (x : Z) (l : list Z) : list Z := if mem x l then l else l ++ [x].
Definition remove (x : Z) (l : list Z) : list Z := filter (fun y => negb (Z.eqb y x)) l.

(* ------------------------------------------------------------------ *)
(* (b) sendTransaction.  Messages reaching the checkResponse closure, in the
   order the query loop hands them over; [hit] = the message names the
   transaction's hash.  MClose = the peer's quit channel got closed by the
   delayed closer or the per-peer timeout (an arbitrary moment). *)
Inductive pmsg :=
  | MGetData (p : Z) (hit : bool)
  | MReject (p : Z) (hit : bool) (c : code)
  | MClose (p : Z).

Record qst := {
  replies : list Z;                (* map[int32]struct{}            *)
  rejections : list (Z * code);    (* map[int32]*BroadcastError     *)
  rejcodes : list code;            (* map[code]int as a multiset    *)
  closed : list Z                  (* peers whose peerQuit is closed *)
}.

Definition q_init : qst := {| replies := []; rejections := []; rejcodes := []; closed := [] |}.

Definition set_rej (p : Z) (c : code) (l : list (Z * code)) : list (Z * code) :=
  (p, c) :: filter (fun e => negb (Z.eqb (fst e) p)) l.

Definition q_step (s : qst) (m : pmsg) : qst :=
  match m with
  | MGetData p hit =>
    if mem p (closed s) then s else
    if hit then {| replies := add p (replies s); rejections := rejections s;
                   rejcodes := rejcodes s; closed := closed s |}
    else s
  | MReject p hit c =>
    if mem p (closed s) then s else
    if negb hit then s else
    if negb (mem p (replies s)) then s else    (* F16 repair: sender never asked for the tx *)
    {| replies := replies s; rejections := set_rej p c (rejections s);
       rejcodes := c :: rejcodes s; closed := p :: closed s |}
  | MClose p =>
    {| replies := replies s; rejections := rejections s; rejcodes := rejcodes s;
       closed := p :: closed s |}
  end.

Definition collect (ms : list pmsg) : qst := fold_left q_step ms q_init.

Definition count_code (cs : list code) (c : code) : Z :=
  Z.of_nat (length (filter (code_eqb c) cs)).

(* `for code, count := range rejectCodes` in iteration order [order] *)
Definition most_rejected (order : list code) (cs : list code) : code * Z :=
  fold_left (fun (acc : code * Z) c =>
               if count_code cs c >? snd acc then (c, count_code cs c) else acc)
            order (Unknown, 0).

Inductive verdict := VNone | VErr (c : code) | VBadMapping.

Definition first_reject_with (rej : list (Z * code)) (c : code) : verdict :=
  if existsb (fun e => code_eqb (snd e) c) rej then VErr c else VBadMapping.

(* threshold = tnum/tden, tden > 0 (the code holds it as a float32; the
   harness sweeps the float comparison against this one, aux table 3) *)
Definition thr_reached (inv n tnum tden : Z) : bool := inv * tden >=? tnum * n.

Definition verdict_of (order : list code) (s : qst) (tnum tden : Z) : verdict :=
  let nrep := Z.of_nat (length (replies s)) in
  let nrej := Z.of_nat (length (rejections s)) in
  if nrep =? 0 then VNone else
  if nrep =? nrej then first_reject_with (rejections s) (fst (most_rejected order (rejcodes s))) else
  if (0 <? nrej) && thr_reached (count_code (rejcodes s) Invalid) nrep tnum tden
  then first_reject_with (rejections s) Invalid
  else VNone.

Definition send_transaction (order : list code) (ms : list pmsg) (tnum tden : Z) : verdict :=
  verdict_of order (collect ms) tnum tden.

(* ------------------------------------------------------------------ *)
(* (a) the broadcaster: handler + rebroadcast worker *)

(* result of cfg.Broadcast *)
Inductive outcome := OAccept | ORej (c : code) | OOther.

Definition accepted (o : outcome) : bool :=
  match o with OAccept | ORej Mempool => true | _ => false end.
Definition is_confirmed (o : outcome) : bool :=
  match o with ORej Confirmed => true | _ => false end.

(* schedule: what happens next *)
Inductive ev :=
  | EBroadcast (tx : Z) (o : outcome)  (* a caller's Broadcast(tx) is served; cfg.Broadcast answers o *)
  | EConf (tx : Z)                     (* a caller's MarkAsConfirmed(tx) *)
  | EBlock | ETick                     (* block notification / ticker reach the handler *)
  | EWCall                             (* worker: quit check, then cfg.Broadcast(next tx) is entered *)
  | EWRet (o : outcome)                (* worker: that call returns o *)
  | EWHandoff                          (* worker's confChan send meets the handler's receive *)
  | EWDone                             (* worker: rebroadcast returns, semaphore released *)
  | EStop                              (* close(quit) *)
  (* a Broadcast request split at the handler's cfg.Broadcast call *)
  | EBcStart (tx : Z)                  (* the handler takes the request and enters cfg.Broadcast(tx) *)
  | EBcRet (o : outcome)               (* that call returns o; the handler replies on errChan
                                          (capacity 1: never waits for the caller) *)
  | ESubCancel.                        (* environment: the block subscription is cancelled from
                                          outside (its channel closed, SubscribeBlocks fails from
                                          now on); the handler notices, logs, and goes on serving
                                          every other case: no state changes, nothing observable *)

Inductive wstate :=
  | WIdle                              (* no worker; semaphore available *)
  | WRun (todo : list Z)
  | WCall (tx : Z) (todo : list Z)
  | WHand (tx : Z) (todo : list Z).

Inductive ret := RNil | RErr (o : outcome) | RStopped.

(* observable labels; ONone = the scheduled transition was not enabled *)
Inductive obs :=
  | ONone
  | ORet (tx : Z) (r : ret)   (* Broadcast(tx) returned r *)
  | OConfd (tx : Z)           (* MarkAsConfirmed(tx) delivered and returned *)
  | OConfQuit                 (* MarkAsConfirmed returned through the quit case *)
  | OTrig                     (* a block / tick was taken by the live handler *)
  | OSent (tx : Z)            (* worker invoked cfg.Broadcast(tx) *)
  | OAns                      (* that invocation returned *)
  | OHand (tx : Z)            (* handler dropped tx on the worker's report *)
  | ODone                     (* worker finished *)
  | OStop
  | OBcHeld (tx : Z)          (* handler invoked cfg.Broadcast(tx) for a caller's request *)
  | OStopBc (tx : Z)          (* Stop while that call is open: the caller of Broadcast(tx)
                                 leaves with ErrBroadcasterStopped *)
  | OAnsH.                    (* the handler's call returned after the caller had left *)

Record st := {
  pending : list Z;   (* keys of `transactions` *)
  wk : wstate;
  nsort : nat;        (* rebroadcasts started so far *)
  snap : list Z;      (* ghost: the copy handed to the running worker *)
  sent : list Z;      (* ghost: what the running worker has passed to cfg.Broadcast so far *)
  hbusy : option Z;   (* the handler is inside cfg.Broadcast for a request for this tx *)
  stopped : bool
}.

Definition init : st :=
  {| pending := []; wk := WIdle; nsort := 0; snap := []; sent := []; hbusy := None; stopped := false |}.

Definition set_pending (s : st) (l : list Z) : st :=
  {| pending := l; wk := wk s; nsort := nsort s; snap := snap s; sent := sent s; hbusy := hbusy s;
     stopped := stopped s |}.
Definition set_wk (s : st) (w : wstate) : st :=
  {| pending := pending s; wk := w; nsort := nsort s; snap := snap s; sent := sent s; hbusy := hbusy s;
     stopped := stopped s |}.

Section Broadcaster.
(* wtxmgr.DependencySort on the copy taken by the k-th rebroadcast *)
Variable depsort : nat -> list Z -> list Z.

Definition trigger (s : st) : st * obs :=
  if stopped s then (s, ONone) else
  match wk s with
  | WIdle =>
    ({| pending := pending s;
        wk := WRun (match pending s with [] => [] | l => depsort (nsort s) l end);
        nsort := S (nsort s); snap := pending s; sent := []; hbusy := hbusy s; stopped := false |}, OTrig)
  | _ => (s, OTrig)
  end.

Definition step0 (s : st) (e : ev) : st * obs :=
  match e with
  | EBroadcast tx o =>
    if stopped s then (s, ORet tx RStopped) else
    if accepted o then (set_pending s (add tx (pending s)), ORet tx RNil)
    else (s, ORet tx (RErr o))
  | EConf tx =>
    if stopped s then (s, OConfQuit) else (set_pending s (remove tx (pending s)), OConfd tx)
  | EBlock | ETick => trigger s
  | EWCall =>
    match wk s with
    | WRun (tx :: rest) =>
      if stopped s then (set_wk s WIdle, ODone)
      else ({| pending := pending s; wk := WCall tx rest; nsort := nsort s; snap := snap s;
               sent := sent s ++ [tx]; hbusy := hbusy s; stopped := stopped s |}, OSent tx)
    | _ => (s, ONone)
    end
  | EWRet o =>
    match wk s with
    | WCall tx rest =>
      if is_confirmed o then (set_wk s (WHand tx rest), OAns) else (set_wk s (WRun rest), OAns)
    | _ => (s, ONone)
    end
  | EWHandoff =>
    match wk s with
    | WHand tx rest =>
      if stopped s then (set_wk s WIdle, ODone)
      else (set_wk (set_pending s (remove tx (pending s))) (WRun rest), OHand tx)
    | _ => (s, ONone)
    end
  | EWDone =>
    match wk s with
    | WRun [] => (set_wk s WIdle, ODone)
    | WRun (_ :: _) => if stopped s then (set_wk s WIdle, ODone) else (s, ONone)
    | WHand _ _ => if stopped s then (set_wk s WIdle, ODone) else (s, ONone)
    | _ => (s, ONone)
    end
  | EStop => if stopped s then (s, OStop) else
    ({| pending := pending s; wk := wk s; nsort := nsort s; snap := snap s; sent := sent s;
        hbusy := hbusy s; stopped := true |}, OStop)
  | EBcStart _ | EBcRet _ | ESubCancel => (s, ONone)
  end.

Definition set_busy (s : st) (b : option Z) : st :=
  {| pending := pending s; wk := wk s; nsort := nsort s; snap := snap s; sent := sent s;
     hbusy := b; stopped := stopped s |}.

(* events that need the handler in its select *)
Definition handler_event (e : ev) : bool :=
  match e with
  | EBroadcast _ _ | EConf _ | EBlock | ETick | EWHandoff | EBcStart _ => true
  | _ => false
  end.

(* the full step: [step0] is the broadcaster with every Broadcast request
   served atomically; here a request may also be split (EBcStart .. EBcRet),
   and while the handler is inside that call nothing else reaches it: its
   callers and the worker's hand-off wait (ONone) unless quit is closed *)
Definition step (s : st) (e : ev) : st * obs :=
  match e with
  | EBcStart tx =>
    if stopped s then (s, ORet tx RStopped) else
    match hbusy s with
    | Some _ => (s, ONone)
    | None => (set_busy s (Some tx), OBcHeld tx)
    end
  | EBcRet o =>
    match hbusy s with
    | None => (s, ONone)
    | Some tx =>
      (* errChan <- reply never blocks (buffer 1); after quit the handler
         then leaves through its select and the map is dead state *)
      if stopped s then (set_busy s None, OAnsH) else
      if accepted o then (set_busy (set_pending s (add tx (pending s))) None, ORet tx RNil)
      else (set_busy s None, ORet tx (RErr o))
    end
  | EStop =>
    match hbusy s with
    | Some tx => if stopped s then (s, OStop) else (fst (step0 s EStop), OStopBc tx)
    | None => step0 s EStop
    end
  | _ =>
    if handler_event e && negb (stopped s) && match hbusy s with Some _ => true | None => false end
    then (s, ONone) else step0 s e
  end.


Fixpoint run_from (s : st) (evs : list ev) : st * list obs :=
  match evs with
  | [] => (s, [])
  | e :: r => let '(s1, o) := step s e in
              let '(s2, os) := run_from s1 r in (s2, o :: os)
  end.

(* what the running worker still has to send *)
Definition todo_of (w : wstate) : list Z :=
  match w with WIdle => [] | WRun l | WCall _ l | WHand _ l => l end.

(* the worker's own next transition (o = answer of the call in flight) *)
Definition wnext (s : st) (o : outcome) : ev :=
  match wk s with
  | WRun (_ :: _) => EWCall
  | WRun [] => EWDone
  | WCall _ _ => EWRet o
  | WHand _ _ => EWHandoff
  | WIdle => EWDone
  end.

(* the handler's own next transition when it is inside a request's call *)
Definition hnext (o : outcome) : ev := EBcRet o.

Definition run (evs : list ev) : st := fst (run_from init evs).
Definition trace (evs : list ev) : list (ev * obs) := combine evs (snd (run_from init evs)).

End Broadcaster.
