(* C15 — the property in its own vocabulary.
   A trace is the list of (scheduled event, observable label).  Everything
   below reads ONLY the trace (never the model state):
     - which transactions are pending after a trace (accepted and not since
       reported confirmed),
     - which rebroadcast is running (started by a block/tick label while none
       was running, until its Done label),
     - the check that every rebroadcast sends, one call at a time, a
       parents-first duplicate-free enumeration of the set pending when it
       started — all of it unless the client is stopped. *)
From Coq Require Import ZArith List Bool Permutation.
From Verif Require Import C15.Model.
Import ListNotations.
Open Scope Z_scope.

Definition trace_t := list (ev * obs).

(* dependency graph: tx -> the txs whose outputs it spends *)
Definition deps_t := list (Z * list Z).
Fixpoint parents (deps : deps_t) (tx : Z) : list Z :=
  match deps with
  | [] => []
  | (t, ps) :: r => if Z.eqb t tx then ps else parents r tx
  end.

Fixpoint nodupb (l : list Z) : bool :=
  match l with
  | [] => true
  | x :: r => negb (mem x r) && nodupb r
  end.

(* parents (within snap) of every element of todo are sent before it *)
Fixpoint pf (deps : deps_t) (snapshot sent todo : list Z) : bool :=
  match todo with
  | [] => true
  | tx :: r =>
    forallb (fun p => implb (mem p snapshot) (mem p sent)) (parents deps tx)
    && pf deps snapshot (sent ++ [tx]) r
  end.

(* "ord is a topological permutation of snapshot" (decidable form) *)
Definition is_topo_perm (deps : deps_t) (snapshot ord : list Z) : bool :=
  nodupb ord && (length ord =? length snapshot)%nat
  && forallb (fun x => mem x snapshot) ord && pf deps snapshot [] ord.

(* the same, declaratively *)
Definition topo_perm (deps : deps_t) (snapshot ord : list Z) : Prop :=
  Permutation ord snapshot /\
  forall pre tx post, ord = pre ++ tx :: post ->
    forall p, In p (parents deps tx) -> In p snapshot -> In p pre.

(* ---------- pending set, from the trace alone ---------- *)
Definition accepts (x : ev * obs) (tx : Z) : bool :=
  match snd x with ORet t RNil => Z.eqb t tx | _ => false end.
Definition confirms (x : ev * obs) (tx : Z) : bool :=
  match snd x with OConfd t | OHand t => Z.eqb t tx | _ => false end.

(* tx is pending after tr: some Broadcast(tx) returned nil and no later label
   reports tx confirmed *)
Definition accepted_unconfirmed (tr : trace_t) (tx : Z) : Prop :=
  exists pre x post, tr = pre ++ x :: post /\ accepts x tx = true /\
                     forallb (fun y => negb (confirms y tx)) post = true.

(* ---------- the monitor ---------- *)
Record mon := {
  m_pend : list Z;
  m_run : option (list Z * list Z);   (* running rebroadcast: (pending at start, sent so far) *)
  m_inflight : bool;                   (* a worker call has not returned yet *)
  m_conf : bool;                       (* the last worker call was answered "confirmed" and
                                          the handler has not yet taken notice *)
  m_stopped : bool;
  m_busy : option Z;                   (* a Broadcast(tx) caller whose request the handler is serving *)
  m_ok : bool
}.
Definition m_init : mon :=
  {| m_pend := []; m_run := None; m_inflight := false; m_conf := false;
     m_stopped := false; m_busy := None; m_ok := true |}.

Definition ret_eqb (a b : ret) : bool :=
  match a, b with
  | RNil, RNil | RStopped, RStopped => true
  | RErr OOther, RErr OOther => true
  | RErr (ORej c1), RErr (ORej c2) => code_eqb c1 c2
  | _, _ => false
  end.

Definition flag (m : mon) (b : bool) : mon :=
  {| m_pend := m_pend m; m_run := m_run m; m_inflight := m_inflight m; m_conf := m_conf m;
     m_stopped := m_stopped m; m_busy := m_busy m; m_ok := m_ok m && b |}.
Definition with_pend (m : mon) (l : list Z) : mon :=
  {| m_pend := l; m_run := m_run m; m_inflight := m_inflight m; m_conf := m_conf m;
     m_stopped := m_stopped m; m_busy := m_busy m; m_ok := m_ok m |}.

Definition m_step (deps : deps_t) (m : mon) (x : ev * obs) : mon :=
  match x with
  | (_, ONone) => m
  (* Broadcast: nil exactly for accepted / already-in-mempool, the mapped
     error otherwise, ErrBroadcasterStopped after Stop; only nil enters *)
  | (EBroadcast tx o, ORet t r) =>
    let good := Z.eqb t tx &&
                ret_eqb r (if m_stopped m then RStopped else if accepted o then RNil else RErr o) in
    match r with
    | RNil => with_pend (flag m good) (add t (m_pend m))
    | _ => flag m good
    end
  | (EBroadcast _ _, _) => flag m false
  | (EConf tx, OConfd t) =>
    with_pend (flag m (Z.eqb t tx && negb (m_stopped m))) (remove t (m_pend m))
  | (EConf _, OConfQuit) => flag m (m_stopped m)
  | (EConf _, _) => flag m false
  (* a block or a tick starts a rebroadcast of the pending set unless one runs *)
  | (_, OTrig) =>
    match m_run m with
    | None => {| m_pend := m_pend m; m_run := Some (m_pend m, []); m_inflight := false;
                 m_conf := false; m_stopped := m_stopped m;
                 m_busy := m_busy m; m_ok := m_ok m && negb (m_stopped m) |}
    | Some _ => flag m (negb (m_stopped m))
    end
  | (_, OSent tx) =>
    match m_run m with
    | Some (snapshot, sent) =>
      let good := negb (m_stopped m) && negb (m_inflight m) && negb (m_conf m)
                  && mem tx snapshot && negb (mem tx sent)
                  && forallb (fun p => implb (mem p snapshot) (mem p sent)) (parents deps tx) in
      {| m_pend := m_pend m; m_run := Some (snapshot, sent ++ [tx]); m_inflight := true;
         m_conf := false; m_stopped := m_stopped m; m_busy := m_busy m; m_ok := m_ok m && good |}
    | None => flag m false
    end
  | (EWRet o, OAns) =>
    {| m_pend := m_pend m; m_run := m_run m; m_inflight := false; m_conf := is_confirmed o;
       m_stopped := m_stopped m; m_busy := m_busy m; m_ok := m_ok m && m_inflight m |}
  | (_, OAns) => flag m false
  | (_, OHand tx) =>
    {| m_pend := remove tx (m_pend m); m_run := m_run m; m_inflight := m_inflight m;
       m_conf := false; m_stopped := m_stopped m;
       m_busy := m_busy m; m_ok := m_ok m && negb (m_stopped m) && m_conf m &&
               match m_run m with
               | Some (_, sent) => Z.eqb (last sent (-1)) tx && negb (length sent =? 0)%nat
               | None => false
               end |}
  | (_, ODone) =>
    match m_run m with
    | Some (snapshot, sent) =>
      {| m_pend := m_pend m; m_run := None; m_inflight := false; m_conf := false;
         m_stopped := m_stopped m;
         m_busy := m_busy m; m_ok := m_ok m && negb (m_inflight m)
                 && (m_stopped m || (negb (m_conf m) && (length sent =? length snapshot)%nat)) |}
    | None => flag m false
    end
  | (_, OStop) =>
    {| m_pend := m_pend m; m_run := m_run m; m_inflight := m_inflight m; m_conf := m_conf m;
       m_stopped := true; m_busy := m_busy m; m_ok := m_ok m |}
  (* a Broadcast request whose cfg.Broadcast call is held open *)
  | (EBcStart tx, OBcHeld t) =>
    {| m_pend := m_pend m; m_run := m_run m; m_inflight := m_inflight m; m_conf := m_conf m;
       m_stopped := m_stopped m; m_busy := Some t;
       m_ok := m_ok m && Z.eqb t tx && negb (m_stopped m) &&
               match m_busy m with None => true | Some _ => false end |}
  | (EBcStart tx, ORet t r) => flag m (Z.eqb t tx && ret_eqb r RStopped && m_stopped m)
  | (EBcRet o, ORet t r) =>
    let good := match m_busy m with Some b => Z.eqb b t | None => false end && negb (m_stopped m)
                && ret_eqb r (if accepted o then RNil else RErr o) in
    {| m_pend := match r with RNil => add t (m_pend m) | _ => m_pend m end;
       m_run := m_run m; m_inflight := m_inflight m; m_conf := m_conf m;
       m_stopped := m_stopped m; m_busy := None; m_ok := m_ok m && good |}
  (* Stop while the call is open releases that caller ... *)
  | (EStop, OStopBc t) =>
    {| m_pend := m_pend m; m_run := m_run m; m_inflight := m_inflight m; m_conf := m_conf m;
       m_stopped := true; m_busy := m_busy m;
       m_ok := m_ok m && negb (m_stopped m) &&
               match m_busy m with Some b => Z.eqb b t | None => false end |}
  (* ... and the handler's reply afterwards is nobody's concern *)
  | (EBcRet _, OAnsH) =>
    {| m_pend := m_pend m; m_run := m_run m; m_inflight := m_inflight m; m_conf := m_conf m;
       m_stopped := m_stopped m; m_busy := None;
       m_ok := m_ok m && m_stopped m &&
               match m_busy m with Some _ => true | None => false end |}
  | (_, ORet _ _) | (_, OConfd _) | (_, OConfQuit) | (_, OBcHeld _) | (_, OStopBc _) | (_, OAnsH) =>
    flag m false
  end.

Definition m_run_all (deps : deps_t) (tr : trace_t) : mon := fold_left (m_step deps) tr m_init.
Definition holds (deps : deps_t) (tr : trace_t) : bool := m_ok (m_run_all deps tr).

(* ---------- sendTransaction verdict, in terms of the peers' behaviour ---------- *)
(* the peers that asked for the transaction / that rejected it after asking *)
Definition should_fail (repliers : list Z) (rejected : list (Z * code)) (tnum tden : Z) : Prop :=
  repliers <> [] /\
  ((forall p, In p repliers -> In p (map fst rejected)) \/
   (rejected <> [] /\
    Z.of_nat (length (filter (fun e => code_eqb (snd e) Invalid) rejected)) * tden
      >= tnum * Z.of_nat (length repliers))).

(* Per-peer reading of a message sequence, independent of the closure's maps:
   what one peer did before its channel was closed. *)
Definition msg_peer (m : pmsg) : Z :=
  match m with MGetData p _ | MReject p _ _ | MClose p => p end.

Fixpoint until_close (p : Z) (ms : list pmsg) : list pmsg :=
  match ms with
  | [] => []
  | m :: r =>
    if Z.eqb (msg_peer m) p then
      match m with MClose _ => [] | _ => m :: until_close p r end
    else until_close p r
  end.

(* (asked for the transaction, rejected it after having asked) *)
Fixpoint peer_view (ms : list pmsg) (asked : bool) : bool * option code :=
  match ms with
  | [] => (asked, None)
  | MGetData _ hit :: r => peer_view r (asked || hit)
  | MReject _ hit c :: r => if hit && asked then (true, Some c) else peer_view r asked
  | MClose _ :: r => peer_view r asked
  end.

Definition peers_of (ms : list pmsg) : list Z :=
  fold_left (fun acc m => add (msg_peer m) acc) ms [].

Definition spec_repliers (ms : list pmsg) : list Z :=
  filter (fun p => fst (peer_view (until_close p ms) false)) (peers_of ms).
Definition spec_rejected (ms : list pmsg) : list (Z * code) :=
  flat_map (fun p => match snd (peer_view (until_close p ms) false) with
                     | Some c => [(p, c)] | None => [] end) (peers_of ms).

Definition should_fail_b (repliers : list Z) (rejected : list (Z * code)) (tnum tden : Z) : bool :=
  negb (length repliers =? 0)%nat &&
  (forallb (fun p => mem p (map fst rejected)) repliers ||
   (negb (length rejected =? 0)%nat &&
    (Z.of_nat (length (filter (fun e => code_eqb (snd e) Invalid) rejected)) * tden
       >=? tnum * Z.of_nat (length repliers)))).
