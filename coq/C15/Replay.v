(* C15 — replay of implementation traces against the model and the monitor. *)
From Coq Require Import ZArith List Bool.
From Verif Require Import C15.Model C15.Spec.
Import ListNotations.
Open Scope Z_scope.

Definition outcome_eqb (a b : outcome) : bool :=
  match a, b with
  | OAccept, OAccept | OOther, OOther => true
  | ORej c1, ORej c2 => code_eqb c1 c2
  | _, _ => false
  end.

Definition obs_eqb (a b : obs) : bool :=
  match a, b with
  | ONone, ONone | OConfQuit, OConfQuit | OTrig, OTrig | OAns, OAns | ODone, ODone | OStop, OStop
  | OAnsH, OAnsH => true
  | ORet t1 r1, ORet t2 r2 => Z.eqb t1 t2 && ret_eqb r1 r2
  | OConfd a, OConfd b | OSent a, OSent b | OHand a, OHand b | OBcHeld a, OBcHeld b
  | OStopBc a, OStopBc b => Z.eqb a b
  | _, _ => false
  end.

(* a broadcaster case: dependency graph, the send order observed for the
   k-th rebroadcast (the oracle answers of wtxmgr.DependencySort), trace *)
Definition bcase := (deps_t * list (list Z) * trace_t)%type.

Definition oracle (orders : list (list Z)) : nat -> list Z -> list Z :=
  fun k _ => nth k orders [].

Fixpoint first_mismatch (ds : nat -> list Z -> list Z) (s : st) (i : Z) (tr : trace_t) : option Z :=
  match tr with
  | [] => None
  | (e, ob) :: rest =>
    let '(s', mob) := step ds s e in
    if obs_eqb mob ob then first_mismatch ds s' (i + 1) rest else Some i
  end.

(* first step at which the monitor rejects the implementation trace *)
Fixpoint first_bad (deps : deps_t) (m : mon) (i : Z) (tr : trace_t) : option Z :=
  match tr with
  | [] => None
  | x :: rest =>
    let m' := m_step deps m x in
    if m_ok m' then first_bad deps m' (i + 1) rest else Some i
  end.

(* rows (case id, kind, step, tag): kind 1 = model/implementation mismatch,
   kind 2 = the monitor rejects the implementation trace (tag 0: the model of
   the working tree carries no root-cause flag) *)
Definition bverdict (c : Z * bcase) : list (Z * Z * Z * Z) :=
  let '(id, (deps, orders, tr)) := c in
  (match first_mismatch (oracle orders) init 0 tr with Some i => [(id, 1, i, 0)] | None => [] end) ++
  (match first_bad deps m_init 0 tr with Some i => [(id, 2, i, 0)] | None => [] end).

Definition run_cases (cs : list (Z * bcase)) : list (Z * Z * Z * Z) := flat_map bverdict cs.

(* sendTransaction cases: messages (per-peer causal order), threshold, verdict
   returned by the real sendTransaction *)
Definition vcase := (list pmsg * Z * Z * verdict)%type.

Definition verdict_eqb (a b : verdict) : bool :=
  match a, b with
  | VNone, VNone | VBadMapping, VBadMapping => true
  | VErr c1, VErr c2 => code_eqb c1 c2
  | _, _ => false
  end.

(* the result may depend on the map iteration order: any code may come first *)
Definition model_allows (ms : list pmsg) (tnum tden : Z) (v : verdict) : bool :=
  existsb (fun c => verdict_eqb (send_transaction (c :: all_codes) ms tnum tden) v) all_codes.

Definition is_err (v : verdict) : bool := match v with VNone => false | _ => true end.

Definition vverdict (c : Z * vcase) : list (Z * Z * Z * Z) :=
  let '(id, (ms, tnum, tden, v)) := c in
  (if model_allows ms tnum tden v then [] else [(id, 1, 0, 0)]) ++
  (if Bool.eqb (is_err v) (should_fail_b (spec_repliers ms) (spec_rejected ms) tnum tden)
   then [] else [(id, 2, 0, 16)]) ++
  (* the error handed back carries a code some replier actually gave *)
  (match v with
   | VErr c => if existsb (fun e => code_eqb (snd e) c) (spec_rejected ms) then [] else [(id, 2, 1, 0)]
   | _ => []
   end).

Definition run_vcases (cs : list (Z * vcase)) : list (Z * Z * Z * Z) := flat_map vverdict cs.

Fixpoint index_false (i : Z) (l : list bool) : list Z :=
  match l with
  | [] => []
  | b :: r => (if b then [] else [i]) ++ index_false (i + 1) r
  end.

(* aux table 3: float32 threshold comparison of the code vs the model's
   rational comparison; row (tnum, tden, n, mask): bit i of mask = the code's
   `float32(i)/float32(n) >= float32(tnum)/float32(tden)` for 0 <= i <= n *)
Fixpoint upto (n : nat) : list Z :=
  match n with O => [0] | S k => upto k ++ [Z.of_nat (S k)] end.
Definition thr_row_ok (r : Z * Z * Z * Z) : bool :=
  let '(tnum, tden, n, mask) := r in
  if (n <? 0) || (1000 <? n) then false else
  forallb (fun i => Bool.eqb (Z.testbit mask i) (thr_reached i n tnum tden)) (upto (Z.to_nat n)).
Definition thr_mismatches (rows : list (Z * Z * Z * Z)) : list Z :=
  index_false 0 (map thr_row_ok rows).

(* aux table 4: ParseBroadcastError; row (reject code, substring tests, code) *)
Definition code_of_Z (z : Z) : code :=
  if z =? 1 then Invalid else if z =? 2 then InsufficientFee else
  if z =? 3 then Mempool else if z =? 4 then Confirmed else Unknown.
Definition parse_row_ok (r : Z * list bool * Z) : bool :=
  let '(rc, fl, c) := r in
  match fl with
  | [a; b; c0; d; e; f] =>
    code_eqb (parse_code rc {| r_conflict := a; r_inmempool := b; r_known := c0;
                                r_spent := d; r_have := e; r_exists := f |}) (code_of_Z c)
    && (0 <=? c) && (c <=? 4)
  | _ => false
  end.
Definition parse_mismatches (rows : list (Z * list bool * Z)) : list Z :=
  index_false 0 (map parse_row_ok rows).

(* ------------------------------------------------------------------ *)
(* End-to-end cases: the production sendTransaction wired into the production
   Broadcaster (as NewChainService does), one transaction, scripted peers.
   The monitor composes the two halves at the property level: Broadcast
   returns nil exactly when the verdict of the peers' replies is "accepted"
   (no error, or already in the mempool); a pending transaction is
   re-announced on every block until a rebroadcast's verdict is "confirmed",
   and never announced otherwise. *)
Inductive estep :=
  | XBroadcast (ms : list pmsg) (r : ret)      (* Broadcast(tx); the peers' replies; its return *)
  | XBlock (announced : bool) (ms : list pmsg). (* a block; was the tx announced again; replies *)

Definition outcome_of (v : verdict) : outcome :=
  match v with VNone => OAccept | VErr c => ORej c | VBadMapping => OOther end.

(* one per map iteration order *)
Definition allowed_outcomes (ms : list pmsg) (tnum tden : Z) : list outcome :=
  map (fun c => outcome_of (send_transaction (c :: all_codes) ms tnum tden)) all_codes.

Definition ret_of (o : outcome) : ret := if accepted o then RNil else RErr o.

Fixpoint e_bad (pend : option bool) (i tnum tden : Z) (l : list estep) : option Z :=
  match l with
  | [] => None
  | XBroadcast ms r :: rest =>
    if existsb (fun o => ret_eqb r (ret_of o)) (allowed_outcomes ms tnum tden)
    then e_bad (match r with RNil => Some true | _ => pend end) (i + 1) tnum tden rest
    else Some i
  | XBlock ann ms :: rest =>
    if match pend with Some p => Bool.eqb ann p | None => true end then
      let outs := allowed_outcomes ms tnum tden in
      let pend' := if ann then
                     (if forallb is_confirmed outs then Some false
                      else if existsb is_confirmed outs then None else Some true)
                   else match pend with Some p => Some p | None => Some false end in
      e_bad pend' (i + 1) tnum tden rest
    else Some i
  end.

Definition ecase := (Z * Z * list estep)%type.
Definition everdict (c : Z * ecase) : list (Z * Z * Z * Z) :=
  let '(id, (tnum, tden, l)) := c in
  match e_bad (Some false) 0 tnum tden l with Some i => [(id, 2, i, 0)] | None => [] end.
Definition run_ecases (cs : list (Z * ecase)) : list (Z * Z * Z * Z) := flat_map everdict cs.
