(* C15 — lemmas. *)
From Coq Require Import ZArith List Bool Lia Permutation.
From Verif Require Import C15.Model C15.Spec.
Import ListNotations.
Open Scope Z_scope.

(* ------------------------------------------------------------------ *)
(* sets as lists *)

Lemma mem_In : forall x l, mem x l = true <-> In x l.
Proof.
  intros x l. unfold mem. rewrite existsb_exists. split.
  - intros (y & Hy & He). apply Z.eqb_eq in He. subst. exact Hy.
  - intros H. exists x. split; [exact H | apply Z.eqb_refl].
Qed.

Lemma mem_false : forall x l, mem x l = false <-> ~ In x l.
Proof.
  intros x l. rewrite <- mem_In. destruct (mem x l); split.
  - intros H. discriminate.
  - intros H. exfalso. apply H. reflexivity.
  - intros _ H. discriminate.
  - intros _. reflexivity.
Qed.

Lemma mem_app : forall x a b, mem x (a ++ b) = mem x a || mem x b.
Proof. intros. unfold mem. apply existsb_app. Qed.

Lemma In_add : forall x y l, In y (add x l) <-> y = x \/ In y l.
Proof.
  intros x y l. unfold add. destruct (mem x l) eqn:E.
  - apply mem_In in E. split; [auto|]. intros [->|H]; assumption.
  - rewrite in_app_iff. simpl. split; intros H.
    + destruct H as [H|[H|[]]]; [right|left]; auto.
    + destruct H as [H|H]; [right; left; auto | left; exact H].
Qed.

Lemma In_remove : forall x y l, In y (remove x l) <-> In y l /\ y <> x.
Proof.
  intros x y l. unfold remove. rewrite filter_In. split; intros [H1 H2]; split; auto.
  - intros ->. rewrite Z.eqb_refl in H2. discriminate.
  - apply negb_true_iff. apply Z.eqb_neq. exact H2.
Qed.

Lemma NoDup_snoc : forall (x : Z) l, NoDup l -> ~ In x l -> NoDup (l ++ [x]).
Proof.
  intros x l H Hn. induction H as [|a l Ha Hl IH]; simpl.
  - constructor; [intros []|constructor].
  - constructor.
    + rewrite in_app_iff. simpl. intros [H1|[H1|[]]]; [exact (Ha H1)|]. subst. apply Hn. left. reflexivity.
    + apply IH. intros H1. apply Hn. right. exact H1.
Qed.

Lemma NoDup_add : forall x l, NoDup l -> NoDup (add x l).
Proof.
  intros x l H. unfold add. destruct (mem x l) eqn:E; [exact H|].
  apply mem_false in E. apply NoDup_snoc; assumption.
Qed.

Lemma NoDup_remove : forall x l, NoDup l -> NoDup (remove x l).
Proof. intros. unfold remove. apply NoDup_filter. assumption. Qed.

Lemma nodupb_NoDup : forall l, nodupb l = true -> NoDup l.
Proof.
  induction l as [|a l IH]; simpl; intros H; [constructor|].
  apply andb_true_iff in H. destruct H as [H1 H2]. constructor.
  - apply negb_true_iff in H1. apply mem_false in H1. exact H1.
  - apply IH. exact H2.
Qed.

Lemma nodupb_mid : forall a x b, nodupb (a ++ x :: b) = true -> mem x a = false.
Proof.
  induction a as [|y a IH]; simpl; intros x b H; [reflexivity|].
  apply andb_true_iff in H. destruct H as [H1 H2].
  apply negb_true_iff in H1. rewrite mem_app in H1. apply orb_false_iff in H1. destruct H1 as [_ H1].
  simpl in H1. apply orb_false_iff in H1. destruct H1 as [H1 _].
  rewrite (IH _ _ H2). rewrite Z.eqb_sym. rewrite H1. reflexivity.
Qed.

Lemma code_eqb_eq : forall a b, code_eqb a b = true <-> a = b.
Proof. intros [] []; simpl; split; intros H; try reflexivity; try discriminate. Qed.

Lemma code_eqb_sym : forall a b, code_eqb a b = code_eqb b a.
Proof. intros [] []; reflexivity. Qed.

(* ------------------------------------------------------------------ *)
(* (b) sendTransaction: invariant of the reply collection *)

Definition q_inv (s : qst) : Prop :=
  NoDup (replies s) /\ NoDup (map fst (rejections s)) /\
  (forall p, In p (map fst (rejections s)) -> In p (replies s)) /\
  (forall p, In p (map fst (rejections s)) -> In p (closed s)) /\
  rejcodes s = map snd (rejections s).

Lemma filter_all : forall (A : Type) (f : A -> bool) l,
  (forall x, In x l -> f x = true) -> filter f l = l.
Proof.
  intros A f l. induction l as [|a l IH]; simpl; intros H; [reflexivity|].
  rewrite (H a (or_introl eq_refl)). f_equal. apply IH. intros x Hx. apply H. right. exact Hx.
Qed.

Lemma q_inv_init : q_inv q_init.
Proof.
  unfold q_inv, q_init; simpl. repeat split; try constructor; intros p [].
Qed.

Lemma q_inv_step : forall s m, q_inv s -> q_inv (q_step s m).
Proof.
  intros s m (H1 & H2 & H3 & H4 & H5). destruct m as [p hit | p hit c | p]; simpl.
  - destruct (mem p (closed s)); [repeat split; assumption|].
    destruct hit; [|repeat split; assumption].
    unfold q_inv; simpl. repeat split; try assumption.
    + apply NoDup_add. exact H1.
    + intros q Hq. apply In_add. right. apply H3. exact Hq.
  - destruct (mem p (closed s)) eqn:Ec; [repeat split; assumption|].
    destruct hit; simpl; [|repeat split; assumption].
    destruct (mem p (replies s)) eqn:Er; simpl; [|repeat split; assumption].
    apply mem_false in Ec. apply mem_In in Er.
    assert (Hnot : ~ In p (map fst (rejections s))) by (intros Hin; apply Ec; apply H4; exact Hin).
    assert (Hf : filter (fun e : Z * code => negb (fst e =? p)) (rejections s) = rejections s).
    { apply filter_all. intros x Hx. apply negb_true_iff. apply Z.eqb_neq. intros Heq.
      apply Hnot. rewrite <- Heq. apply in_map. exact Hx. }
    unfold q_inv, set_rej; simpl. rewrite Hf. simpl. repeat split.
    + exact H1.
    + constructor; assumption.
    + intros q [Hq|Hq]; [subst; exact Er | apply H3; exact Hq].
    + intros q [Hq|Hq]; [left; exact Hq | right; apply H4; exact Hq].
    + f_equal. exact H5.
  - unfold q_inv; simpl. repeat split; try assumption.
    intros q Hq. right. apply H4. exact Hq.
Qed.

Lemma q_inv_fold : forall ms s, q_inv s -> q_inv (fold_left q_step ms s).
Proof.
  induction ms as [|m ms IH]; simpl; intros s H; [exact H|].
  apply IH. apply q_inv_step. exact H.
Qed.

Lemma q_inv_collect : forall ms, q_inv (collect ms).
Proof. intros. apply q_inv_fold. apply q_inv_init. Qed.

Lemma count_filter : forall c (J : list (Z * code)),
  length (filter (code_eqb c) (map snd J)) = length (filter (fun e => code_eqb (snd e) c) J).
Proof.
  intros c J. induction J as [|[p d] J IH]; simpl; [reflexivity|].
  rewrite (code_eqb_sym d c). destruct (code_eqb c d); simpl; rewrite IH; reflexivity.
Qed.

Lemma first_reject_not_none : forall J c, first_reject_with J c <> VNone.
Proof. intros J c. unfold first_reject_with. destruct (existsb _ J); discriminate. Qed.

Lemma verdict_iff : forall order s tnum tden, q_inv s ->
  (verdict_of order s tnum tden <> VNone <-> should_fail (replies s) (rejections s) tnum tden).
Proof.
  intros order s tnum tden (H1 & H2 & H3 & H4 & H5).
  unfold verdict_of, should_fail.
  assert (Hlen : length (map fst (rejections s)) = length (rejections s)) by apply map_length.
  destruct (Z.of_nat (length (replies s)) =? 0) eqn:E0.
  { apply Z.eqb_eq in E0. split; [intros H; exfalso; apply H; reflexivity|].
    intros [Hne _]. destruct (replies s); [exfalso; apply Hne; reflexivity | simpl in E0; lia]. }
  apply Z.eqb_neq in E0.
  assert (Hne : replies s <> []) by (intros Heq; rewrite Heq in E0; simpl in E0; lia).
  destruct (Z.of_nat (length (replies s)) =? Z.of_nat (length (rejections s))) eqn:E1.
  { apply Z.eqb_eq in E1. split; [|intros _; apply first_reject_not_none].
    intros _. split; [exact Hne|]. left.
    apply (NoDup_length_incl H2); [lia | exact H3]. }
  apply Z.eqb_neq in E1.
  assert (Hnall : ~ (forall p, In p (replies s) -> In p (map fst (rejections s)))).
  { intros Hall. pose proof (NoDup_incl_length H1 Hall) as L1.
    pose proof (NoDup_incl_length H2 H3) as L2. lia. }
  rewrite H5. unfold count_code, thr_reached. rewrite count_filter.
  destruct ((0 <? Z.of_nat (length (rejections s))) &&
            (Z.of_nat (length (filter (fun e => code_eqb (snd e) Invalid) (rejections s))) * tden >=?
             tnum * Z.of_nat (length (replies s)))) eqn:Ec.
  - split; [|intros _; apply first_reject_not_none].
    intros _. split; [exact Hne|]. right.
    apply andb_true_iff in Ec. destruct Ec as [Ea Eb].
    apply Z.ltb_lt in Ea. apply Z.geb_le in Eb. split; [|lia].
    intros Heq. rewrite Heq in Ea. simpl in Ea. lia.
  - split; [intros H; exfalso; apply H; reflexivity|].
    intros [_ [Hall|[Hj Ht]]]; [exfalso; exact (Hnall Hall)|].
    exfalso. apply andb_false_iff in Ec. destruct Ec as [Ea|Eb].
    + apply Z.ltb_ge in Ea. destruct (rejections s); [apply Hj; reflexivity | simpl in Ea; lia].
    + assert (Hb : (Z.of_nat (length (filter (fun e => code_eqb (snd e) Invalid) (rejections s))) * tden >=?
             tnum * Z.of_nat (length (replies s))) = true) by (apply Z.geb_le; lia).
      rewrite Hb in Eb. discriminate.
Qed.

Lemma send_transaction_iff : forall order ms tnum tden,
  send_transaction order ms tnum tden <> VNone <->
  should_fail (replies (collect ms)) (rejections (collect ms)) tnum tden.
Proof. intros. unfold send_transaction. apply verdict_iff. apply q_inv_collect. Qed.

(* ------------------------------------------------------------------ *)
(* (a) broadcaster *)

Lemma run_from_app : forall ds a b s,
  run_from ds s (a ++ b) =
  (fst (run_from ds (fst (run_from ds s a)) b),
   snd (run_from ds s a) ++ snd (run_from ds (fst (run_from ds s a)) b)).
Proof.
  intros ds a. induction a as [|e a IH]; intros b s; simpl.
  - destruct (run_from ds s b); reflexivity.
  - destruct (step ds s e) as [s1 o] eqn:E. rewrite IH.
    destruct (run_from ds s1 a) as [s2 os]. simpl. reflexivity.
Qed.

Lemma run_from_length : forall ds evs s, length (snd (run_from ds s evs)) = length evs.
Proof.
  intros ds evs. induction evs as [|e evs IH]; intros s; simpl; [reflexivity|].
  destruct (step ds s e) as [s1 o]. specialize (IH s1). destruct (run_from ds s1 evs). simpl in *. lia.
Qed.

Lemma combine_app' : forall (A B : Type) (a a' : list A) (b b' : list B),
  length a = length b -> combine (a ++ a') (b ++ b') = combine a b ++ combine a' b'.
Proof.
  intros A B a. induction a as [|x a IH]; intros a' b b' H; destruct b as [|y b]; simpl in *;
    try discriminate; [reflexivity|]. f_equal. apply IH. lia.
Qed.

Lemma run_snoc : forall ds evs e, run ds (evs ++ [e]) = fst (step ds (run ds evs) e).
Proof.
  intros. unfold run. rewrite run_from_app. simpl.
  destruct (step ds (fst (run_from ds init evs)) e). reflexivity.
Qed.

Lemma trace_snoc : forall ds evs e,
  trace ds (evs ++ [e]) = trace ds evs ++ [(e, snd (step ds (run ds evs) e))].
Proof.
  intros. unfold trace, run. rewrite run_from_app. simpl.
  destruct (step ds (fst (run_from ds init evs)) e) as [s1 o]. simpl.
  rewrite combine_app' by (rewrite run_from_length; reflexivity). reflexivity.
Qed.

Section BroadcasterProofs.
Variable deps : deps_t.
Variable depsort : nat -> list Z -> list Z.
Hypothesis Hsort : forall k l, NoDup l -> is_topo_perm deps l (depsort k l) = true.

(* sent ++ todo is a topological permutation of the snapshot *)
Definition good (snapshot snt todo : list Z) : Prop :=
  is_topo_perm deps snapshot (snt ++ todo) = true.

Lemma pf_app : forall sn b a c,
  pf deps sn a (b ++ c) = pf deps sn a b && pf deps sn (a ++ b) c.
Proof.
  intros sn b. induction b as [|x b IH]; intros a c; simpl.
  - rewrite app_nil_r. reflexivity.
  - rewrite IH. rewrite <- app_assoc. simpl. rewrite andb_assoc. reflexivity.
Qed.

Lemma topo_parts : forall sn ord, is_topo_perm deps sn ord = true ->
  nodupb ord = true /\ length ord = length sn /\
  forallb (fun x => mem x sn) ord = true /\ pf deps sn [] ord = true.
Proof.
  intros sn ord H. unfold is_topo_perm in H.
  apply andb_true_iff in H. destruct H as [H H4].
  apply andb_true_iff in H. destruct H as [H H3].
  apply andb_true_iff in H. destruct H as [H1 H2].
  apply Nat.eqb_eq in H2. repeat split; assumption.
Qed.

Lemma good_start : forall k l, NoDup l ->
  good l [] (match l with [] => [] | z :: l0 => depsort k (z :: l0) end).
Proof.
  intros k l Hl. unfold good. simpl. destruct l as [|a l']; [reflexivity|]. apply Hsort. exact Hl.
Qed.

Lemma good_next : forall snapshot snt tx rest, good snapshot snt (tx :: rest) ->
  good snapshot (snt ++ [tx]) rest /\ mem tx snapshot = true /\ mem tx snt = false /\
  forallb (fun p => implb (mem p snapshot) (mem p snt)) (parents deps tx) = true.
Proof.
  intros snapshot snt tx rest H. unfold good in *.
  assert (Ha : (snt ++ [tx]) ++ rest = snt ++ tx :: rest) by (rewrite <- app_assoc; reflexivity).
  rewrite Ha. split; [exact H|].
  destruct (topo_parts _ _ H) as (H1 & H2 & H3 & H4). repeat split.
  - rewrite forallb_app in H3. apply andb_true_iff in H3. destruct H3 as [_ H3]. simpl in H3.
    apply andb_true_iff in H3. destruct H3 as [H3 _]. exact H3.
  - apply (nodupb_mid _ _ _ H1).
  - rewrite pf_app in H4. apply andb_true_iff in H4. destruct H4 as [_ H4]. simpl in H4.
    apply andb_true_iff in H4. destruct H4 as [H4 _]. exact H4.
Qed.

Lemma good_done : forall snapshot snt, good snapshot snt [] -> length snt = length snapshot.
Proof.
  intros snapshot snt H. unfold good in H. rewrite app_nil_r in H.
  destruct (topo_parts _ _ H) as (_ & H2 & _). exact H2.
Qed.

Definition Inv0 (s : st) (m : mon) : Prop :=
  m_ok m = true /\ m_pend m = pending s /\ m_stopped m = stopped s /\ NoDup (pending s) /\
  match wk s with
  | WIdle => m_run m = None
  | WRun todo => exists snt, m_run m = Some (snap s, snt) /\ m_inflight m = false /\
                             m_conf m = false /\ good (snap s) snt todo
  | WCall tx todo => exists snt0, m_run m = Some (snap s, snt0 ++ [tx]) /\ m_inflight m = true /\
                                  good (snap s) (snt0 ++ [tx]) todo
  | WHand tx todo => exists snt0, m_run m = Some (snap s, snt0 ++ [tx]) /\ m_inflight m = false /\
                                  m_conf m = true /\ good (snap s) (snt0 ++ [tx]) todo
  end.

Lemma Inv0_init : Inv0 init m_init.
Proof. unfold Inv0; simpl. repeat split. constructor. Qed.

Lemma ret_eqb_err : forall o, accepted o = false -> ret_eqb (RErr o) (RErr o) = true.
Proof. intros [|[]|]; simpl; intros H; try reflexivity; discriminate. Qed.

Lemma last_snoc : forall (l : list Z) x d, last (l ++ [x]) d = x.
Proof.
  induction l as [|a l IH]; intros x d; simpl; [reflexivity|].
  destruct (l ++ [x]) eqn:E; [destruct l; discriminate|]. rewrite <- E. apply IH.
Qed.

Lemma snoc_length_nz : forall (l : list Z) x, (length (l ++ [x]) =? 0)%nat = false.
Proof. intros. rewrite app_length. simpl. apply Nat.eqb_neq. lia. Qed.

Ltac fin := repeat split; try assumption; try reflexivity;
  try (match goal with E : stopped _ = _ |- _ => rewrite E; (assumption || reflexivity) end).

Lemma Inv0_step : forall s m e s' o, Inv0 s m -> step0 depsort s e = (s', o) ->
  Inv0 s' (m_step deps m (e, o)).
Proof.
  intros s m e s' o (Hok & Hp & Hs & Hnd & Hw) Hstep.
  destruct e as [tx oc | tx | | | | oc | | | | tx | oc | ]; simpl in Hstep.
  - (* EBroadcast *)
    destruct (stopped s) eqn:Est.
    + inversion Hstep; subst; clear Hstep. simpl. rewrite Hs. simpl. rewrite Z.eqb_refl. simpl.
      unfold Inv0, flag; simpl. rewrite Hok. fin.
    + destruct (accepted oc) eqn:Ea; inversion Hstep; subst; clear Hstep; simpl.
      * rewrite Hs, Ea. simpl. rewrite Z.eqb_refl. simpl.
        unfold Inv0, with_pend, flag; simpl. rewrite Hok, Hp. fin.
        apply NoDup_add. exact Hnd.
      * rewrite Hs, Ea. simpl. rewrite Z.eqb_refl. pose proof (ret_eqb_err _ Ea) as Hre. simpl in Hre. rewrite Hre. simpl.
        unfold Inv0, flag; simpl. rewrite Hok. fin.
  - (* EConf *)
    destruct (stopped s) eqn:Est; inversion Hstep; subst; clear Hstep; simpl.
    + unfold Inv0, flag; simpl. rewrite Hok, Hs. fin.
    + rewrite Z.eqb_refl. unfold Inv0, with_pend, flag; simpl. rewrite Hok, Hs, Hp. simpl.
      fin. apply NoDup_remove. exact Hnd.
  - (* EBlock *)
    unfold trigger in Hstep. destruct (stopped s) eqn:Est.
    + inversion Hstep; subst; clear Hstep. simpl. unfold Inv0. fin.
    + destruct (wk s) eqn:Ew; inversion Hstep; subst; clear Hstep; simpl.
      * rewrite Hw. unfold Inv0; simpl. rewrite Hok, Hs, Hp. simpl. fin.
        exists []. repeat split; try reflexivity; apply (good_start (nsort s) (pending s) Hnd).
      * destruct Hw as (snt & Hr & Hw). rewrite Hr. unfold Inv0, flag; simpl.
        rewrite Hok, Hs, Ew. simpl. fin. exists snt. split; assumption.
      * destruct Hw as (snt & Hr & Hw). rewrite Hr. unfold Inv0, flag; simpl.
        rewrite Hok, Hs, Ew. simpl. fin. exists snt. split; assumption.
      * destruct Hw as (snt & Hr & Hw). rewrite Hr. unfold Inv0, flag; simpl.
        rewrite Hok, Hs, Ew. simpl. fin. exists snt. split; assumption.
  - (* ETick *)
    unfold trigger in Hstep. destruct (stopped s) eqn:Est.
    + inversion Hstep; subst; clear Hstep. simpl. unfold Inv0. fin.
    + destruct (wk s) eqn:Ew; inversion Hstep; subst; clear Hstep; simpl.
      * rewrite Hw. unfold Inv0; simpl. rewrite Hok, Hs, Hp. simpl. fin.
        exists []. repeat split; try reflexivity; apply (good_start (nsort s) (pending s) Hnd).
      * destruct Hw as (snt & Hr & Hw). rewrite Hr. unfold Inv0, flag; simpl.
        rewrite Hok, Hs, Ew. simpl. fin. exists snt. split; assumption.
      * destruct Hw as (snt & Hr & Hw). rewrite Hr. unfold Inv0, flag; simpl.
        rewrite Hok, Hs, Ew. simpl. fin. exists snt. split; assumption.
      * destruct Hw as (snt & Hr & Hw). rewrite Hr. unfold Inv0, flag; simpl.
        rewrite Hok, Hs, Ew. simpl. fin. exists snt. split; assumption.
  - (* EWCall *)
    destruct (wk s) as [|[|tx rest]|tx rest|tx rest] eqn:Ew;
      try (inversion Hstep; subst; clear Hstep; simpl; unfold Inv0; rewrite Ew; fin).
    destruct Hw as (snt & Hr & Hi & Hc & Hg).
    destruct (stopped s) eqn:Est; inversion Hstep; subst; clear Hstep; simpl.
    + rewrite Hr. unfold Inv0; simpl. rewrite Hok, Hi, Hs. simpl. fin.
    + rewrite Hr. destruct (good_next _ _ _ _ Hg) as (Hg' & Hm1 & Hm2 & Hm3).
      unfold Inv0; simpl. rewrite Hok, Hs, Hi, Hc, Hm1, Hm2, Hm3. simpl.
      fin. exists snt. repeat split; try reflexivity; apply Hg'.
  - (* EWRet *)
    destruct (wk s) as [|todo|tx rest|tx rest] eqn:Ew;
      try (inversion Hstep; subst; clear Hstep; simpl; unfold Inv0; rewrite Ew; fin).
    destruct Hw as (snt0 & Hr & Hi & Hg).
    destruct (is_confirmed oc) eqn:Ec; inversion Hstep; subst; clear Hstep; simpl;
      unfold Inv0; simpl; rewrite Hok, Hi; simpl; fin.
    + exists snt0. repeat split; try assumption; try apply Hg.
    + exists (snt0 ++ [tx]). repeat split; try assumption; try apply Hg.
  - (* EWHandoff *)
    destruct (wk s) as [|todo|tx rest|tx rest] eqn:Ew;
      try (inversion Hstep; subst; clear Hstep; simpl; unfold Inv0; rewrite Ew; fin).
    destruct Hw as (snt0 & Hr & Hi & Hc & Hg).
    destruct (stopped s) eqn:Est; inversion Hstep; subst; clear Hstep; simpl.
    + rewrite Hr. unfold Inv0; simpl. rewrite Hok, Hi, Hs. simpl. fin.
    + unfold Inv0; simpl. rewrite Hok, Hs, Hc, Hr, last_snoc, Z.eqb_refl, snoc_length_nz, Hp. simpl.
      fin.
      * apply NoDup_remove. exact Hnd.
      * exists (snt0 ++ [tx]). repeat split; try assumption; try apply Hg.
  - (* EWDone *)
    destruct (wk s) as [|[|tx rest]|tx rest|tx rest] eqn:Ew;
      try (inversion Hstep; subst; clear Hstep; simpl; unfold Inv0; rewrite Ew; fin).
    + destruct Hw as (snt & Hr & Hi & Hc & Hg). inversion Hstep; subst; clear Hstep; simpl.
      rewrite Hr. pose proof (good_done _ _ Hg) as Hl.
      unfold Inv0; simpl. rewrite Hok, Hi, Hc, Hl, Nat.eqb_refl, orb_true_r. simpl. fin.
    + destruct Hw as (snt & Hr & Hi & Hc & Hg).
      destruct (stopped s) eqn:Est; inversion Hstep; subst; clear Hstep; simpl.
      * rewrite Hr. unfold Inv0; simpl. rewrite Hok, Hi, Hs. simpl. fin.
      * unfold Inv0. rewrite Ew. fin. exists snt. auto.
    + destruct Hw as (snt0 & Hr & Hi & Hc & Hg).
      destruct (stopped s) eqn:Est; inversion Hstep; subst; clear Hstep; simpl.
      * rewrite Hr. unfold Inv0; simpl. rewrite Hok, Hi, Hs. simpl. fin.
      * unfold Inv0. rewrite Ew. fin. exists snt0. auto.
  - (* EStop *)
    destruct (stopped s) eqn:Est; inversion Hstep; subst; clear Hstep; simpl.
    + unfold Inv0; simpl. fin.
    + unfold Inv0; simpl. fin.
  - inversion Hstep; subst; clear Hstep. simpl. unfold Inv0. fin.
  - inversion Hstep; subst; clear Hstep. simpl. unfold Inv0. fin.
  - inversion Hstep; subst; clear Hstep. simpl. unfold Inv0. fin.
Qed.

(* ---------- the full step (split Broadcast requests) ---------- *)

Lemma step0_busy : forall s e s' o, step0 depsort s e = (s', o) -> hbusy s' = hbusy s.
Proof.
  intros s e s' o H. destruct e; simpl in H; unfold trigger in H;
    repeat match goal with
           | H : context [if ?c then _ else _] |- _ => destruct c
           | H : context [match ?w with _ => _ end] |- _ => destruct w
           end; inversion H; subst; reflexivity.
Qed.

Lemma m_step_busy0 : forall m s e s' o, step0 depsort s e = (s', o) ->
  m_busy (m_step deps m (e, o)) = m_busy m.
Proof.
  intros m s e s' o H. destruct e; simpl in H; unfold trigger in H;
    repeat match goal with
           | H : context [if ?c then _ else _] |- _ => destruct c
           | H : context [match ?w with _ => _ end] |- _ => destruct w
           end; inversion H; subst; simpl;
    repeat match goal with
           | |- context [match ?x with _ => _ end] => destruct x
           end; reflexivity.
Qed.

Definition Inv (s : st) (m : mon) : Prop := Inv0 s m /\ m_busy m = hbusy s.

Lemma Inv_init : Inv init m_init.
Proof. split; [apply Inv0_init | reflexivity]. Qed.

Lemma Inv_via0 : forall s m e s' o, Inv s m -> step0 depsort s e = (s', o) ->
  Inv s' (m_step deps m (e, o)).
Proof.
  intros s m e s' o [H0 Hb] Hstep. split.
  - eapply Inv0_step; eauto.
  - rewrite (m_step_busy0 _ _ _ _ _ Hstep), (step0_busy _ _ _ _ Hstep). exact Hb.
Qed.

Lemma Inv_step : forall s m e s' o, Inv s m -> step depsort s e = (s', o) ->
  Inv s' (m_step deps m (e, o)).
Proof.
  intros s m e s' o HI Hstep.
  assert (Hguard : forall e0, e0 = e ->
     (if handler_event e && negb (stopped s) && match hbusy s with Some _ => true | None => false end
      then (s, ONone) else step0 depsort s e) = (s', o) -> Inv s' (m_step deps m (e, o))).
  { intros e0 _ Hg.
    destruct (handler_event e && negb (stopped s) && match hbusy s with Some _ => true | None => false end).
    - inversion Hg; subst. destruct e; exact HI.
    - eapply Inv_via0; eauto. }
  destruct e as [tx oc | tx | | | | oc | | | | tx | oc | ]; try (apply (Hguard _ eq_refl); exact Hstep).
  - (* EStop *)
    unfold step in Hstep. destruct (hbusy s) as [b|] eqn:Eb; [|eapply Inv_via0; eauto].
    destruct HI as [(Hok & Hp & Hs & Hnd & Hw) Hb]. rewrite Eb in Hb. simpl in Hstep.
    destruct (stopped s) eqn:Est; inversion Hstep; subst; clear Hstep; simpl.
    + split; [|simpl; congruence]. unfold Inv0; simpl. fin.
    + split; [|simpl; congruence]. unfold Inv0; simpl.
      rewrite Hok, Hs, Hb, Z.eqb_refl. simpl. fin.
  - (* EBcStart *)
    simpl in Hstep. destruct HI as [(Hok & Hp & Hs & Hnd & Hw) Hb].
    destruct (stopped s) eqn:Est.
    + inversion Hstep; subst; clear Hstep. simpl. rewrite Z.eqb_refl, Hs. simpl.
      split; [|simpl; congruence]. unfold Inv0, flag; simpl. rewrite Hok. fin.
    + destruct (hbusy s) as [b|] eqn:Eb; inversion Hstep; subst; clear Hstep; simpl.
      * split; [unfold Inv0; fin | simpl; congruence].
      * split; [|reflexivity]. unfold Inv0; simpl. rewrite Hok, Hs, Hb, Z.eqb_refl. simpl. fin.
  - (* EBcRet *)
    simpl in Hstep. destruct HI as [(Hok & Hp & Hs & Hnd & Hw) Hb].
    destruct (hbusy s) as [b|] eqn:Eb.
    2:{ inversion Hstep; subst; clear Hstep. simpl. split; [unfold Inv0; fin | simpl; congruence]. }
    destruct (stopped s) eqn:Est.
    + inversion Hstep; subst; clear Hstep. simpl. split; [|reflexivity].
      unfold Inv0; simpl. rewrite Hok, Hs, Hb, Est. simpl. fin.
    + destruct (accepted oc) eqn:Ea; inversion Hstep; subst; clear Hstep; simpl.
      * split; [|reflexivity]. unfold Inv0; simpl. rewrite Hok, Hs, Hb, Z.eqb_refl, Ea, Hp, Est. simpl.
        fin. apply NoDup_add. exact Hnd.
      * split; [|reflexivity]. pose proof (ret_eqb_err _ Ea) as Hre. simpl in Hre.
        unfold Inv0; simpl. rewrite Hok, Hs, Hb, Z.eqb_refl, Ea, Est. simpl. rewrite Hre.
        destruct oc as [|c|]; simpl; fin.
Qed.

Lemma sim_run : forall evs s m, Inv s m ->
  Inv (fst (run_from depsort s evs))
      (fold_left (m_step deps) (combine evs (snd (run_from depsort s evs))) m).
Proof.
  induction evs as [|e evs IH]; intros s m H; simpl; [exact H|].
  destruct (step depsort s e) as [s1 o] eqn:E.
  specialize (IH s1 (m_step deps m (e, o)) (Inv_step _ _ _ _ _ H E)).
  destruct (run_from depsort s1 evs) as [s2 os]. simpl in *. exact IH.
Qed.

Lemma model_holds : forall evs, holds deps (trace depsort evs) = true.
Proof.
  intros evs. unfold holds, m_run_all, trace.
  destruct (sim_run evs init m_init Inv_init) as ((H & _) & _). exact H.
Qed.

Lemma pending_nodup : forall evs, NoDup (pending (run depsort evs)).
Proof.
  intros evs. unfold run.
  destruct (sim_run evs init m_init Inv_init) as ((_ & _ & _ & H & _) & _). exact H.
Qed.

(* ---------- the pending set, declaratively ---------- *)

Lemma au_snoc : forall tr x tx,
  accepted_unconfirmed (tr ++ [x]) tx <->
  accepts x tx = true \/ (accepted_unconfirmed tr tx /\ confirms x tx = false).
Proof.
  intros tr x tx. unfold accepted_unconfirmed. split.
  - intros (pre & y & post & Heq & Ha & Hc).
    destruct post as [|z post0] using rev_ind.
    + apply app_inj_tail in Heq. destruct Heq as [_ Heq]. subst. left. exact Ha.
    + clear IHpost0. right.
      change (pre ++ y :: post0 ++ [z]) with (pre ++ (y :: post0) ++ [z]) in Heq.
      rewrite app_assoc in Heq. apply app_inj_tail in Heq. destruct Heq as [Heq Hz]. subst z.
      rewrite forallb_app in Hc. apply andb_true_iff in Hc. destruct Hc as [Hc1 Hc2].
      simpl in Hc2. rewrite andb_true_r in Hc2. apply negb_true_iff in Hc2.
      split; [|exact Hc2]. exists pre, y, post0. repeat split; assumption.
  - intros [Ha | [(pre & y & post & Heq & Ha & Hc) Hx]].
    + exists tr, x, []. repeat split; [exact Ha].
    + exists pre, y, (post ++ [x]). subst tr. repeat split.
      * rewrite <- app_assoc. reflexivity.
      * exact Ha.
      * rewrite forallb_app, Hc. simpl. rewrite Hx. reflexivity.
Qed.

Lemma step0_pending : forall s e s' o, step0 depsort s e = (s', o) -> forall tx,
  In tx (pending s') <->
  accepts (e, o) tx = true \/ (In tx (pending s) /\ confirms (e, o) tx = false).
Proof.
  intros s e s' o Hstep tx.
  assert (Hsame : forall p, accepts (e, o) tx = false -> confirms (e, o) tx = false ->
            (In tx p <-> accepts (e, o) tx = true \/ (In tx p /\ confirms (e, o) tx = false))).
  { intros p Ha Hc. rewrite Ha, Hc. split; [intros H; right; auto | intros [H|[H _]]; [discriminate | exact H]]. }
  destruct e as [t oc | t | | | | oc | | | | t | oc | ]; simpl in Hstep; unfold trigger in Hstep.
  - destruct (stopped s); [inversion Hstep; subst; apply Hsame; reflexivity|].
    destruct (accepted oc); inversion Hstep; subst; [|apply Hsame; reflexivity].
    unfold accepts, confirms; simpl. rewrite In_add. rewrite Z.eqb_eq. split.
    + intros [H|H]; [left; auto | right; auto].
    + intros [H|[H _]]; [left; auto | right; exact H].
  - destruct (stopped s); inversion Hstep; subst; [apply Hsame; reflexivity|].
    unfold accepts, confirms; simpl. rewrite In_remove. rewrite Z.eqb_neq. split.
    + intros [H1 H2]. right. split; auto.
    + intros [H|[H1 H2]]; [discriminate | split; auto].
  - destruct (stopped s); [inversion Hstep; subst; apply Hsame; reflexivity|].
    destruct (wk s); inversion Hstep; subst; apply Hsame; reflexivity.
  - destruct (stopped s); [inversion Hstep; subst; apply Hsame; reflexivity|].
    destruct (wk s); inversion Hstep; subst; apply Hsame; reflexivity.
  - destruct (wk s) as [|[|t rest]|t rest|t rest]; try (inversion Hstep; subst; apply Hsame; reflexivity).
    destruct (stopped s); inversion Hstep; subst; apply Hsame; reflexivity.
  - destruct (wk s) as [|todo|t rest|t rest]; try (inversion Hstep; subst; apply Hsame; reflexivity).
    destruct (is_confirmed oc); inversion Hstep; subst; apply Hsame; reflexivity.
  - destruct (wk s) as [|todo|t rest|t rest]; try (inversion Hstep; subst; apply Hsame; reflexivity).
    destruct (stopped s); inversion Hstep; subst; [apply Hsame; reflexivity|].
    unfold accepts, confirms; simpl. rewrite In_remove. rewrite Z.eqb_neq. split.
    + intros [H1 H2]. right. split; auto.
    + intros [H|[H1 H2]]; [discriminate | split; auto].
  - destruct (wk s) as [|[|t rest]|t rest|t rest]; try (inversion Hstep; subst; apply Hsame; reflexivity);
      destruct (stopped s); inversion Hstep; subst; apply Hsame; reflexivity.
  - destruct (stopped s); inversion Hstep; subst; apply Hsame; reflexivity.
  - inversion Hstep; subst; apply Hsame; reflexivity.
  - inversion Hstep; subst; apply Hsame; reflexivity.
  - inversion Hstep; subst; apply Hsame; reflexivity.
Qed.

Lemma step_cases : forall s e s' o, step depsort s e = (s', o) ->
  (s' = s /\ o = ONone) \/
  (step0 depsort s e = (s', o)) \/
  (exists tx, e = EBcStart tx /\
     ((stopped s = true /\ s' = s /\ o = ORet tx RStopped) \/
      (stopped s = false /\ hbusy s = None /\ s' = set_busy s (Some tx) /\ o = OBcHeld tx))) \/
  (exists oc tx, e = EBcRet oc /\ hbusy s = Some tx /\
     ((stopped s = true /\ s' = set_busy s None /\ o = OAnsH) \/
      (stopped s = false /\ accepted oc = true /\
       s' = set_busy (set_pending s (add tx (pending s))) None /\ o = ORet tx RNil) \/
      (stopped s = false /\ accepted oc = false /\ s' = set_busy s None /\ o = ORet tx (RErr oc)))) \/
  (exists tx, e = EStop /\ hbusy s = Some tx /\ stopped s = false /\
     s' = fst (step0 depsort s EStop) /\ o = OStopBc tx).
Proof.
  intros s e s' o Hstep.
  assert (Hguard :
     (if handler_event e && negb (stopped s) && match hbusy s with Some _ => true | None => false end
      then (s, ONone) else step0 depsort s e) = (s', o) ->
     (s' = s /\ o = ONone) \/ (step0 depsort s e = (s', o))).
  { destruct (handler_event e && negb (stopped s) && match hbusy s with Some _ => true | None => false end);
      intros H; [left; inversion H; auto | right; exact H]. }
  destruct e as [tx oc | tx | | | | oc | | | | tx | oc | ];
    try (destruct (Hguard Hstep) as [H|H]; [left; exact H | right; left; exact H]).
  - unfold step in Hstep. destruct (hbusy s) as [b|] eqn:Eb; [|right; left; exact Hstep].
    destruct (stopped s) eqn:Est.
    + right. left. simpl. rewrite Est. exact Hstep.
    + right. right. right. right. exists b. inversion Hstep; subst. repeat split; auto.
  - simpl in Hstep. destruct (stopped s) eqn:Est.
    + right. right. left. exists tx. split; [reflexivity|]. left. inversion Hstep; auto.
    + destruct (hbusy s) eqn:Eb; inversion Hstep; subst; [left; auto|].
      right. right. left. exists tx. split; [reflexivity|]. right. auto.
  - simpl in Hstep. destruct (hbusy s) as [b|] eqn:Eb; [|left; inversion Hstep; auto].
    right. right. right. left. exists oc, b. split; [reflexivity|]. split; [reflexivity|].
    destruct (stopped s) eqn:Est; [left; inversion Hstep; auto|].
    destruct (accepted oc) eqn:Ea; inversion Hstep; subst; right; [left | right]; auto.
Qed.

Lemma step_pending : forall s e s' o, step depsort s e = (s', o) -> forall tx,
  In tx (pending s') <->
  accepts (e, o) tx = true \/ (In tx (pending s) /\ confirms (e, o) tx = false).
Proof.
  intros s e s' o Hstep tx.
  assert (Hsame : accepts (e, o) tx = false -> confirms (e, o) tx = false -> pending s' = pending s ->
            (In tx (pending s') <-> accepts (e, o) tx = true \/ (In tx (pending s) /\ confirms (e, o) tx = false))).
  { intros Ha Hc Hp. rewrite Ha, Hc, Hp. split; [intros H; right; auto | intros [H|[H _]]; [discriminate | exact H]]. }
  destruct (step_cases _ _ _ _ Hstep) as [[H1 H2] | [H | [(t & He & H) | [(oc & t & He & Hb & H) | (t & He & Hb & Hs & H1 & H2)]]]].
  - subst. apply Hsame; reflexivity.
  - apply (step0_pending _ _ _ _ H).
  - destruct H as [(_ & H1 & H2) | (_ & _ & H1 & H2)]; subst; apply Hsame; reflexivity.
  - destruct H as [(_ & H1 & H2) | [(_ & _ & H1 & H2) | (_ & _ & H1 & H2)]]; subst;
      try (apply Hsame; reflexivity).
    unfold accepts, confirms; simpl. rewrite In_add. rewrite Z.eqb_eq. split.
    + intros [H|H]; [left; auto | right; auto].
    + intros [H|[H _]]; [left; auto | right; exact H].
  - subst. apply Hsame; try reflexivity. simpl. rewrite Hs. reflexivity.
Qed.

Lemma pending_exact : forall evs tx,
  In tx (pending (run depsort evs)) <-> accepted_unconfirmed (trace depsort evs) tx.
Proof.
  intros evs. induction evs as [|e evs IH] using rev_ind; intros tx.
  - unfold run, trace, accepted_unconfirmed; simpl. split; [intros []|].
    intros (pre & y & post & Heq & _). destruct pre; discriminate.
  - rewrite run_snoc, trace_snoc, au_snoc.
    destruct (step depsort (run depsort evs) e) as [s' o] eqn:E. simpl.
    rewrite (step_pending _ _ _ _ E tx). rewrite IH. reflexivity.
Qed.

(* ---------- the running rebroadcast ---------- *)

Definition is_trigger (e : ev) : Prop := e = EBlock \/ e = ETick.

Ltac kp := repeat split; auto; try congruence;
  try (match goal with E : wk _ = _ |- _ => rewrite E; simpl; auto end).

Lemma step0_running : forall s e s' o, step0 depsort s e = (s', o) -> wk s' <> WIdle ->
  (wk s = WIdle /\ stopped s = false /\ is_trigger e /\ snap s' = pending s /\
   nsort s' = S (nsort s) /\ sent s' = [] /\
   todo_of (wk s') = match pending s with [] => [] | z :: l0 => depsort (nsort s) (z :: l0) end)
  \/
  (wk s <> WIdle /\ snap s' = snap s /\ nsort s' = nsort s /\
   (good (snap s) (sent s) (todo_of (wk s)) -> good (snap s') (sent s') (todo_of (wk s')))).
Proof.
  intros s e s' o Hstep Hrun.
  destruct e as [t oc | t | | | | oc | | | | t | oc | ]; simpl in Hstep; unfold trigger in Hstep.
  - destruct (stopped s); [|destruct (accepted oc)]; inversion Hstep; subst; simpl in *;
      right; repeat split; auto.
  - destruct (stopped s); inversion Hstep; subst; simpl in *; right; repeat split; auto.
  - destruct (stopped s) eqn:Est; [inversion Hstep; subst; right; repeat split; auto|].
    destruct (wk s) eqn:Ew; inversion Hstep; subst; simpl in *.
    + left. unfold is_trigger. repeat split; auto.
    + right; kp.
    + right; kp.
    + right; kp.
  - destruct (stopped s) eqn:Est; [inversion Hstep; subst; right; repeat split; auto|].
    destruct (wk s) eqn:Ew; inversion Hstep; subst; simpl in *.
    + left. unfold is_trigger. repeat split; auto.
    + right; kp.
    + right; kp.
    + right; kp.
  - right. destruct (wk s) as [|[|t rest]|t rest|t rest] eqn:Ew;
      try (inversion Hstep; subst; simpl in *; kp; fail).
    destruct (stopped s); inversion Hstep; subst; simpl in *; [exfalso; apply Hrun; reflexivity|].
    repeat split; auto; [congruence|]. intros Hg. apply (good_next _ _ _ _ Hg).
  - right. destruct (wk s) as [|todo|t rest|t rest] eqn:Ew;
      try (inversion Hstep; subst; simpl in *; kp; fail).
    destruct (is_confirmed oc); inversion Hstep; subst; simpl in *;
      kp.
  - right. destruct (wk s) as [|todo|t rest|t rest] eqn:Ew;
      try (inversion Hstep; subst; simpl in *; kp; fail).
    destruct (stopped s); inversion Hstep; subst; simpl in *; [exfalso; apply Hrun; reflexivity|].
    kp.
  - right. destruct (wk s) as [|[|t rest]|t rest|t rest] eqn:Ew;
      try (inversion Hstep; subst; simpl in *; kp; fail);
      try (inversion Hstep; subst; simpl in *; exfalso; apply Hrun; reflexivity);
      destruct (stopped s); inversion Hstep; subst; simpl in *;
      try (exfalso; apply Hrun; reflexivity); kp.
  - right. destruct (stopped s); inversion Hstep; subst; simpl in *; repeat split; auto.
  - inversion Hstep; subst; right; repeat split; auto.
  - inversion Hstep; subst; right; repeat split; auto.
  - inversion Hstep; subst; right; repeat split; auto.
Qed.

Lemma step_running : forall s e s' o, step depsort s e = (s', o) -> wk s' <> WIdle ->
  (wk s = WIdle /\ stopped s = false /\ is_trigger e /\ snap s' = pending s /\
   nsort s' = S (nsort s) /\ sent s' = [] /\
   todo_of (wk s') = match pending s with [] => [] | z :: l0 => depsort (nsort s) (z :: l0) end)
  \/
  (wk s <> WIdle /\ snap s' = snap s /\ nsort s' = nsort s /\
   (good (snap s) (sent s) (todo_of (wk s)) -> good (snap s') (sent s') (todo_of (wk s')))).
Proof.
  intros s e s' o Hstep Hrun.
  destruct (step_cases _ _ _ _ Hstep) as [[H1 H2] | [H | [(t & He & H) | [(oc & t & He & Hb & H) | (t & He & Hb & Hs & H1 & H2)]]]].
  - subst. right. repeat split; auto.
  - apply (step0_running _ _ _ _ H Hrun).
  - right. destruct H as [(_ & H1 & H2) | (_ & _ & H1 & H2)]; subst; simpl in *; repeat split; auto.
  - right. destruct H as [(_ & H1 & H2) | [(_ & _ & H1 & H2) | (_ & _ & H1 & H2)]]; subst; simpl in *;
      repeat split; auto.
  - right. subst. simpl in *. rewrite Hs in *. simpl in *. repeat split; auto.
Qed.

Lemma running_exact : forall evs, wk (run depsort evs) <> WIdle ->
  exists evs1 trig evs2, evs = evs1 ++ trig :: evs2 /\ is_trigger trig /\
    wk (run depsort evs1) = WIdle /\ stopped (run depsort evs1) = false /\
    snap (run depsort evs) = pending (run depsort evs1) /\
    nsort (run depsort evs) = S (nsort (run depsort evs1)) /\
    is_topo_perm deps (pending (run depsort evs1))
      (sent (run depsort evs) ++ todo_of (wk (run depsort evs))) = true.
Proof.
  intros evs. induction evs as [|e evs IH] using rev_ind; intros Hrun.
  - exfalso. apply Hrun. reflexivity.
  - rewrite run_snoc in *. destruct (step depsort (run depsort evs) e) as [s' o] eqn:E. simpl in *.
    destruct (step_running _ _ _ _ E Hrun) as
      [(H1 & H2 & H3 & H4 & H5 & H6 & H7) | (H1 & H2 & H3 & H4)].
    + exists evs, e, []. repeat split; try assumption.
      rewrite H6, H7. simpl. apply (good_start (nsort (run depsort evs)) _ (pending_nodup evs)).
    + destruct (IH H1) as (evs1 & trig & evs2 & G1 & G2 & G3 & G4 & G5 & G6 & G7).
      exists evs1, trig, (evs2 ++ [e]). repeat split; try assumption.
      * rewrite G1. rewrite <- app_assoc. reflexivity.
      * rewrite H2. exact G5.
      * rewrite H3. exact G6.
      * rewrite <- G5 in G7. specialize (H4 G7). unfold good in H4. rewrite H2, G5 in H4. exact H4.
Qed.

(* a worker call carries the next element of the plan *)
Lemma sent_grows0 : forall s e s' tx, step0 depsort s e = (s', OSent tx) ->
  e = EWCall /\ stopped s = false /\ sent s' = sent s ++ [tx] /\
  exists rest, wk s = WRun (tx :: rest) /\ wk s' = WCall tx rest.
Proof.
  intros s e s' tx Hstep.
  destruct e as [t oc | t | | | | oc | | | | t | oc | ]; simpl in Hstep; unfold trigger in Hstep.
  - destruct (stopped s); [|destruct (accepted oc)]; inversion Hstep.
  - destruct (stopped s); inversion Hstep.
  - destruct (stopped s); [|destruct (wk s)]; inversion Hstep.
  - destruct (stopped s); [|destruct (wk s)]; inversion Hstep.
  - destruct (wk s) as [|[|t rest]|t rest|t rest] eqn:Ew; try (inversion Hstep; fail).
    destruct (stopped s); inversion Hstep; subst; simpl.
    repeat split. exists rest. split; reflexivity.
  - destruct (wk s); [| |destruct (is_confirmed oc)|]; inversion Hstep.
  - destruct (wk s); try (inversion Hstep; fail). destruct (stopped s); inversion Hstep.
  - destruct (wk s) as [|[|t rest]|t rest|t rest]; try (inversion Hstep; fail);
      destruct (stopped s); inversion Hstep.
  - destruct (stopped s); inversion Hstep.
  - inversion Hstep.
  - inversion Hstep.
  - inversion Hstep.
Qed.

(* no overlap: a trigger while a rebroadcast runs changes nothing *)
Lemma trigger_skips0 : forall s e, is_trigger e -> wk s <> WIdle ->
  fst (step0 depsort s e) = s.
Proof.
  intros s e [->| ->] H; simpl; unfold trigger; destruct (stopped s); try reflexivity;
    destruct (wk s); try reflexivity; exfalso; apply H; reflexivity.
Qed.

Lemma trigger_starts0 : forall s e, is_trigger e -> wk s = WIdle -> stopped s = false ->
  let s' := fst (step0 depsort s e) in
  snap s' = pending s /\ sent s' = [] /\ pending s' = pending s /\
  wk s' = WRun (match pending s with [] => [] | z :: l0 => depsort (nsort s) (z :: l0) end).
Proof.
  intros s e [->| ->] Hw Hs; simpl; unfold trigger; rewrite Hs, Hw; simpl; repeat split.
Qed.

(* ---------- callers are never blocked; Stop drains ---------- *)

Lemma callers_return0 : forall s tx o,
  snd (step0 depsort s (EConf tx)) = (if stopped s then OConfQuit else OConfd tx) /\
  (exists r, snd (step0 depsort s (EBroadcast tx o)) = ORet tx r /\
             (stopped s = true -> r = RStopped) /\
             (stopped s = false -> r = if accepted o then RNil else RErr o)) /\
  snd (step0 depsort s EStop) = OStop.
Proof.
  intros s tx o. simpl. destruct (stopped s); simpl.
  - repeat split. exists RStopped. repeat split. intros H; discriminate.
  - repeat split. destruct (accepted o); simpl.
    + exists RNil. repeat split. intros H; discriminate.
    + exists (RErr o). repeat split. intros H; discriminate.
Qed.

Definition wmeasure (s : st) : nat :=
  match wk s with WIdle => 0 | WRun _ | WHand _ _ => 1 | WCall _ _ => 2 end.

(* after Stop nothing revives or prolongs the worker ... *)
Lemma stopped_monotone0 : forall s e, stopped s = true ->
  stopped (fst (step0 depsort s e)) = true /\
  (wmeasure (fst (step0 depsort s e)) <= wmeasure s)%nat.
Proof.
  intros s e Hs. unfold wmeasure.
  destruct (wk s) as [|[|t rest]|t rest|t rest] eqn:Ew;
    destruct e as [t' oc | t' | | | | oc | | | | t' | oc | ]; simpl; unfold trigger;
    rewrite ?Hs, ?Ew; simpl; rewrite ?Hs, ?Ew; simpl;
    try (destruct (is_confirmed oc); simpl; rewrite ?Hs, ?Ew; simpl);
    split; auto; lia.
Qed.

(* ... and the worker's own next transition strictly shortens what Stop's
   wg.Wait() is waiting for: at most two transitions (the return of the call
   in flight, then the exit) *)
Lemma stop_drains0 : forall s o, stopped s = true -> wk s <> WIdle ->
  (wmeasure (fst (step0 depsort s (wnext s o))) < wmeasure s)%nat.
Proof.
  intros s o Hs Hw. unfold wmeasure, wnext.
  destruct (wk s) as [|[|t rest]|t rest|t rest] eqn:Ew; simpl; try rewrite Ew; try rewrite Hs; simpl; try lia.
  - exfalso. apply Hw. reflexivity.
  - destruct (is_confirmed o); simpl; lia.
Qed.

Lemma stop_completes0 : forall s o1 o2, stopped s = true ->
  let s1 := fst (step0 depsort s (wnext s o1)) in
  let s2 := fst (step0 depsort s1 (wnext s1 o2)) in
  wk s2 = WIdle.
Proof.
  intros s o1 o2 Hs. unfold wnext.
  destruct (wk s) as [|[|t rest]|t rest|t rest] eqn:Ew; simpl;
    repeat (progress (rewrite ?Ew, ?Hs; simpl)); try reflexivity.
  destruct (is_confirmed o1); simpl; repeat (progress (rewrite ?Hs; simpl)); try reflexivity.
  destruct rest; simpl; repeat (progress (rewrite ?Hs; simpl)); reflexivity.
Qed.

(* ---------- the same facts for the full step ---------- *)

Lemma sent_grows : forall s e s' tx, step depsort s e = (s', OSent tx) ->
  e = EWCall /\ stopped s = false /\ sent s' = sent s ++ [tx] /\
  exists rest, wk s = WRun (tx :: rest) /\ wk s' = WCall tx rest.
Proof.
  intros s e s' tx Hstep.
  destruct (step_cases _ _ _ _ Hstep) as [[H1 H2] | [H | [(t & He & H) | [(oc & t & He & Hb & H) | (t & He & Hb & Hs & H1 & H2)]]]].
  - discriminate.
  - apply (sent_grows0 _ _ _ _ H).
  - destruct H as [(_ & _ & H2) | (_ & _ & _ & H2)]; discriminate.
  - destruct H as [(_ & _ & H2) | [(_ & _ & _ & H2) | (_ & _ & _ & H2)]]; discriminate.
  - discriminate.
Qed.

Lemma trigger_skips : forall s e, is_trigger e -> wk s <> WIdle ->
  fst (step depsort s e) = s.
Proof.
  intros s e He Hw. pose proof (trigger_skips0 s e He Hw) as H0.
  destruct He as [->| ->]; simpl in *;
    destruct (negb (stopped s) && match hbusy s with Some _ => true | None => false end);
    simpl; auto.
Qed.

Lemma trigger_starts : forall s e, is_trigger e -> wk s = WIdle -> stopped s = false ->
  hbusy s = None ->
  let s' := fst (step depsort s e) in
  snap s' = pending s /\ sent s' = [] /\ pending s' = pending s /\
  wk s' = WRun (match pending s with [] => [] | z :: l0 => depsort (nsort s) (z :: l0) end).
Proof.
  intros s e He Hw Hs Hb. pose proof (trigger_starts0 s e He Hw Hs) as H0.
  destruct He as [->| ->]; simpl in *; rewrite Hs, Hb in *; simpl in *; exact H0.
Qed.

Lemma step_eq0_stopped : forall s e, stopped s = true ->
  (forall t, e <> EBcStart t) -> (forall o, e <> EBcRet o) ->
  step depsort s e = step0 depsort s e.
Proof.
  intros s e Hs H1 H2.
  destruct e as [tx oc | tx | | | | oc | | | | tx | oc | ]; simpl; rewrite ?Hs; simpl; try reflexivity.
  - destruct (hbusy s); reflexivity.
  - exfalso. apply (H1 tx). reflexivity.
  - exfalso. apply (H2 oc). reflexivity.
Qed.

(* callers: after Stop everything returns through quit; before Stop an idle
   handler serves them; a caller whose request is being served is released
   by Stop, or answered when the call returns; and the handler's reply is
   always enabled (buffered errChan), caller present or not *)
Lemma callers_return : forall s tx o,
  (stopped s = true ->
     snd (step depsort s (EConf tx)) = OConfQuit /\
     snd (step depsort s (EBroadcast tx o)) = ORet tx RStopped /\
     snd (step depsort s (EBcStart tx)) = ORet tx RStopped /\
     snd (step depsort s EStop) = OStop) /\
  (stopped s = false -> hbusy s = None ->
     snd (step depsort s (EConf tx)) = OConfd tx /\
     snd (step depsort s (EBroadcast tx o)) = ORet tx (if accepted o then RNil else RErr o) /\
     snd (step depsort s (EBcStart tx)) = OBcHeld tx /\
     snd (step depsort s EStop) = OStop) /\
  (forall b, hbusy s = Some b ->
     (stopped s = false ->
        snd (step depsort s EStop) = OStopBc b /\
        snd (step depsort s (EBcRet o)) = ORet b (if accepted o then RNil else RErr o)) /\
     (stopped s = true -> snd (step depsort s (EBcRet o)) = OAnsH) /\
     hbusy (fst (step depsort s (EBcRet o))) = None).
Proof.
  intros s tx o. split; [|split].
  - intros Hs. simpl. rewrite Hs. simpl. repeat split. destruct (hbusy s); reflexivity.
  - intros Hs Hb. simpl. rewrite Hs, Hb. simpl. repeat split. destruct (accepted o); reflexivity.
  - intros b Hb. simpl. rewrite Hb. split; [|split].
    + intros Hs. rewrite Hs. split; [reflexivity|]. destruct (accepted o); reflexivity.
    + intros Hs. rewrite Hs. reflexivity.
    + destruct (stopped s); [reflexivity|]. destruct (accepted o); reflexivity.
Qed.

(* what Stop's wg.Wait() still waits for: the worker and the handler *)
Definition tmeasure (s : st) : nat :=
  (wmeasure s + match hbusy s with Some _ => 1 | None => 0 end)%nat.

Lemma stopped_monotone : forall s e, stopped s = true ->
  stopped (fst (step depsort s e)) = true /\
  (tmeasure (fst (step depsort s e)) <= tmeasure s)%nat.
Proof.
  intros s e Hs.
  assert (H0 : (forall t, e <> EBcStart t) -> (forall o, e <> EBcRet o) ->
     stopped (fst (step depsort s e)) = true /\
     (tmeasure (fst (step depsort s e)) <= tmeasure s)%nat).
  { intros H1 H2. rewrite (step_eq0_stopped _ _ Hs H1 H2).
    destruct (stopped_monotone0 s e Hs) as [G1 G2]. split; [exact G1|].
    unfold tmeasure. destruct (step0 depsort s e) as [s' o] eqn:E. simpl in *.
    rewrite (step0_busy _ _ _ _ E). lia. }
  destruct e as [tx oc | tx | | | | oc | | | | tx | oc | ]; try (apply H0; intros; discriminate).
  - simpl. rewrite Hs. simpl. split; [exact Hs | lia].
  - simpl. unfold tmeasure, wmeasure. destruct (hbusy s) eqn:Eb; simpl; rewrite ?Hs, ?Eb; simpl.
    + split; [first [reflexivity | exact Hs] | try rewrite Eb; lia].
    + split; [first [reflexivity | exact Hs] | try rewrite Eb; lia].
Qed.

Lemma stop_drains : forall s o, stopped s = true -> wk s <> WIdle ->
  (tmeasure (fst (step depsort s (wnext s o))) < tmeasure s)%nat.
Proof.
  intros s o Hs Hw.
  assert (Hn : step depsort s (wnext s o) = step0 depsort s (wnext s o)).
  { apply step_eq0_stopped; [exact Hs | |]; intros t; unfold wnext; destruct (wk s) as [|[|]| |]; discriminate. }
  rewrite Hn. pose proof (stop_drains0 s o Hs Hw) as H. unfold tmeasure.
  destruct (step0 depsort s (wnext s o)) as [s' ob] eqn:E. simpl in *.
  rewrite (step0_busy _ _ _ _ E). lia.
Qed.

Lemma handler_drains : forall s o b, hbusy s = Some b ->
  let s' := fst (step depsort s (hnext o)) in
  hbusy s' = None /\ wk s' = wk s /\ stopped s' = stopped s.
Proof.
  intros s o b Hb. simpl. rewrite Hb.
  destruct (stopped s) eqn:Es; [|destruct (accepted o)]; simpl; repeat split; auto.
Qed.

Lemma stop_completes : forall s o0 o1 o2, stopped s = true ->
  let s0 := fst (step depsort s (hnext o0)) in
  let s1 := fst (step depsort s0 (wnext s0 o1)) in
  let s2 := fst (step depsort s1 (wnext s1 o2)) in
  wk s2 = WIdle /\ hbusy s2 = None.
Proof.
  intros s o0 o1 o2 Hs.
  set (s0 := fst (step depsort s (hnext o0))).
  assert (H0 : stopped s0 = true /\ hbusy s0 = None).
  { unfold s0. simpl. destruct (hbusy s) eqn:Eb; simpl; rewrite ?Hs; simpl; auto. }
  destruct H0 as [Hs0 Hb0]. simpl.
  assert (Hw : forall s o, stopped s = true -> step depsort s (wnext s o) = step0 depsort s (wnext s o)).
  { intros x o Hx. apply step_eq0_stopped; [exact Hx | |]; intros t; unfold wnext;
      destruct (wk x) as [|[|]| |]; discriminate. }
  rewrite (Hw s0 o1 Hs0).
  destruct (stopped_monotone0 s0 (wnext s0 o1) Hs0) as [Hs1 _].
  rewrite (Hw _ o2 Hs1). split.
  - apply (stop_completes0 s0 o1 o2 Hs0).
  - destruct (step0 depsort s0 (wnext s0 o1)) as [s1 ob1] eqn:E1. simpl in *.
    destruct (step0 depsort s1 (wnext s1 o2)) as [s2 ob2] eqn:E2. simpl.
    rewrite (step0_busy _ _ _ _ E2), (step0_busy _ _ _ _ E1). exact Hb0.
Qed.

End BroadcasterProofs.

(* ---------- meaning of is_topo_perm ---------- *)

Lemma pf_app_g : forall deps sn b a c,
  pf deps sn a (b ++ c) = pf deps sn a b && pf deps sn (a ++ b) c.
Proof.
  intros deps sn b. induction b as [|x b IH]; intros a c; simpl.
  - rewrite app_nil_r. reflexivity.
  - rewrite IH. rewrite <- app_assoc. simpl. rewrite andb_assoc. reflexivity.
Qed.

Lemma is_topo_perm_sound : forall deps sn ord, NoDup sn ->
  is_topo_perm deps sn ord = true -> topo_perm deps sn ord.
Proof.
  intros deps sn ord Hnd H. unfold is_topo_perm in H.
  apply andb_true_iff in H. destruct H as [H H4].
  apply andb_true_iff in H. destruct H as [H H3].
  apply andb_true_iff in H. destruct H as [H1 H2].
  apply Nat.eqb_eq in H2. split.
  - apply NoDup_Permutation_bis.
    + apply nodupb_NoDup. exact H1.
    + lia.
    + intros x Hx. rewrite forallb_forall in H3. apply mem_In. apply H3. exact Hx.
  - intros pre tx post Heq p Hp Hin. subst ord.
    rewrite pf_app_g in H4. apply andb_true_iff in H4. destruct H4 as [_ H4]. simpl in H4.
    apply andb_true_iff in H4. destruct H4 as [H4 _].
    rewrite forallb_forall in H4. specialize (H4 p Hp).
    apply mem_In in Hin. rewrite Hin in H4. simpl in H4. apply mem_In. exact H4.
Qed.

(* ---------- which error sendTransaction returns ---------- *)

Lemma count_code_nonneg : forall cs c, 0 <= count_code cs c.
Proof. intros. unfold count_code. lia. Qed.

Lemma most_rejected_inv : forall cs order acc,
  (snd acc = 0 \/ (snd acc = count_code cs (fst acc) /\ 0 < snd acc)) ->
  let r := fold_left (fun (a : code * Z) c =>
                        if count_code cs c >? snd a then (c, count_code cs c) else a) order acc in
  (snd r = 0 \/ (snd r = count_code cs (fst r) /\ 0 < snd r)) /\ snd acc <= snd r /\
  (forall c, In c order -> count_code cs c <= snd r).
Proof.
  intros cs order. induction order as [|d order IH]; intros acc Hacc; simpl.
  - repeat split; [exact Hacc | lia | intros c []].
  - destruct (count_code cs d >? snd acc) eqn:E.
    + apply Z.gtb_lt in E.
      destruct (IH (d, count_code cs d)) as (H1 & H2 & H3).
      { right. simpl. split; [reflexivity|]. destruct Hacc as [H|[_ H]]; lia. }
      simpl in H2. repeat split; [exact H1 | lia |].
      intros c [->|Hc]; [exact H2 | apply H3; exact Hc].
    + assert (E' : count_code cs d <= snd acc) by (destruct (Z.gtb_spec (count_code cs d) (snd acc)); [discriminate | lia]).
      destruct (IH acc Hacc) as (H1 & H2 & H3). repeat split; [exact H1 | exact H2 |].
      intros c [->|Hc]; [lia | apply H3; exact Hc].
Qed.

Lemma count_pos_exists : forall (J : list (Z * code)) c,
  0 < count_code (map snd J) c -> existsb (fun e => code_eqb (snd e) c) J = true.
Proof.
  intros J c H. unfold count_code in H. rewrite count_filter in H.
  destruct (filter (fun e => code_eqb (snd e) c) J) as [|e l] eqn:E; [simpl in H; lia|].
  assert (Hin : In e (filter (fun e => code_eqb (snd e) c) J)) by (rewrite E; left; reflexivity).
  apply filter_In in Hin. destruct Hin as [Hin He].
  apply existsb_exists. exists e. split; assumption.
Qed.

Lemma count_member_pos : forall cs d, In d cs -> 0 < count_code cs d.
Proof.
  intros cs d H. unfold count_code.
  assert (Hin : In d (filter (code_eqb d) cs)).
  { apply filter_In. split; [exact H | apply code_eqb_eq; reflexivity]. }
  destruct (filter (code_eqb d) cs); [destruct Hin | simpl; lia].
Qed.

Lemma verdict_no_badmapping : forall order s tnum tden, q_inv s ->
  (forall c, In c order) -> 0 < tnum -> 0 < tden ->
  verdict_of order s tnum tden <> VBadMapping.
Proof.
  intros order s tnum tden (H1 & H2 & H3 & H4 & H5) Hord Hn Hd.
  unfold verdict_of.
  destruct (Z.of_nat (length (replies s)) =? 0) eqn:E0; [discriminate|].
  apply Z.eqb_neq in E0.
  destruct (Z.of_nat (length (replies s)) =? Z.of_nat (length (rejections s))) eqn:E1.
  - apply Z.eqb_eq in E1. unfold first_reject_with, most_rejected.
    destruct (most_rejected_inv (rejcodes s) order (Unknown, 0)) as (G1 & G2 & G3); [left; reflexivity|].
    simpl in G1, G2, G3.
    destruct (rejections s) as [|[p d] J] eqn:EJ; [simpl in E1; lia|].
    assert (Hd0 : 0 < count_code (rejcodes s) d) by (apply count_member_pos; rewrite H5; left; reflexivity).
    specialize (G3 d (Hord d)).
    destruct G1 as [G1|[G1 G1']]; [lia|].
    rewrite H5 in G1, G1'. rewrite H5.
    rewrite (count_pos_exists ((p, d) :: J) _); [discriminate|]. lia.
  - destruct ((0 <? Z.of_nat (length (rejections s))) &&
              thr_reached (count_code (rejcodes s) Invalid) (Z.of_nat (length (replies s))) tnum tden) eqn:Ec;
      [|discriminate].
    apply andb_true_iff in Ec. destruct Ec as [_ Eb]. unfold thr_reached in Eb. apply Z.geb_le in Eb.
    unfold first_reject_with. rewrite H5 in Eb.
    rewrite (count_pos_exists (rejections s) Invalid); [discriminate|].
    pose proof (count_code_nonneg (map snd (rejections s)) Invalid). nia.
Qed.

Lemma verdict_err_sound : forall order s tnum tden c,
  verdict_of order s tnum tden = VErr c -> exists p, In (p, c) (rejections s).
Proof.
  intros order s tnum tden c H. unfold verdict_of in H.
  assert (Hf : forall d, first_reject_with (rejections s) d = VErr c -> exists p, In (p, c) (rejections s)).
  { intros d Hd. unfold first_reject_with in Hd.
    destruct (existsb (fun e => code_eqb (snd e) d) (rejections s)) eqn:E; [|discriminate].
    inversion Hd; subst. apply existsb_exists in E. destruct E as ([p d'] & Hin & He).
    simpl in He. apply code_eqb_eq in He. subst. exists p. exact Hin. }
  destruct (Z.of_nat (length (replies s)) =? 0); [discriminate|].
  destruct (Z.of_nat (length (replies s)) =? Z.of_nat (length (rejections s))); [eapply Hf; exact H|].
  destruct (_ && _); [eapply Hf; exact H | discriminate].
Qed.

(* all repliers rejected: the error carries a most frequent reject code *)
Lemma verdict_all_rejected_most : forall order s tnum tden c, q_inv s ->
  (forall c, In c order) ->
  Z.of_nat (length (replies s)) <> 0 ->
  Z.of_nat (length (replies s)) = Z.of_nat (length (rejections s)) ->
  verdict_of order s tnum tden = VErr c ->
  forall c', count_code (rejcodes s) c' <= count_code (rejcodes s) c.
Proof.
  intros order s tnum tden c Hq Hord H0 H1 Hv c'. unfold verdict_of in Hv.
  apply Z.eqb_neq in H0. rewrite H0 in Hv. apply Z.eqb_eq in H1. rewrite H1 in Hv.
  unfold first_reject_with, most_rejected in Hv.
  destruct (most_rejected_inv (rejcodes s) order (Unknown, 0)) as (G1 & G2 & G3); [left; reflexivity|].
  simpl in G1, G2, G3.
  destruct (existsb _ (rejections s)) eqn:E; [|discriminate]. inversion Hv; subst.
  specialize (G3 c' (Hord c')).
  destruct G1 as [G1|[G1 _]]; [|lia].
  pose proof (count_code_nonneg (rejcodes s) c').
  apply existsb_exists in E. destruct E as ([p d] & Hin & He). simpl in He. apply code_eqb_eq in He.
  destruct Hq as (_ & _ & _ & _ & Q5).
  assert (0 < count_code (rejcodes s) d).
  { apply count_member_pos. rewrite Q5. change d with (snd (p, d)). apply in_map. exact Hin. }
  subst d. lia.
Qed.

(* not all repliers rejected: the only possible error is Invalid *)
Lemma verdict_threshold_invalid : forall order s tnum tden c,
  Z.of_nat (length (replies s)) <> Z.of_nat (length (rejections s)) ->
  verdict_of order s tnum tden = VErr c -> c = Invalid.
Proof.
  intros order s tnum tden c H1 Hv. unfold verdict_of in Hv.
  destruct (Z.of_nat (length (replies s)) =? 0); [discriminate|].
  apply Z.eqb_neq in H1. rewrite H1 in Hv.
  destruct (_ && _); [|discriminate]. unfold first_reject_with in Hv.
  destruct (existsb _ (rejections s)); [|discriminate]. inversion Hv. reflexivity.
Qed.

Lemma verdict_error_code : forall order ms tnum tden c,
  (forall c, In c order) ->
  send_transaction order ms tnum tden = VErr c ->
  let s := collect ms in
  (exists p, In (p, c) (rejections s)) /\
  (Z.of_nat (length (replies s)) = Z.of_nat (length (rejections s)) ->
   forall c', count_code (rejcodes s) c' <= count_code (rejcodes s) c) /\
  (Z.of_nat (length (replies s)) <> Z.of_nat (length (rejections s)) -> c = Invalid).
Proof.
  intros order ms tnum tden c Hord Hv. unfold send_transaction in Hv. simpl. repeat split.
  - eapply verdict_err_sound. exact Hv.
  - intros Heq c'. eapply verdict_all_rejected_most; eauto using q_inv_collect.
    intros H0. unfold verdict_of in Hv. apply Z.eqb_eq in H0. rewrite H0 in Hv. discriminate.
  - intros Hne. eapply verdict_threshold_invalid; eauto.
Qed.

Lemma send_no_badmapping : forall order ms tnum tden,
  (forall c, In c order) -> 0 < tnum -> 0 < tden ->
  send_transaction order ms tnum tden <> VBadMapping.
Proof. intros. apply verdict_no_badmapping; auto. apply q_inv_collect. Qed.

(* The tick is an environment event whose guard is only "the handler is alive
   and in its select": it is enabled after ANY history, however recently other
   events were served, and then starts a rebroadcast of the pending set unless
   one is running. *)
Lemma tick_always_enabled : forall depsort evs,
  let s := run depsort evs in
  stopped s = false -> hbusy s = None ->
  snd (step depsort s ETick) = OTrig /\
  (wk s = WIdle ->
   wk (fst (step depsort s ETick)) =
     WRun (match pending s with [] => [] | z :: l0 => depsort (nsort s) (z :: l0) end) /\
   snap (fst (step depsort s ETick)) = pending s).
Proof.
  intros depsort evs s Hs Hb. simpl. rewrite Hs, Hb. simpl. unfold trigger. rewrite Hs.
  destruct (wk s) eqn:Ew; simpl; split; try reflexivity; intros H; try discriminate.
  split; reflexivity.
Qed.

(* ---------- nobody asked for the transaction: success ---------- *)

Definition no_getdata (ms : list pmsg) : bool :=
  forallb (fun m => match m with MGetData _ true => false | _ => true end) ms.

Lemma no_getdata_replies : forall ms s, replies s = [] -> no_getdata ms = true ->
  replies (fold_left q_step ms s) = [].
Proof.
  induction ms as [|m ms IH]; intros s Hs Hn; simpl; [exact Hs|].
  simpl in Hn. apply andb_true_iff in Hn. destruct Hn as [Hm Hn]. apply IH; [|exact Hn].
  destruct m as [p hit | p hit c | p]; simpl.
  - destruct (mem p (closed s)); [exact Hs|]. destruct hit; [discriminate | exact Hs].
  - destruct (mem p (closed s)); [exact Hs|]. destruct hit; simpl; [|exact Hs].
    destruct (mem p (replies s)); simpl; exact Hs.
  - exact Hs.
Qed.

Lemma no_repliers_success : forall order ms tnum tden,
  replies (collect ms) = [] -> send_transaction order ms tnum tden = VNone.
Proof.
  intros order ms tnum tden Hr.
  destruct (send_transaction order ms tnum tden) eqn:E; [reflexivity | |];
    exfalso;
    assert (H : send_transaction order ms tnum tden <> VNone) by (rewrite E; discriminate);
    apply send_transaction_iff in H; destruct H as [Hne _]; apply Hne; exact Hr.
Qed.

Lemma nobody_asked_success : forall order ms tnum tden,
  no_getdata ms = true -> send_transaction order ms tnum tden = VNone.
Proof.
  intros. apply no_repliers_success. unfold collect. apply no_getdata_replies; [reflexivity | assumption].
Qed.

(* ---------- the block subscription is cancelled from outside ---------- *)

Lemma sub_cancel_identity : forall ds s, step ds s ESubCancel = (s, ONone).
Proof. intros. reflexivity. Qed.

Lemma sub_cancel_monitor : forall deps m, m_step deps m (ESubCancel, ONone) = m.
Proof. intros. reflexivity. Qed.

(* a history with the event = the history without it: same final state, and
   the same observation for every other operation *)
Lemma sub_cancel_silent : forall ds evs1 evs2,
  run ds (evs1 ++ ESubCancel :: evs2) = run ds (evs1 ++ evs2) /\
  snd (run_from ds init (evs1 ++ ESubCancel :: evs2)) =
    snd (run_from ds init evs1) ++ ONone :: snd (run_from ds (run ds evs1) evs2) /\
  snd (run_from ds init (evs1 ++ evs2)) =
    snd (run_from ds init evs1) ++ snd (run_from ds (run ds evs1) evs2).
Proof.
  intros ds evs1 evs2. unfold run. rewrite !run_from_app. simpl.
  destruct (run_from ds (fst (run_from ds init evs1)) evs2) as [s2 os2]. simpl.
  repeat split.
Qed.

Lemma sub_cancel_is_identity : forall (ds : nat -> list Z -> list Z) (deps : deps_t) s m,
  step ds s ESubCancel = (s, ONone) /\ m_step deps m (ESubCancel, ONone) = m.
Proof. intros. split; reflexivity. Qed.
