(* C15 — the property theorems, and nothing else. *)
From Coq Require Import ZArith List Bool Lia Permutation.
From Verif Require Import C15.Model C15.Spec C15.Proofs.
Import ListNotations.
Open Scope Z_scope.

(* ------------------------------------------------------------------ *)
(* (a) Broadcaster.  Everywhere: [deps] is any dependency graph, [depsort]
   any oracle for wtxmgr.DependencySort (k-th call) that returns a
   topological permutation of its duplicate-free input; [evs] any schedule of
   Broadcast (any outcome) / MarkAsConfirmed / block / tick / worker call,
   return (any outcome), hand-off, exit / Stop. *)

(* The pending set is exactly: Broadcast returned nil for it (accepted or
   already in mempool) and no later confirmation (MarkAsConfirmed delivered, or
   a rebroadcast answered "confirmed") names it.  In particular a rejected
   transaction never enters. *)
Theorem C15_pending_exact : forall depsort evs tx,
  In tx (pending (run depsort evs)) <-> accepted_unconfirmed (trace depsort evs) tx.
Proof. exact pending_exact. Qed.
Print Assumptions C15_pending_exact.

(* Whenever a rebroadcast is running it was started by a block or a tick that
   reached the live handler while none was running (and none started since);
   its snapshot is the pending set of that moment; and what it has sent plus
   what it will still send is a topological permutation (parents first) of
   that set.  Transactions confirmed before, or rejected, are not in it. *)
Theorem C15_running_rebroadcast_exact : forall deps depsort,
  (forall k l, NoDup l -> is_topo_perm deps l (depsort k l) = true) ->
  forall evs, wk (run depsort evs) <> WIdle ->
  exists evs1 trig evs2, evs = evs1 ++ trig :: evs2 /\ is_trigger trig /\
    wk (run depsort evs1) = WIdle /\ stopped (run depsort evs1) = false /\
    snap (run depsort evs) = pending (run depsort evs1) /\
    nsort (run depsort evs) = S (nsort (run depsort evs1)) /\
    is_topo_perm deps (pending (run depsort evs1))
      (sent (run depsort evs) ++ todo_of (wk (run depsort evs))) = true.
Proof. exact running_exact. Qed.
Print Assumptions C15_running_rebroadcast_exact.

(* ... where the decidable check means what it should *)
Theorem C15_topo_perm_meaning : forall deps snapshot ord, NoDup snapshot ->
  is_topo_perm deps snapshot ord = true -> topo_perm deps snapshot ord.
Proof. exact is_topo_perm_sound. Qed.
Print Assumptions C15_topo_perm_meaning.

(* Every invocation of cfg.Broadcast by the worker carries the next element of
   that plan, happens before Stop, and one at a time. *)
Theorem C15_worker_call_is_next : forall depsort s e s' tx,
  step depsort s e = (s', OSent tx) ->
  e = EWCall /\ stopped s = false /\ sent s' = sent s ++ [tx] /\
  exists rest, wk s = WRun (tx :: rest) /\ wk s' = WCall tx rest.
Proof. exact sent_grows. Qed.
Print Assumptions C15_worker_call_is_next.

(* A block or tick while no rebroadcast runs starts one over exactly the
   pending set; while one runs it changes nothing (no overlap). *)
Theorem C15_trigger_starts : forall depsort s e, is_trigger e -> wk s = WIdle -> stopped s = false ->
  hbusy s = None ->
  let s' := fst (step depsort s e) in
  snap s' = pending s /\ sent s' = [] /\ pending s' = pending s /\
  wk s' = WRun (match pending s with [] => [] | z :: l0 => depsort (nsort s) (z :: l0) end).
Proof. exact trigger_starts. Qed.
Print Assumptions C15_trigger_starts.

Theorem C15_trigger_no_overlap : forall depsort s e, is_trigger e -> wk s <> WIdle ->
  fst (step depsort s e) = s.
Proof. exact trigger_skips. Qed.
Print Assumptions C15_trigger_no_overlap.

(* The periodic trigger is a ticker: after ANY history (no matter how recently
   Broadcast / MarkAsConfirmed / block events were served) the tick is taken
   by a live handler that is in its select, and starts a rebroadcast of the
   pending set unless one is running.  Its guard mentions no other event. *)
Theorem C15_tick_always_enabled : forall depsort evs,
  let s := run depsort evs in
  stopped s = false -> hbusy s = None ->
  snd (step depsort s ETick) = OTrig /\
  (wk s = WIdle ->
   wk (fst (step depsort s ETick)) =
     WRun (match pending s with [] => [] | z :: l0 => depsort (nsort s) (z :: l0) end) /\
   snap (fst (step depsort s ETick)) = pending s).
Proof. exact tick_always_enabled. Qed.
Print Assumptions C15_tick_always_enabled.

(* The block subscription being cancelled from outside while the Broadcaster
   runs (its channel closed, SubscribeBlocks failing from then on) changes
   nothing: the event is the identity on the state, invisible to the monitor,
   and a history containing it ends in the same state and gives every other
   operation the same observation as the history without it.  (After it the
   environment can deliver no block; ticks, Broadcast, MarkAsConfirmed, the
   worker and Stop go on as before.) *)
Theorem C15_subscription_cancel_is_identity : forall depsort deps s m,
  step depsort s ESubCancel = (s, ONone) /\ m_step deps m (ESubCancel, ONone) = m.
Proof. exact sub_cancel_is_identity. Qed.
Print Assumptions C15_subscription_cancel_is_identity.

Theorem C15_subscription_cancel_is_silent : forall depsort evs1 evs2,
  run depsort (evs1 ++ ESubCancel :: evs2) = run depsort (evs1 ++ evs2) /\
  snd (run_from depsort init (evs1 ++ ESubCancel :: evs2)) =
    snd (run_from depsort init evs1) ++ ONone :: snd (run_from depsort (run depsort evs1) evs2) /\
  snd (run_from depsort init (evs1 ++ evs2)) =
    snd (run_from depsort init evs1) ++ snd (run_from depsort (run depsort evs1) evs2).
Proof. exact sub_cancel_silent. Qed.
Print Assumptions C15_subscription_cancel_is_silent.

(* The monitor evaluated on implementation traces accepts every trace of the
   model: return values (nil exactly for accepted / in-mempool, the mapped
   error otherwise, ErrBroadcasterStopped after Stop), one worker call in
   flight at a time, every call a not yet sent member of the set pending at
   the rebroadcast's start with all its pending parents sent before, all of
   the set sent when the rebroadcast finishes unless stopped. *)
Theorem C15_model_holds : forall deps depsort,
  (forall k l, NoDup l -> is_topo_perm deps l (depsort k l) = true) ->
  forall evs, holds deps (trace depsort evs) = true.
Proof. exact model_holds. Qed.
Print Assumptions C15_model_holds.

(* (d) Callers never wait indefinitely.  After Stop, MarkAsConfirmed, Broadcast
   and Stop itself return through the quit case; before Stop an idle handler
   serves them; a Broadcast caller whose request the handler is serving
   (handler inside cfg.Broadcast) is released by Stop with
   ErrBroadcasterStopped, or answered when the call returns; and the
   handler's reply is always enabled (errChan has capacity 1), whether the
   caller is still there or not. *)
Theorem C15_callers_return : forall depsort s tx o,
  (stopped s = true ->
     snd (step depsort s (EConf tx)) = OConfQuit /\
     snd (step depsort s (EBroadcast tx o)) = ORet tx RStopped /\
     snd (step depsort s (EBcStart tx)) = ORet tx RStopped /\
     snd (step depsort s EStop) = OStop) /\
  (stopped s = false -> hbusy s = None ->
     snd (step depsort s (EConf tx)) = OConfd tx /\
     snd (step depsort s (EBroadcast tx o)) = ORet tx (if accepted o then RNil else RErr o) /\
     snd (step depsort s (EBcStart tx)) = OBcHeld tx /\
     snd (step depsort s EStop) = OStop) /\
  (forall b, hbusy s = Some b ->
     (stopped s = false ->
        snd (step depsort s EStop) = OStopBc b /\
        snd (step depsort s (EBcRet o)) = ORet b (if accepted o then RNil else RErr o)) /\
     (stopped s = true -> snd (step depsort s (EBcRet o)) = OAnsH) /\
     hbusy (fst (step depsort s (EBcRet o))) = None).
Proof. exact callers_return. Qed.
Print Assumptions C15_callers_return.

(* Stop's wait for the worker and the handler ends: after Stop no event
   revives or prolongs either of them, each one's own next transition
   strictly shortens the wait, and the return of the handler's call (if one
   is open, whatever it answers, caller gone) followed by at most two
   transitions of the worker (the return of its call in flight, whatever it
   answers - including "confirmed" -, then its exit) leaves both gone. *)
Theorem C15_stop_monotone : forall depsort s e, stopped s = true ->
  stopped (fst (step depsort s e)) = true /\
  (tmeasure (fst (step depsort s e)) <= tmeasure s)%nat.
Proof. exact stopped_monotone. Qed.
Print Assumptions C15_stop_monotone.

Theorem C15_stop_worker_progress : forall depsort s o, stopped s = true -> wk s <> WIdle ->
  (tmeasure (fst (step depsort s (wnext s o))) < tmeasure s)%nat.
Proof. exact stop_drains. Qed.
Print Assumptions C15_stop_worker_progress.

Theorem C15_stop_completes : forall depsort s o0 o1 o2, stopped s = true ->
  let s0 := fst (step depsort s (hnext o0)) in
  let s1 := fst (step depsort s0 (wnext s0 o1)) in
  let s2 := fst (step depsort s1 (wnext s1 o2)) in
  wk s2 = WIdle /\ hbusy s2 = None.
Proof. exact stop_completes. Qed.
Print Assumptions C15_stop_completes.

(* ------------------------------------------------------------------ *)
(* (b) sendTransaction, for every sequence of getdata / reject / close
   messages and every map iteration order: the reply collection keeps
   rejections inside the set of peers that asked for the transaction ... *)
Theorem C15_collect_invariant : forall ms, q_inv (collect ms).
Proof. exact q_inv_collect. Qed.
Print Assumptions C15_collect_invariant.

(* ... and an error is returned iff some peer asked for the transaction and
   either every such peer rejected it or (some did and) the share calling it
   invalid reaches the threshold tnum/tden. *)
Theorem C15_verdict_iff : forall order ms tnum tden,
  send_transaction order ms tnum tden <> VNone <->
  should_fail (replies (collect ms)) (rejections (collect ms)) tnum tden.
Proof. exact send_transaction_iff. Qed.
Print Assumptions C15_verdict_iff.

(* Corollary: when no peer asked for the transaction - no peer connected, all
   peers silent, or peers that only send rejects / getdata for something else -
   the broadcast succeeds, so that the transaction is kept for rebroadcast. *)
Theorem C15_no_repliers_success : forall order ms tnum tden,
  replies (collect ms) = [] -> send_transaction order ms tnum tden = VNone.
Proof. exact no_repliers_success. Qed.
Print Assumptions C15_no_repliers_success.

Theorem C15_nobody_asked_success : forall order ms tnum tden,
  no_getdata ms = true -> send_transaction order ms tnum tden = VNone.
Proof. exact nobody_asked_success. Qed.
Print Assumptions C15_nobody_asked_success.

(* Which error: never the "invalid error mapping" fallback (threshold > 0, the
   iteration order covers the codes); the returned code was sent by some
   replier; when all repliers rejected it is a most frequent code, otherwise
   it is Invalid. *)
Theorem C15_verdict_no_badmapping : forall order ms tnum tden,
  (forall c, In c order) -> 0 < tnum -> 0 < tden ->
  send_transaction order ms tnum tden <> VBadMapping.
Proof. exact send_no_badmapping. Qed.
Print Assumptions C15_verdict_no_badmapping.

Theorem C15_verdict_error_code : forall order ms tnum tden c,
  (forall c, In c order) ->
  send_transaction order ms tnum tden = VErr c ->
  let s := collect ms in
  (exists p, In (p, c) (rejections s)) /\
  (Z.of_nat (length (replies s)) = Z.of_nat (length (rejections s)) ->
   forall c', count_code (rejcodes s) c' <= count_code (rejcodes s) c) /\
  (Z.of_nat (length (replies s)) <> Z.of_nat (length (rejections s)) -> c = Invalid).
Proof. exact verdict_error_code. Qed.
Print Assumptions C15_verdict_error_code.

(* ------------------------------------------------------------------ *)
(* non-vacuity: a diamond 1 <- 2,3 <- 4, a rejected tx 5, a block, a tick that
   is skipped, a peer-reported confirmation, MarkAsConfirmed, a second
   rebroadcast, a Broadcast request held open (a MarkAsConfirmed waits meanwhile),
   Stop in the middle of a second held request and of the rebroadcast, whose
   call then answers "confirmed" *)
Example C15_nonvacuous :
  let deps := [(2, [1]); (3, [1]); (4, [2; 3])] in
  let ds := fun (k : nat) (l : list Z) =>
              match k with O => [1; 3; 2; 4] | _ => [3; 4] end in
  let evs := [EBroadcast 4 OAccept; EBroadcast 2 (ORej Mempool); EBroadcast 5 (ORej Invalid);
              EBroadcast 1 OAccept; EBroadcast 3 OAccept; EBlock;
              EWCall; ETick; EWRet (ORej Confirmed); EWHandoff;
              EWCall; EWRet OAccept; EWCall; EWRet OOther; EWCall; EWRet OAccept; EWDone;
              EConf 2; EBlock; EWCall; EBcStart 1; EConf 4; EBcRet (ORej Mempool);
              EBcStart 2; EStop; EConf 3; EWRet (ORej Confirmed); EBcRet OAccept; EWDone;
              EBroadcast 1 OAccept] in
  holds deps (trace ds evs) = true /\
  map snd (trace ds evs) =
    [ORet 4 RNil; ORet 2 RNil; ORet 5 (RErr (ORej Invalid)); ORet 1 RNil; ORet 3 RNil; OTrig;
     OSent 1; OTrig; OAns; OHand 1;
     OSent 3; OAns; OSent 2; OAns; OSent 4; OAns; ODone;
     OConfd 2; OTrig; OSent 3; OBcHeld 1; ONone; ORet 1 RNil;
     OBcHeld 2; OStopBc 2; OConfQuit; OAns; OAnsH; ODone;
     ORet 1 RStopped] /\
  pending (run ds evs) = [4; 3; 1].
Proof. vm_compute. repeat split. Qed.

(* non-vacuity of the verdict: all repliers rejected / threshold reached
   exactly (3 of 5) / below threshold / the F16 shape now harmless *)
Example C15_verdict_nonvacuous :
  send_transaction all_codes [MGetData 1 true; MReject 1 true InsufficientFee;
                              MGetData 2 true; MReject 2 true InsufficientFee] 3 5 = VErr InsufficientFee /\
  send_transaction all_codes [MGetData 1 true; MReject 1 true Invalid; MGetData 2 true; MReject 2 true Invalid;
                              MGetData 3 true; MReject 3 true Invalid; MGetData 4 true; MGetData 5 true] 3 5
    = VErr Invalid /\
  send_transaction all_codes [MGetData 1 true; MReject 1 true Invalid; MGetData 2 true; MReject 2 true Invalid;
                              MGetData 3 true; MGetData 4 true] 3 5 = VNone /\
  send_transaction all_codes [MGetData 1 true; MReject 2 true InsufficientFee] 3 5 = VNone.
Proof. vm_compute. repeat split. Qed.
