#!/bin/bash
# usage: lib/evalseed.sh <Cxx> <seed-dir-with-patch.diff> [tier]
# Applies an independently written change in a scratch worktree, confirms it
# builds and that the touched packages' tests pass, then runs the check.
set -u
PROP=$1; SEED=$2; TIER=${3:-quick}
export GOFLAGS=-mod=mod GOPROXY=off
WT=/tmp/wt-eval-$$
git -C /repo worktree add -q $WT HEAD || exit 2
cd $WT
if ! git apply $SEED/patch.diff; then echo "PATCH-DOES-NOT-APPLY"; git -C /repo worktree remove --force $WT; exit 3; fi
echo "== build"; (go build ./... && (cd cache && go build ./...)) 2>&1 | tail -3
PKGS=$(git diff --name-only | grep '\.go$' | xargs -n1 dirname | sort -u)
for p in $PKGS; do
  if [[ $p == cache* ]]; then (cd cache && go test -count=1 ./${p#cache/}/... 2>&1 | tail -2)
  elif [[ $p == . ]]; then go test -count=1 -run 'Test[^NH]' . 2>&1 | tail -2
  else go test -count=1 ./$p/... 2>&1 | tail -2; fi
done
echo "== check $PROP ($TIER)"
cd /verif && VERIF_REPO=$WT ./check $PROP --tier $TIER 2>&1 | tail -4
git -C /repo worktree remove --force $WT
# scratch outputs and binaries built against the worktree
TAG=$(printf %s "$WT" | sha1sum | cut -c1-8)
find /verif/.work -maxdepth 2 -name "*-$TAG" -exec rm -rf {} + 2>/dev/null
