#!/usr/bin/env python3
"""Regenerates the table of DESIGN.md §8 from /verif/seeded/*/meta.json."""
import subprocess, re
tab = subprocess.run(['python3', '/verif/lib/mkseedtable.py'], stdout=subprocess.PIPE, text=True).stdout.rstrip('\n').split('\n')
lines = open('/verif/DESIGN.md').read().split('\n')
i = next(k for k, l in enumerate(lines) if l.startswith('| seed | change |'))
j = i
while j < len(lines) and lines[j].startswith('|'):
    j += 1
lines[i:j] = tab
open('/verif/DESIGN.md', 'w').write('\n'.join(lines))
print('rows', len(tab) - 2)
