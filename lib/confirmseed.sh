#!/bin/bash
# usage: lib/confirmseed.sh <seed-dir> <dest-dir-in-tree> <pkg> <-run regexp>
# Confirms an independently written change: the demo passes on the unchanged
# tree and fails with the patch.
set -u
SEED=$1; DEST=$2; PKG=$3; RUN=$4
export GOFLAGS=-mod=mod GOPROXY=off
WT=/tmp/wt-confirm-$$
git -C /repo worktree add -q $WT HEAD || exit 2
cd $WT
cp $SEED/*_test.go $DEST/ 2>/dev/null
MOD=.
[[ $DEST == cache* ]] && MOD=cache
clean=$(cd $MOD && timeout 300 go test ${GOTESTFLAGS:-} -count=1 -run "$RUN" $PKG 2>&1 | tail -1)
git apply $SEED/patch.diff || { echo PATCH-FAILS; git -C /repo worktree remove --force $WT; exit 3; }
patched=$(cd $MOD && timeout 300 go test ${GOTESTFLAGS:-} -count=1 -run "$RUN" $PKG 2>&1 | tail -1)
echo "clean:   $clean"
echo "patched: $patched"
git -C /repo worktree remove --force $WT
