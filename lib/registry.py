"""Per-property configuration of the checks: one JSON file per property in
/verif/props (see AGENT_GUIDE.md for the keys)."""
import glob, json, os

ROOT = os.path.dirname(os.path.dirname(os.path.abspath(__file__)))

GENERIC_TRUSTED = [
    "Coq 8.16.1 kernel (coqc; vm_compute used for witnesses and trace replay; no native_compute)",
    "no axioms declared; Print Assumptions of every property theorem must be 'Closed under the global context'",
    "hand-written executable Gallina model tied to /repo by differential replay of implementation traces (Go harness built from /repo's working tree with -tags verif; trusted as test code)",
    "Go toolchain, bbolt/walletdb (atomic durable commits), OS file semantics",
]

REGISTRY = {}
MANIFEST_TEXT = {}
# props/ACCEPTED lists the properties whose checks are registered in
# MANIFEST.json (reviewed, pass on the unchanged tree).  Developments still
# being built are runnable with ./check but not claimed.
_acc = os.path.join(ROOT, "props", "ACCEPTED")
ACCEPTED = set(open(_acc).read().split()) if os.path.exists(_acc) else None
for _f in sorted(glob.glob(os.path.join(ROOT, "props", "C*.json"))):
    _c = json.load(open(_f))
    _p = os.path.basename(_f)[:-5]
    MANIFEST_TEXT[_p] = _c.pop("manifest")
    REGISTRY[_p] = _c

# Properties not claimed, each with a one-line reason.
NOT_APPLICABLE = {}
for _p in ["C%02d" % i for i in range(1, 20)]:
    if _p not in REGISTRY and _p not in NOT_APPLICABLE:
        NOT_APPLICABLE[_p] = "not yet built: model, theorems and correspondence harness are designed in DESIGN.md §4 but no check is registered yet"
