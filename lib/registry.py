"""Per-property configuration of the checks."""

GENERIC_TRUSTED = [
    "Coq 8.16.1 kernel (coqc; vm_compute used for witnesses and trace replay; no native_compute)",
    "no axioms declared; Print Assumptions of every property theorem must be 'Closed under the global context'",
    "hand-written executable Gallina model tied to /repo by differential replay of implementation traces (Go harness built from /repo's working tree with -tags verif; trusted as test code)",
    "Go toolchain, bbolt/walletdb (atomic durable commits), OS file semantics",
]

REGISTRY = {
    "C13": {
        "harness": "c13",
        "coq_dir": "C13",
        "properties_files": ["C13/Properties.v"],
        "level": "proof",
        "trusted": [
            "net.SplitHostPort / net.ParseIP (textual parsing) are stdlib and not modelled: the model starts from ParseIP's 16-byte result",
            "time.Now() is read by the store itself; the harness brackets each call and repeats ambiguous ones",
            "enforcement (ban + disconnect on misbehaviour, refusing banned addresses) is not in this model",
        ],
        "assumptions": [
            "clock readings along one history are non-decreasing (hypothesis `monotone` of C13_status_exact)",
        ],
    },
}

# Properties not (yet) claimed, each with a one-line reason.
NOT_APPLICABLE = {
    "C18": "data-race freedom is defined over the memory accesses of the compiled Go program; no executable Gallina model tied by observable behaviour can express it (DESIGN.md §4 C18); using the race detector would be switching technique",
}
for _p in ["C%02d" % i for i in range(1, 20)]:
    if _p not in REGISTRY and _p not in NOT_APPLICABLE:
        NOT_APPLICABLE[_p] = "not yet built in this round: model, theorems and correspondence harness are designed in DESIGN.md §4 but no check is registered yet"

MANIFEST_TEXT = {
    "C13": {
        "text": "Machine-checked theorems (Coq) over an executable model of banman: for every history of ban/unban/status/reopen with non-decreasing clock, a status answer is a function of the history (banned with the recorded reason strictly before the whole-second expiry of the last un-lifted ban, not banned otherwise, same across reopen); key codec round-trips, is injective on canonical networks and maps the 4-byte and IPv4-mapped forms of one address to one record. The model is tied to the code by replaying real bbolt-backed store traces, ParseIPNet and codec tables in Coq on every run.",
        "note": "Trusted: Coq kernel, bbolt durability, net.ParseIP/SplitHostPort (spellings are exercised by the harness, not proved), harness clock bracketing. Enforcement half of C13 (ban+disconnect on misbehaviour) is exercised by the C03/C06 decision models and netsim, not by this model. Partial on that half.",
        "technique": "Coq proof (history-determined refinement invariant) + differential trace replay by vm_compute",
        "design_ref": "DESIGN.md §4 C13",
    },
}
