#!/usr/bin/env python3
import json, glob, os
rows = []
for d in sorted(glob.glob('/verif/seeded/*/')):
    m = json.load(open(d + 'meta.json'))
    c = m.get('confirmed_by_coordinator', {})
    rows.append((os.path.basename(d.rstrip('/')), m.get('title', '')[:140].replace('|', '/'), (m.get('needs_to_manifest') or '')[:200].replace('|', '/').replace('\n', ' '), c.get('check_catches_it', '?'), (c.get('note') or '')[:400].replace('|', '/')))
print('| seed | change | needs to manifest | caught | how |')
print('|---|---|---|---|---|')
for r in rows:
    print('| %s | %s | %s | %s | %s |' % r)
