#!/usr/bin/env python3
"""usage: importseed.py <Cxx> <n> <src-dir> <caught:yes|no|later> <note>
Copies an independently written, confirmed seeded change into /verif/seeded."""
import json, os, shutil, sys
prop, n, src, caught, note = sys.argv[1:6]
dst = "/verif/seeded/%s-%s" % (prop, n)
os.makedirs(dst, exist_ok=True)
for f in os.listdir(src):
    if os.path.isfile(os.path.join(src, f)):
        shutil.copy(os.path.join(src, f), dst)
m = json.load(open(os.path.join(dst, "meta.json")))
m["breaks_property"] = prop
m["confirmed_by_coordinator"] = {
    "ran": ["lib/confirmseed.sh (demo passes on a clean worktree of /repo HEAD, fails with patch.diff applied)",
            "lib/evalseed.sh (worktree + patch: go build ./..., tests of the touched packages pass; VERIF_REPO=<worktree> ./check %s)" % prop],
    "check_catches_it": caught,
    "note": note,
}
json.dump(m, open(os.path.join(dst, "meta.json"), "w"), indent=1)
print("imported", dst)
