#!/usr/bin/env python3
"""Regenerate /verif/MANIFEST.json from lib/registry.py (keeps it valid)."""
import json, os, subprocess, sys
ROOT = os.path.dirname(os.path.dirname(os.path.abspath(__file__)))
sys.path.insert(0, os.path.join(ROOT, "lib"))
from registry import REGISTRY, NOT_APPLICABLE, MANIFEST_TEXT, ACCEPTED
if ACCEPTED is not None:
    for _p in list(REGISTRY):
        if _p not in ACCEPTED:
            del REGISTRY[_p]
            NOT_APPLICABLE[_p] = "not yet claimed: the development exists in /verif but its check has not been reviewed and accepted yet"

def hook_commits():
    try:
        out = subprocess.run(["git", "-C", "/repo", "log", "--format=%H %s"], stdout=subprocess.PIPE, text=True).stdout
        return [l.split()[0] for l in out.splitlines() if " verif-hook:" in l or l.split(" ", 1)[1].startswith("verif-hook")]
    except Exception:
        return []

checks = []
for pid in sorted(REGISTRY):
    cfg = REGISTRY[pid]
    t = MANIFEST_TEXT[pid]
    checks.append({
        "property_id": pid,
        "quick_cmd": "./check %s --tier quick" % pid,
        "thorough_cmd": "./check %s --tier thorough" % pid,
        "evidence_file": "/verif/evidence/%s.json" % pid,
        "replay_cmd_template": "./check %s --replay {path}" % pid,
        "engine": "coq-model+replay",
        "level_claimed": {"category": cfg.get("level", "proof"), "text": t["text"], "design_ref": t.get("design_ref", "DESIGN.md §4")},
        "level_note": t["note"],
        "technique": t["technique"],
    })
m = {
    "version": 1,
    "setup_cmd": "./setup.sh",
    "hooks": {
        "guard": "verif",
        "enable": "go build -tags verif (the harness module /verif/harness replaces github.com/lightninglabs/neutrino and .../cache by /repo and /repo/cache)",
        "baseline_off_cmd": "for m in $(cat /w/out/gomods.txt); do MF=$(cd /repo/$m && . /w/out/goenv.sh && gomodflag); (cd /repo/$m && go test $MF -json -vet=off -count=1 -timeout 25m ./...); done",
        "source_commits": hook_commits(),
        "add_only": True,
    },
    "engines": [{
        "name": "coq-model+replay",
        "path": "/verif/coq, /verif/harness, /verif/check",
        "serves_properties": sorted(REGISTRY),
        "kind_free_text": "Coq 8.16 theorems over hand-written executable Gallina models; Go harness (built from /repo with -tags verif) records implementation traces that the model and the property monitor replay inside Coq by vm_compute",
    }],
    "checks": checks,
    "not_applicable": [{"property_id": k, "reason": v} for k, v in sorted(NOT_APPLICABLE.items())],
    "notes": "See DESIGN.md. KNOWN_FINDINGS.json lists genuine defects (open/fixed).",
}
json.dump(m, open(os.path.join(ROOT, "MANIFEST.json"), "w"), indent=1)
print("MANIFEST.json written:", len(checks), "checks,", len(NOT_APPLICABLE), "not applicable")
