import argparse, fcntl, glob, json, os, re, shutil, subprocess, sys, time
from concurrent.futures import ThreadPoolExecutor

ROOT = os.path.dirname(os.path.dirname(os.path.abspath(__file__)))
COQ = os.path.join(ROOT, "coq")
HARNESS = os.path.join(ROOT, "harness")
WORK = os.path.join(ROOT, ".work")
REPLAYS = os.path.join(ROOT, "replays")
EVIDENCE = os.path.join(ROOT, "evidence")

sys.path.insert(0, os.path.join(ROOT, "lib"))
from registry import REGISTRY, GENERIC_TRUSTED  # noqa: E402

GOENV = dict(os.environ)
GOENV["GOFLAGS"] = "-mod=mod"
GOENV["GOPROXY"] = "off"
# GOSUMDB / GOTOOLCHAIN must stay at their defaults (see DESIGN.md §2.3).
GOENV.pop("GOSUMDB", None)
GOENV.pop("GOTOOLCHAIN", None)

# VERIF_REPO=<dir> points the harness build at another checkout of
# lightninglabs/neutrino (a scratch worktree with a seeded change) instead of
# /repo; evidence is then not written.  Registered commands never set it.
ALT_REPO = os.environ.get("VERIF_REPO")


def modfile_args():
    if not ALT_REPO:
        return [], ""
    import hashlib
    tag = hashlib.sha1(ALT_REPO.encode()).hexdigest()[:8]
    d = os.path.join(WORK, "altmod-" + tag)
    os.makedirs(d, exist_ok=True)
    gm = open(os.path.join(HARNESS, "go.mod")).read().replace("=> /repo/cache", "=> %s/cache" % ALT_REPO).replace("=> /repo", "=> %s" % ALT_REPO)
    open(os.path.join(d, "go.mod"), "w").write(gm)
    shutil.copy(os.path.join(HARNESS, "go.sum"), os.path.join(d, "go.sum"))
    return ["-modfile=" + os.path.join(d, "go.mod")], "-" + tag


ALLOWED_AXIOMS = set()  # names of standard-library axioms a theorem may use (none so far)


def sh(cmd, cwd=None, env=None, timeout=None):
    """Run a command, return (rc, output)."""
    try:
        p = subprocess.run(cmd, cwd=cwd, env=env, timeout=timeout, stdout=subprocess.PIPE,
                           stderr=subprocess.STDOUT, text=True, shell=isinstance(cmd, str))
        return p.returncode, p.stdout
    except subprocess.TimeoutExpired as e:
        out = e.stdout if isinstance(e.stdout, str) else (e.stdout or b"").decode(errors="replace")
        return 124, out + "\n[timeout]"


_RUNLOCK = None


def headtail(out, n=1800):
    """first and last part of a long output (a Go fatal error names its cause in the first lines)"""
    if len(out) <= 2 * n:
        return out
    i = out.find('fatal error:')
    head = out[i:i + n] if i >= 0 else out[:n]
    return head + '\n[...]\n' + out[-n:]


class Lock:
    def __init__(self, name):
        os.makedirs(WORK, exist_ok=True)
        self.path = os.path.join(WORK, name + ".lock")

    def __enter__(self):
        self.f = open(self.path, "w")
        fcntl.flock(self.f, fcntl.LOCK_EX)

    def __exit__(self, *a):
        fcntl.flock(self.f, fcntl.LOCK_UN)
        self.f.close()


# ----------------------------------------------------------------------
# Coq side

def gen_coqproject():
    files = sorted(glob.glob(os.path.join(COQ, "*", "*.v")))
    rel = [os.path.relpath(f, COQ) for f in files]
    content = "-Q . Verif\n" + "\n".join(rel) + "\n"
    p = os.path.join(COQ, "_CoqProject")
    old = open(p).read() if os.path.exists(p) else ""
    if old != content:
        open(p, "w").write(content)
        return True
    return False


def gen_consts():
    """Regenerate coq/Generated/Consts.v from the compiled packages of /repo
    (translator: harness/cmd/genconsts).  Returns (ok, message)."""
    src = os.path.join(HARNESS, "cmd", "genconsts")
    if not os.path.isdir(src):
        return True, "no translator"
    os.makedirs(os.path.join(WORK, "bin"), exist_ok=True)
    mf, suffix = modfile_args()   # VERIF_REPO: the constants of THAT checkout
    binp = os.path.join(WORK, "bin", "genconsts" + suffix)
    rc, out = sh(["go", "build"] + mf + ["-tags", "verif", "-o", binp, "./cmd/genconsts"], cwd=HARNESS, env=GOENV, timeout=600)
    if rc != 0:
        return False, "genconsts does not build against /repo:\n" + out
    rc, out = sh([binp], timeout=60)
    if rc != 0:
        return False, "genconsts failed:\n" + out
    p = os.path.join(COQ, "Generated", "Consts.v")
    old = open(p).read() if os.path.exists(p) else ""
    if old != out:
        os.makedirs(os.path.dirname(p), exist_ok=True)
        open(p, "w").write(out)
    return True, "ok"


def gen_waitsites():
    """Regenerate coq/Generated/WaitSites.v from the SOURCE TEXT of the checkout
    (VERIF_REPO when set, else /repo; translator: harness/cmd/genwaitsites,
    go/parser only).  coq/C17/Tie.v ties the C17 wait-site table to it.
    Returns (ok, message)."""
    src = os.path.join(HARNESS, "cmd", "genwaitsites")
    if not os.path.isdir(src):
        return True, "no translator"
    os.makedirs(os.path.join(WORK, "bin"), exist_ok=True)
    binp = os.path.join(WORK, "bin", "genwaitsites")
    rc, out = sh(["go", "build", "-o", binp, "./cmd/genwaitsites"], cwd=HARNESS, env=GOENV, timeout=600)
    if rc != 0:
        return False, "genwaitsites does not build:\n" + out
    rc, out = sh([binp, "-repo", ALT_REPO or "/repo"], timeout=60)
    ok, msg = True, "ok"
    if rc != 0 or "Definition wait_sites" not in out:
        # the source does not parse (or a listed file is gone): leave a table
        # that makes the tie fail with a name instead of a stale one
        ok, msg = False, "genwaitsites failed:\n" + out
        out = ("(* GENERATED: harness/cmd/genwaitsites FAILED on this checkout. *)\n"
               "From Coq Require Import String List.\nFrom Verif Require Import C17.WaitTypes.\n"
               "Import ListNotations.\nOpen Scope string_scope.\n"
               "Definition wait_sites : list gsite := [mkG \"genwaitsites failed\" 0 \"\" MissingFunction []].\n")
    p = os.path.join(COQ, "Generated", "WaitSites.v")
    old = open(p).read() if os.path.exists(p) else ""
    if old != out:
        os.makedirs(os.path.dirname(p), exist_ok=True)
        open(p, "w").write(out)
    return ok, msg


def gen_accesssites():
    """Regenerate coq/Generated/AccessSites.v from the TYPE-CHECKED SOURCE of the
    checkout (VERIF_REPO when set, else /repo; translator: harness/cmd/genaccess,
    golang.org/x/tools/go/packages + go/types).  coq/C18/Tie.v ties the C18
    table of shared variables and their synchronisation disciplines to it.
    Returns (ok, message)."""
    src = os.path.join(HARNESS, "cmd", "genaccess")
    if not os.path.isdir(src):
        return True, "no translator"
    if not os.path.exists(os.path.join(COQ, "C18", "AccessTypes.v")):
        return True, "no C18 development"
    os.makedirs(os.path.join(WORK, "bin"), exist_ok=True)
    binp = os.path.join(WORK, "bin", "genaccess")
    with Lock("gobuild-genaccess"):
        rc, out = sh(["go", "build", "-o", binp, "./cmd/genaccess"], cwd=HARNESS, env=GOENV, timeout=600)
    if rc != 0:
        return False, "genaccess does not build:\n" + out
    p = subprocess.run([binp, "-repo", ALT_REPO or "/repo"], env=GOENV, stdout=subprocess.PIPE, stderr=subprocess.PIPE, text=True, timeout=300)
    rc, out, err = p.returncode, p.stdout, p.stderr
    ok, msg = True, "ok"
    if rc != 0 or "Definition access_sites" not in out:
        # the source does not load / type-check: leave a table that makes the
        # tie fail with a name instead of a stale one
        ok, msg = False, "genaccess failed:\n" + (err or out)[-3000:]
        out = ("(* GENERATED: harness/cmd/genaccess FAILED on this checkout. *)\n"
               "From Coq Require Import String List.\nFrom Verif Require Import C18.AccessTypes.\n"
               "Import ListNotations.\nOpen Scope string_scope.\n"
               "Definition access_sites : list asite := [mkA \"genaccess failed\" \"genaccess failed\" \"\" KWrite [] [] false false false []].\n"
               "Definition field_summary : list fsum := [].\n"
               "Definition fn_requires : list (string * list (string * lmode)) := [].\n"
               "Definition unresolved_calls : list (string * string) := [].\n"
               "Definition goroutine_roots : list string := [].\n")
    p = os.path.join(COQ, "Generated", "AccessSites.v")
    old = open(p).read() if os.path.exists(p) else ""
    if old != out:
        os.makedirs(os.path.dirname(p), exist_ok=True)
        open(p, "w").write(out)
    return ok, msg


_MOD = r"[A-Za-z0-9_']+(?:\.[A-Za-z0-9_']+)*"
_REQ = re.compile(r"From\s+Verif\s+Require\s+(?:Import\s+|Export\s+)?(" + _MOD + r"(?:\s+" + _MOD + r")*)\s*\.(?=\s|$)")


def required_files(vfile):
    """The .v files of the development a file names in `From Verif Require ...`
    (one or several modules per command)."""
    txt = re.sub(r"\(\*.*?\*\)", "", open(vfile).read(), flags=re.S)
    out = []
    for m in _REQ.finditer(txt):
        for mod in m.group(1).split():
            out.append(os.path.join(COQ, mod.replace(".", "/") + ".v"))
    return out


def file_cone(v):
    """.v files a .v file depends on (transitively, itself included)."""
    todo, seen = [v], set()
    while todo:
        f = todo.pop()
        if f in seen or not os.path.exists(f):
            continue
        seen.add(f)
        todo += required_files(f)
    return sorted(seen)


def vo_current(v):
    """The compiled file is current: it and everything it depends on is compiled
    from the present source, and it is not older than any of its dependencies
    (a dependency that was rebuilt while this file failed to rebuild leaves a
    stale .vo behind, which must not count as a discharged obligation)."""
    vo = v[:-2] + ".vo"
    if not os.path.exists(vo):
        return False
    t = os.path.getmtime(vo)
    for d in file_cone(v):
        dvo = d[:-2] + ".vo"
        if not os.path.exists(dvo) or os.path.getmtime(dvo) < os.path.getmtime(d):
            return False
        if os.path.getmtime(dvo) > t:
            return False
    return True


def assumptions_cache(rel):
    cache = os.path.join(WORK, "assumptions", rel.replace("/", "_") + ".txt")
    os.makedirs(os.path.dirname(cache), exist_ok=True)
    return cache


def capture_assumptions(rel):
    """Re-run coqc on one properties file alone and keep its output (the
    Print Assumptions lines).  The caller holds Lock("coq")."""
    v = os.path.join(COQ, rel)
    tmpd = os.path.join(WORK, "assumptions", "tmp_%d_" % os.getpid() + rel.replace("/", "_"))
    os.makedirs(tmpd, exist_ok=True)
    rc, out = sh(["coqc", "-Q", COQ, "Verif", "-o", os.path.join(tmpd, os.path.basename(v)[:-2] + ".vo"), v], cwd=COQ, timeout=1200)
    shutil.rmtree(tmpd, ignore_errors=True)
    if rc != 0:
        return False
    open(assumptions_cache(rel), "w").write(out)
    return True


def ensure_coq(jobs=16, prop=None):
    """Full .vo build of the development (incremental).  Returns (ok, log,
    current) where current lists the properties files of [prop] whose .vo is
    current right after the build (checked under the same lock, so that a
    concurrent run regenerating coq/Generated cannot blur it)."""
    with Lock("coq"):
        okc, msgc = gen_consts()
        okw, msgw = gen_waitsites()
        oka, msga = gen_accesssites()
        changed = gen_coqproject()
        mk = os.path.join(COQ, "Makefile.coq")
        if changed or not os.path.exists(mk):
            rc, out = sh(["coq_makefile", "-f", "_CoqProject", "-o", "Makefile.coq"], cwd=COQ)
            if rc != 0:
                return False, out, []
        rc, out = sh(["make", "-f", "Makefile.coq", "-j%d" % jobs, "-k"], cwd=COQ, timeout=3000)
        log = ("" if okc else msgc + "\n") + ("" if okw else msgw + "\n") + ("" if oka else msga + "\n") + out
        current = []
        if prop is not None:
            current = [rel for rel in REGISTRY[prop]["properties_files"] if vo_current(os.path.join(COQ, rel))]
            # Properties files tied to coq/Generated: capture their Print
            # Assumptions output now, under the same lock, so that a
            # concurrent run regenerating coq/Generated from another checkout
            # cannot get in between the build and the capture.
            for rel in current:
                v = os.path.join(COQ, rel)
                if any(os.path.relpath(f, COQ).startswith("Generated" + os.sep) for f in file_cone(v)):
                    capture_assumptions(rel)
        return (rc == 0 and okc and okw and oka), log, current


def coq_errors(log, files):
    """The error blocks of a make log that belong to the given .v files, each
    with the theorem the error position falls into."""
    out = []
    pat = re.compile(r'File "(?:\./)?([^"]+)", line (\d+), characters [\d-]+:\n(Error:.*?)(?=\n(?:make|COQC|COQDEP|File "|Closed under|[A-Za-z0-9_.]+ is |$)|\Z)', re.S)
    for m in pat.finditer(log):
        rel, line, err = m.group(1), int(m.group(2)), m.group(3)
        if rel not in files:
            continue
        thm = None
        try:
            for i, l in enumerate(open(os.path.join(COQ, rel)), 1):
                if i > line:
                    break
                mm = re.match(r"\s*(Theorem|Example|Lemma|Definition|Fixpoint)\s+([A-Za-z0-9_']+)", l)
                if mm:
                    thm = mm.group(2)
        except OSError:
            pass
        out.append({"file": rel, "line": line, "in": thm, "error": err.strip()[:4000]})
    return out


def theorem_names(vfile):
    names = []
    for line in open(vfile):
        m = re.match(r"\s*(Theorem|Example)\s+([A-Za-z0-9_']+)", line)
        if m:
            names.append(m.group(2))
    return names


def obligations(prop, current=None):
    """(all theorem names, discharged names, assumption report, bad axioms).
    current: the properties files found current right after the build."""
    cfg = REGISTRY[prop]
    allnames, done, report, bad = [], [], {}, []
    for rel in cfg["properties_files"]:
        v = os.path.join(COQ, rel)
        names = theorem_names(v)
        allnames += names
        vo = v[:-2] + ".vo"
        if current is not None and rel not in current:
            continue
        if not (os.path.exists(vo) and os.path.getmtime(vo) >= os.path.getmtime(v)):
            continue
        # Re-run coqc on the properties file alone to capture Print Assumptions.
        cache = assumptions_cache(rel)
        if not (os.path.exists(cache) and os.path.getmtime(cache) >= os.path.getmtime(vo)):
            with Lock("coq"):
                if not capture_assumptions(rel):
                    continue
        out = open(cache).read()
        done += names
        closed = out.count("Closed under the global context")
        axioms = sorted(set(re.findall(r"^([A-Za-z0-9_.']+)\s*:", out, flags=re.M)))
        report[rel] = {"closed_under_global_context": closed, "axioms": axioms}
        bad += [a for a in axioms if a.split(".")[-1] not in ALLOWED_AXIOMS]
    return allnames, done, report, bad


def import_cone(prop):
    """.v files of the development the property's theorems depend on (transitively)."""
    cfg = REGISTRY[prop]
    todo = [os.path.join(COQ, rel) for rel in cfg["properties_files"]]
    todo += glob.glob(os.path.join(COQ, cfg["coq_dir"], "*.v"))
    seen = set()
    while todo:
        f = todo.pop()
        if f in seen or not os.path.exists(f):
            continue
        seen.add(f)
        todo += required_files(f)
    return sorted(seen)


def forbidden_scan(prop):
    """No Admitted/admit/Axiom/... anywhere in the property's cone."""
    pat = re.compile(r"\b(Admitted|admit|Axiom|Axioms|Parameter|Parameters|Conjecture|Admit Obligations|bypass_check|Unset Guard Checking|Unset Positivity Checking|Unset Universe Checking)\b")
    hits = []
    for f in import_cone(prop):
        txt = re.sub(r"\(\*.*?\*\)", "", open(f).read(), flags=re.S)
        for i, line in enumerate(txt.splitlines(), 1):
            if pat.search(line):
                hits.append("%s:%d:%s" % (os.path.relpath(f, ROOT), i, line.strip()))
    return hits


def run_cases(outdir):
    """coqc every cases*.v of a harness run; returns (ok, rows, log)."""
    files = sorted(glob.glob(os.path.join(outdir, "cases*.v")))
    rows, logs, ok = [], [], True

    def one(f):
        return f, sh(["coqc", "-Q", COQ, "Verif", f], cwd=outdir, timeout=3000)

    with ThreadPoolExecutor(max_workers=14) as ex:
        for f, (rc, out) in ex.map(one, files):
            if rc != 0 or "R = " not in out:
                ok = False
                logs.append("%s: coqc rc=%d\n%s" % (f, rc, out[-3000:]))
                continue
            body = out[out.index("R = "):]
            for m in re.finditer(r"\((-?\d+), (-?\d+), (-?\d+), (-?\d+)\)", body.replace("\n", " ")):
                rows.append(tuple(int(x) for x in m.groups()))
    for f in glob.glob(os.path.join(outdir, "cases*.vo*")) + glob.glob(os.path.join(outdir, "cases*.glob")) + glob.glob(os.path.join(outdir, ".cases*.aux")):
        os.remove(f)
    return ok, rows, "\n".join(logs)


# ----------------------------------------------------------------------

def load_known():
    """KNOWN_FINDINGS.json plus known_findings/*.json (same format), all committed."""
    out = []
    for p in [os.path.join(ROOT, "KNOWN_FINDINGS.json")] + sorted(glob.glob(os.path.join(ROOT, "known_findings", "*.json"))):
        if os.path.exists(p):
            out += json.load(open(p))["findings"]
    return out


def write_replay(prop, name, payload):
    d = os.path.join(REPLAYS, prop)
    os.makedirs(d, exist_ok=True)
    p = os.path.join(d, name + ".json")
    json.dump(payload, open(p, "w"), indent=1)
    return p


def main(argv):
    ap = argparse.ArgumentParser()
    ap.add_argument("prop")
    ap.add_argument("--tier", default=os.environ.get("VERIF_TIER", "quick"))
    ap.add_argument("--seed", type=int, default=int(os.environ.get("VERIF_SEED", "1")))
    ap.add_argument("--replay")
    a = ap.parse_args(argv)
    prop = a.prop
    if prop not in REGISTRY:
        print("unknown property", prop)
        return 2
    cfg = REGISTRY[prop]
    t0 = time.time()
    violations = []   # (line, )
    known_lines = []
    notes = []

    # 1. proof obligations
    coq_ok, coq_log, current = ensure_coq(prop=prop)
    names, done, areport, bad_axioms = obligations(prop, current)
    forb = forbidden_scan(prop)
    proof_broken = []
    if len(done) < len(names):
        proof_broken = [n for n in names if n not in done]
    if not coq_ok and not proof_broken:
        # some other part of the development fails; only matters if this
        # property's cone is affected (then its Properties.vo would be stale).
        notes.append("coq build reported errors outside this property's cone")
    if bad_axioms:
        proof_broken.append("axioms:" + ",".join(bad_axioms))
    if forb:
        proof_broken.append("forbidden:" + ";".join(forb[:5]))

    # 2. harness build (from /repo's working tree, tag verif)
    os.makedirs(os.path.join(WORK, "bin"), exist_ok=True)
    mf, suffix = modfile_args()
    outdir = os.path.join(WORK, prop, ("replay" if a.replay else a.tier) + suffix)
    # two concurrent runs of the same check would share this directory: the
    # second waits (the lock is released when the process exits)
    global _RUNLOCK
    _RUNLOCK = Lock("run-" + prop + "-" + os.path.basename(outdir))
    _RUNLOCK.__enter__()
    shutil.rmtree(outdir, ignore_errors=True)
    os.makedirs(outdir, exist_ok=True)
    binp = os.path.join(WORK, "bin", cfg["harness"] + suffix)
    with Lock("gobuild-" + cfg["harness"] + suffix):
        rc, out = sh(["go", "build"] + mf + ["-tags", "verif", "-o", binp, "./cmd/" + cfg["harness"]],
                     cwd=HARNESS, env=GOENV, timeout=1200)
    report = None
    rows = []
    corr_broken = None
    if rc != 0:
        corr_broken = "harness does not build against /repo's working tree:\n" + out[-3000:]
    else:
        # 3. run on the implementation
        cmd = [binp] + cfg.get("harness_args", []) + ["-seed", str(a.seed), "-tier", a.tier, "-out", outdir]
        if a.replay:
            cmd += ["-replay", os.path.abspath(a.replay)]
        rc, out = sh(cmd, cwd=HARNESS, env=GOENV, timeout=cfg.get("harness_timeout", 1500) * (6 if a.tier == "thorough" else 1))
        rp = os.path.join(outdir, "report.json")
        if rc != 0 or not os.path.exists(rp):
            corr_broken = "harness run failed (rc=%d):\n%s" % (rc, headtail(out))
        else:
            report = json.load(open(rp))
            # 4. model + monitor inside Coq
            okc, rows, clog = run_cases(outdir)
            if not okc:
                corr_broken = "model replay (coqc) failed:\n" + clog
    # additional harnesses of the same property (their case ids are shifted)
    for extra in ([] if a.replay else cfg.get("extra_harnesses", [])):
        name, off = extra["harness"], int(extra.get("id_offset", 1000000))
        xdir = os.path.join(outdir, name)
        os.makedirs(xdir, exist_ok=True)
        xbin = os.path.join(WORK, "bin", name + suffix)
        with Lock("gobuild-" + name + suffix):
            rc, out = sh(["go", "build"] + mf + ["-tags", "verif", "-o", xbin, "./cmd/" + name], cwd=HARNESS, env=GOENV, timeout=1200)
        if rc != 0:
            corr_broken = (corr_broken or "") + "harness %s does not build:\n%s" % (name, out[-2000:])
            continue
        rc, out = sh([xbin] + extra.get("args", []) + ["-seed", str(a.seed), "-tier", a.tier, "-out", xdir], cwd=HARNESS, env=GOENV,
                     timeout=extra.get("timeout", 900) * (6 if a.tier == "thorough" else 1))
        xrp = os.path.join(xdir, "report.json")
        if rc != 0 or not os.path.exists(xrp):
            corr_broken = (corr_broken or "") + "harness %s run failed (rc=%d):\n%s" % (name, rc, headtail(out))
            continue
        xrep = json.load(open(xrp))
        okc, xrows, clog = run_cases(xdir)
        if not okc:
            corr_broken = (corr_broken or "") + "model replay of %s failed:\n%s" % (name, clog)
        rows += [(cid + off if kind < 3 else cid, kind, step, tag) for (cid, kind, step, tag) in xrows]
        if report is None:
            report = {"evaluations": 0, "distinct_nontrivial": 0, "rule": "", "samples": [], "histogram": {}, "cases": {}, "impl_failures": []}
        report["evaluations"] = report.get("evaluations", 0) + xrep.get("evaluations", 0)
        report["distinct_nontrivial"] = report.get("distinct_nontrivial", 0) + xrep.get("distinct_nontrivial", 0)
        report["rule"] = (report.get("rule") or "") + " || [" + name + "] " + (xrep.get("rule") or "")
        report["samples"] = (report.get("samples") or []) + (xrep.get("samples") or [])[:1]
        for k, v in (xrep.get("histogram") or {}).items():
            report.setdefault("histogram", {})[name + ":" + k] = v
        for k, v in (xrep.get("cases") or {}).items():
            try:
                report.setdefault("cases", {})[str(int(k) + off)] = v
            except ValueError:
                report.setdefault("cases", {})[name + ":" + k] = v
        for f in (xrep.get("impl_failures") or []):
            f = dict(f)
            try:
                f["case"] = str(int(f["case"]) + off)
            except ValueError:
                f["case"] = name + ":" + str(f["case"])
            report.setdefault("impl_failures", [])
            report["impl_failures"] = (report.get("impl_failures") or []) + [f]

    # 5. classification
    known = [k for k in load_known() if k["property"] == prop]
    open_tags = {str(k["tag"]): k for k in known if k["status"] == "open"}
    cases = (report or {}).get("cases", {})

    def hist_of(cid):
        p = cases.get(str(cid))
        if p and os.path.exists(p):
            return json.load(open(p))
        return None

    reported_known = set()
    failing_case_ids = set()
    mism_by_case = {}
    for (cid, kind, step, tag) in rows:
        if kind == 2:
            k = open_tags.get(str(tag)) if tag != 0 else None
            if k is not None:
                if k["id"] not in reported_known:
                    reported_known.add(k["id"])
                    known_lines.append("KNOWN-FINDING: property=%s %s %s (e.g. case %d step %d)" % (prop, k["id"], k["what_fails"], cid, step))
                continue
            failing_case_ids.add(cid)
            rp = write_replay(prop, "case-%d" % cid, {"property": prop, "kind": "monitor-rejects-implementation-trace",
                              "fail_step": step, "root_cause_tag": tag, "seed": a.seed, "tier": a.tier, "history": hist_of(cid)})
            violations.append("VIOLATION property=%s replay=%s" % (prop, rp))
        else:
            mism_by_case.setdefault(cid if kind < 3 else -(kind * 1000000 + cid), (kind, step))
    for f in ((report or {}).get("impl_failures") or []):
        k = open_tags.get(str(f.get("tag", "")))
        if k is not None:
            if k["id"] not in reported_known:
                reported_known.add(k["id"])
                known_lines.append("KNOWN-FINDING: property=%s %s %s (e.g. case %s step %s)" % (prop, k["id"], k["what_fails"], f["case"], f["step"]))
            continue
        failing_case_ids.add(f["case"])
        rp = write_replay(prop, "impl-%s" % f["case"], {"property": prop, "kind": "implementation-failure", "what": f["what"],
                          "fail_step": f["step"], "tag": f.get("tag", ""), "seed": a.seed, "tier": a.tier, "history": hist_of(f["case"])})
        violations.append("VIOLATION property=%s replay=%s" % (prop, rp))
    # model/implementation disagreements
    have_input = bool(violations)
    nmis = 0
    for cid, (kind, step) in sorted(mism_by_case.items()):
        if cid in failing_case_ids and kind < 3:
            continue  # already reported with a failing input
        nmis += 1
        if have_input or nmis > 3:
            continue  # a failing input is already reported; do not add noise
        if kind >= 3:
            cid = -cid - kind * 1000000
            rp = write_replay(prop, "aux%d-%d" % (kind, cid), {"property": prop, "kind": "correspondence", "no_longer_checks": "correspondence:%s auxiliary function table %d, entry %d of cases.v (model %s vs implementation)" % (prop, kind, cid, cfg["coq_dir"]),
                              "seed": a.seed, "tier": a.tier})
        else:
            rp = write_replay(prop, "mismatch-%d" % cid, {"property": prop, "kind": "correspondence", "no_longer_checks": "correspondence:%s (model %s vs implementation)" % (prop, cfg["coq_dir"]),
                              "diverging_step": step, "seed": a.seed, "tier": a.tier, "history": hist_of(cid)})
        violations.append("VIOLATION property=%s replay=%s no-failing-input-found" % (prop, rp))
    if corr_broken and not violations:
        rp = write_replay(prop, "correspondence-broken", {"property": prop, "kind": "correspondence", "no_longer_checks": "correspondence:%s" % prop, "detail": corr_broken})
        violations.append("VIOLATION property=%s replay=%s no-failing-input-found" % (prop, rp))
    # A broken obligation is reported when the search found no failing input,
    # and always when the broken file is tied to the source through
    # coq/Generated (Generated/Check.v, C17/Tie.v): that is a statement about
    # the source text itself, which a failing input does not replace.
    source_tied = any(os.path.relpath(f, COQ).startswith("Generated" + os.sep)
                      for rel in cfg["properties_files"] if rel not in current
                      for f in file_cone(os.path.join(COQ, rel)))
    if proof_broken and (source_tied or not [v for v in violations if "no-failing-input-found" not in v]):
        rp = write_replay(prop, "proof-broken", {"property": prop, "kind": "proof", "no_longer_checks": proof_broken,
                                                 "errors": coq_errors(coq_log, [os.path.relpath(f, COQ) for f in import_cone(prop)]),
                                                 "coq_log_tail": coq_log[-3000:]})
        violations.append("VIOLATION property=%s replay=%s no-failing-input-found" % (prop, rp))

    # thorough tier: independent re-check of the compiled theorems and their
    # whole dependency cone with coqchk (lists the axioms of everything loaded)
    coqchk_report = None
    if a.tier == "thorough" and not a.replay and not proof_broken:
        mods = ["Verif." + rel[:-2].replace("/", ".") for rel in cfg["properties_files"]]
        with Lock("coq"):
            rc, out = sh(["coqchk", "-silent", "-o", "-Q", COQ, "Verif"] + mods, cwd=COQ, timeout=3000)
        m = re.search(r"\* Axioms:(.*?)\n\s*\n", out, flags=re.S)
        axioms = (m.group(1).strip() if m else "?")
        coqchk_report = {"rc": rc, "axioms": axioms, "modules": mods}
        if rc != 0 or axioms != "<none>":
            proof_broken.append("coqchk: rc=%d axioms=%s" % (rc, axioms[:200]))
            rp = write_replay(prop, "coqchk", {"property": prop, "kind": "proof", "no_longer_checks": "coqchk re-check of " + " ".join(mods), "log_tail": out[-3000:]})
            violations.append("VIOLATION property=%s replay=%s no-failing-input-found" % (prop, rp))

    # 6. evidence
    wall = time.time() - t0
    cov = {
        "obligations": len(names),
        "discharged": len(done) if not (bad_axioms or forb) else 0,
        "checker_cmd": "make -C /verif/coq -f Makefile.coq (coqc 8.16.1, full .vo build) ; coqc -Q /verif/coq Verif %s ; coqc cases.v (vm_compute replay)" % " ".join(cfg["properties_files"]),
        "trusted_base": GENERIC_TRUSTED + cfg.get("trusted", []),
        "theorems": names,
        "print_assumptions": areport,
        "coqchk": coqchk_report,
        "evaluations": (report or {}).get("evaluations", 0),
        "distinct_nontrivial": (report or {}).get("distinct_nontrivial", 0),
        "traces_validated_against_impl": (report or {}).get("evaluations", 0) if not corr_broken else 0,
        "rule": (report or {}).get("rule", ""),
        "samples": ((report or {}).get("samples") or [])[:3] or ["(no harness run)"],
        "histogram": (report or {}).get("histogram", {}),
        "exhaustive": bool((report or {}).get("exhaustive", False)),
        "model_impl_mismatches": len(mism_by_case),
        "known_findings_reproduced": sorted(reported_known),
        "notes": notes + ([(report or {}).get("notes")] if (report or {}).get("notes") else []),
    }
    ev = {
        "property_id": prop, "tier": a.tier if a.tier in ("quick", "thorough") else "quick", "seed": a.seed,
        "level": cfg.get("level", "proof"), "coverage": cov,
        "assumptions": cfg.get("assumptions", []),
        "wall_s": round(wall, 2), "violations": len(violations),
    }
    if not a.replay and not ALT_REPO:
        os.makedirs(EVIDENCE, exist_ok=True)
        json.dump(ev, open(os.path.join(EVIDENCE, prop + ".json"), "w"), indent=1)

    for l in known_lines:
        print(l)
    for v in violations:
        print(v)
    print("%s: tier=%s seed=%d obligations=%d/%d cases=%d nontrivial=%d mismatches=%d violations=%d known=%s wall=%.1fs" % (
        prop, a.tier, a.seed, cov["discharged"], cov["obligations"], cov["evaluations"], cov["distinct_nontrivial"],
        len(mism_by_case), len(violations), sorted(reported_known), wall))
    return 1 if violations else 0
