#!/bin/sh
# Build the framework from files on disk only (offline).
set -e
cd "$(dirname "$0")"
export GOFLAGS=-mod=mod GOPROXY=off
python3 - <<'PY'
import sys, os
sys.path.insert(0, "lib")
import runner
res = runner.ensure_coq()
ok, log = res[0], res[1]
print(log[-4000:])
if not ok:
    print("coq build failed"); sys.exit(1)
PY
mkdir -p .work/bin
cd harness
for d in cmd/*/; do
  n=$(basename "$d")
  go build -tags verif -o ../.work/bin/$n ./cmd/$n || echo "WARN: harness $n does not build"
done
echo setup done
